"""Plan object (for lib/mirprop) of the polling driver's FdQueue check of C02 (mirsym/c02_fdqueue.py)."""


class FdqPlan:
    summaries = []
    checker_cmd = ""

    def z3_version(self):
        import z3
        return z3.get_version_string()

    def prepare(self, tier):
        import dump
        import c02_fdqueue
        p, c = dump.dump_mir("compio-driver", ["polling"], no_default_features=True, tag="compio-driver-poll")
        self.checker_cmd = c + " ;; mirsym/c02_fdqueue.py"
        self.D = c02_fdqueue.FdQueueModel(p)
        FdqPlan.summaries = c02_fdqueue.SUMMARY_TEXT

    def checks(self, tier):
        return [("fdqueue." + n, getattr(self.D, "check_" + n)) for n in self.D.CHECKS]

    def encoded(self):
        return sorted(self.D.encoded)

    def bounds(self, tier):
        return {"readers_queued": "0-2", "writers_queued": "0-2", "event_flags": "symbolic"}

    def validate(self, tier):
        return 0, 0, ["pure data-structure functions interpreted from MIR; no native trace validation"]

    def replay(self, f):
        return None, {"model": f.model, "choices": f.trace}
