"""Plan object (for lib/mirprop) of the blocking-style adapter's buffers (mirsym/c12_syncbuf.py)."""


class SyncPlan:
    summaries = []
    checker_cmd = ""

    def __init__(self, only=None):
        self.only = only

    def z3_version(self):
        import z3
        return z3.get_version_string()

    def prepare(self, tier):
        import dump
        import c12_syncbuf
        p, c = dump.dump_mir("compio-io", ["compat"], tag="compio-io-compat")
        self.checker_cmd = c + " ;; mirsym/c12_syncbuf.py"
        self.max_inner, self.pendings = (3, 1) if tier == "quick" else (4, 2)
        self.B = c12_syncbuf.SyncBufModel(p, max_inner=self.max_inner, pendings=self.pendings)
        SyncPlan.summaries = c12_syncbuf.SUMMARY_TEXT

    def checks(self, tier):
        import re
        return [("sync." + n, getattr(self.B, "check_" + n)) for n in self.B.CHECKS if not self.only or re.search(self.only, n)]

    def encoded(self):
        return sorted(self.B.encoded)

    def bounds(self, tier):
        return {"inner_calls_per_operation": self.max_inner, "pending_answers_per_operation": self.pendings,
                "state": "arbitrary well-formed buffer (0 <= progress <= len <= cap <= 2^61, arbitrary content), arbitrary eof flag, "
                         "arbitrary base_capacity and max_buffer_size <= 2^61",
                "integers": "usize as mathematical integers with explicit mod-2^64 wrap; every MIR overflow check is kept as a panic obligation",
                "steps": "1 operation per check from an arbitrary state (inductive step)"}

    def validate(self, tier):
        """the repo's own scenario (sync_stream tests: write, flush, read back) as a concrete run through the interpreter"""
        import z3
        from interp import Ref, Cell, Infeasible
        from explore import explore
        B = self.B
        seen = []

        def body(p):
            # write side: empty buffer cap 8, base 8, max 16; write 5 bytes -> Ok(5), 5 bytes pending
            W, I = B.world(p)
            st, obj, base, mx = B.wstate(p, W)
            p.assume(z3.And(st.len == 0, st.begin == 0, st.cap == 8, base == 8, mx == 16))
            import c11_buffer as cb
            src = cb.GBytes(z3.Array("srcdata", cb.ISORT, z3.BitVecSort(8)), cb.bv(0), cb.bv(5))
            r = I.run_to_end(I.call_fn(B.sfn("w", "write"), [Ref(Cell(obj)), src], p))
            present, sl, vec = B.buf_view(st.buf)
            seen.append(r.variant)
            return [("Ok(5)", z3.And(z3.BoolVal(r.variant == 0), r.fields[0].v == 5) if r.variant == 0 else z3.BoolVal(False)),
                    ("5 bytes pending", z3.And(vec.len == 5, sl.begin == 0))]
        st_, fails = explore("validate.sync_write", body)
        dis = 1 if (fails or seen != [0]) else 0
        notes = ["concrete SyncWriteBuf::write run (empty buffer, capacity 8, limit 16, 5 bytes) through the interpreter: Ok(5), 5 bytes "
                 "buffered — the first step of the repo's compat tests; native demos of the findings: findings/F24_sync_stream_read_limit_demo.rs"]
        if dis:
            notes.append("interpreter disagrees: %s %s" % ([f.label for f in fails], seen))
        return 1, dis, notes

    def replay(self, f):
        return None, {"model": f.model, "choices": f.trace,
                      "note": "inductive-step counterexample: the model gives the buffer state (begin0/len0/cap0), eof0, base_capacity, "
                              "max_buffer_size and the inner stream's answers; native form of the recorded findings: "
                              "findings/F24_sync_stream_read_limit_demo.rs"}
