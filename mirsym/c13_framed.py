"""C13 — the read state machine of `Framed` (compio-io/src/framed/read.rs: <Framed as Stream>::poll_next), from MIR.

Interpreted: poll_next with its three states (Configuring, Idle, Reading), the boxed `async move` block that refills the
buffer (its coroutine and closure), Frame::{len, slice}, AsyncReadExt::append (coroutine), and underneath the real buffer.rs
(inner, take_inner, restore_inner, advance, reset, with).  The framer and the codec are abstract: `extract` answers Err, Ok(None)
or Ok(Some(frame)) with solver-chosen prefix / payload / suffix lengths whose sum lies within the buffered bytes (the contract
the concrete framers are checked against by the Kani harnesses of this property); `decode` records the bytes it is shown.
Ghost Vec<u8> and adversarial inner reader as in mirsym/c11_buffer.py.

One or two calls of poll_next from an arbitrary state (any buffer, any eof flag, not yet configured or idle).  Obligations:
  no panic; on every return the state machine still owns its reader and its buffer (Idle(Some) or Reading), so the next poll
  cannot hit "Inconsistent state";  a yielded item was decoded from exactly the payload bytes of the frame the framer reported;
  afterwards exactly that frame is consumed; a refill appends to the unread bytes without touching them; an error leaves the
  unread bytes as they were; the stream ends (None) only on an end-of-file read that follows an earlier one.
"""
import re

import z3

from interp import Interp, Struct, EnumV, Ref, Cell, UNIT, Unsupported, Infeasible, MirPanic, Coroutine, Closure
import c11_buffer as cb
from c11_buffer import BufModel, GVec, GSlice, GBytes, IoErr, WFut, deref, blen, bcap, boff, broot, bv, umin, some, ok, err, ISORT, overlay

SUMMARY_TEXT = cb.SUMMARY_TEXT + [
    "<F as Framer<B>>::extract = Err(e) | Ok(None) | Ok(Some(Frame{prefix, payload, suffix})) with solver-chosen lengths, "
    "prefix + payload + suffix <= buffered bytes; <C as Decoder>::decode = records the slice it is shown, returns a token",
    "Slice<Slice<B>>::flatten, Slice::end, IoBufMutExt::uninit (a view starting at the initialized length), Uninit::into_inner, "
    "Buffer::reserve (capacity grows to a solver-chosen value >= len + n) by their documented behaviour; Box::pin, the unsizing "
    "cast, FutureExt::poll_unpin (= poll of the boxed coroutine), Pin::get_mut by definition",
]


class FramedModel(BufModel):
    def __init__(self, mir_path, max_inner=2, pendings=1, max_extract=3):
        super().__init__(mir_path, max_inner=max_inner, pendings=pendings)
        self.max_extract = max_extract

    def resolver(self, callee):
        clean = self.strip_turbofish(callee)
        m = re.match(r"^(?:framed::frame::)?Frame::(\w+)$", clean)
        if m:
            c = [f for k, f in self.fns.items() if re.match(r"^(?:framed::)?frame::<impl", k) and k.endswith("::" + m.group(1))
                 and re.search(r"\(_1: &(?:framed::frame::|frame::)?Frame[,)]", f.sig)]
            if len(c) == 1:
                return c[0]
        m = re.match(r"^(?:framed::write::)?State::(\w+)$", clean)
        if m:
            f = self.wfn(m.group(1))
            if f is not None:
                return f
        return super().resolver(callee)

    def wfn(self, meth):
        c = [f for k, f in self.fns.items() if k.startswith("framed::write::<impl") and k.endswith("::" + meth)]
        return c[0] if len(c) == 1 else None

    def poll_next_fn(self):
        c = [f for k, f in self.fns.items() if k.startswith("framed::read::<impl") and k.endswith("::poll_next")]
        if len(c) != 1:
            raise Unsupported("cannot locate Framed::poll_next (%d)" % len(c))
        return c[0]

    def extra_summaries(self, W):
        me = self
        fresh = W.freshv

        def s_pin_get_mut(I, a, p, c):
            return a[0].f[0].v

        def s_extract(I, a, p, c):
            W.extracts += 1
            if W.extracts > me.max_extract:
                raise Infeasible()
            sl = deref(a[1])
            avail = blen(sl, p)
            k = p.choose(3, "framer: no frame yet / a frame / error")
            if k == 2:
                W.framer_errors += 1
                return err(IoErr("framer", "InvalidData"))
            if k == 0:
                return ok(EnumV(0))
            pre, pay, suf = fresh("prefix"), fresh("payload"), fresh("suffix")
            p.assume(z3.And(pre >= 0, pay >= 0, suf >= 0, pre + pay + suf <= avail))
            W.frames.append((pre, pay, suf, broot(sl).data, boff(sl), avail))
            return ok(some(Struct({0: Cell(pre), 1: Cell(pay), 2: Cell(suf)})))

        def s_decode(I, a, p, c):
            sl = deref(a[1])
            W.decoded.append((broot(sl).data, boff(sl), blen(sl, p)))
            if p.choose(2, "decode: ok / the codec rejects the payload") == 1:
                return err(IoErr("codec", "InvalidData"))
            return ok(("decoded-item", len(W.decoded)))

        def s_flatten(I, a, p, c):
            outer = deref(a[0])
            inner = outer.inner
            nb = inner.begin + outer.begin
            if outer.end is not None and inner.end is not None:
                ne = umin(inner.begin + outer.end, inner.end)
            elif outer.end is not None:
                ne = inner.begin + outer.end
            else:
                ne = inner.end
            return GSlice(inner.inner, nb, ne)

        def s_end(I, a, p, c):
            e = deref(a[0]).end
            return EnumV(0) if e is None else some(e)

        def s_uninit(I, a, p, c):
            x = deref(a[0])
            return GSlice(x, blen(x, p))

        def s_reserve(I, a, p, c):
            buf = deref(a[0])
            ev = buf.f[0].v
            if ev.variant != 1:
                raise MirPanic("Option::expect on None: the buffer was taken and never returned")
            v = broot(ev.fields[0].v)
            need = v.len + a[1]
            if p.decide(v.cap < need):
                nc = fresh("cap")
                p.assume(z3.And(nc >= need, nc <= bv(cb.MAXLEN)))
                v.cap = nc
            return UNIT

        def s_box_pin(I, a, p, c):
            return a[0]

        def s_encode(I, a, p, c):
            # the encoder appends the item's bytes to the buffer (start_send has cleared it) or fails
            v = broot(a[2])
            W.encode_saw_len.append(v.len)
            if p.choose(2, "encode: ok / error") == 1:
                junk = fresh("junk")
                p.assume(z3.And(junk >= 0, v.len + junk <= v.cap))
                v.len = v.len + junk              # a failing encoder may leave partial output behind
                return err(IoErr("codec", "InvalidData"))
            k = fresh("payload")
            p.assume(z3.And(k >= 0, k <= bv(cb.MAXLEN // 4)))
            pay = fresh("payloadbytes", z3.ArraySort(ISORT, z3.BitVecSort(8)))
            at = v.len
            if p.decide(v.cap < at + k):
                nc = fresh("cap")
                p.assume(z3.And(nc >= at + k, nc <= bv(cb.MAXLEN)))
                v.cap = nc
            v.data = overlay(v.data, at, k, pay, bv(0))
            v.len = at + k
            W.encoded.append((pay, k, at))
            return ok(UNIT)

        def s_enclose(I, a, p, c):
            # the framer rewrites the whole initialized part in place: header ++ payload ++ trailer (layer 1 ties the
            # concrete framers to this); here: new content = a fresh array, new length >= old length
            v = broot(a[1])
            W.enclose_saw.append((v.data, v.len))
            n = fresh("framedlen")
            p.assume(z3.And(n >= v.len, n <= bv(cb.MAXLEN // 2)))
            fr = fresh("framedbytes", z3.ArraySort(ISORT, z3.BitVecSort(8)))
            if p.decide(v.cap < n):
                nc = fresh("cap")
                p.assume(z3.And(nc >= n, nc <= bv(cb.MAXLEN)))
                v.cap = nc
            v.data, v.len = fr, n
            W.framed.append((fr, n))
            return UNIT

        def s_buf_reserve(I, a, p, c):
            v = broot(a[0])
            need = v.len + a[1]
            if p.decide(v.cap < need):
                nc = fresh("cap")
                p.assume(z3.And(nc >= need, nc <= bv(cb.MAXLEN)))
                v.cap = nc
            return ok(UNIT)

        def s_poll_unpin(I, a, p, c):
            fut = deref(a[0])
            while isinstance(fut, Struct):
                fut = deref(fut.f[0].v)
            if not isinstance(fut, Coroutine):
                raise Unsupported("poll_unpin of %r" % (fut,))
            fn = me.poll_fn_for2(fut, c)
            return (yield from I.call_fn(fn, [Struct({0: Cell(Ref(Cell(fut)))}), a[1]], p))

        def s_poll_from_residual(I, a, p, c):
            # Poll<Option<Result<T, E>>> from Result<Infallible, io::Error>: Ready(Some(Err(e.into())))
            return EnumV(0, [Cell(some(err(a[0].fields[0].v)))])

        return [
            (r"^Pin::<&mut (?:framed::)?Framed<.*>>::get_mut$", s_pin_get_mut),
            (r"^<F as (?:framed::frame::)?Framer<B>>::extract$", s_extract),
            (r"^<C as (?:framed::codec::|codec::)?Decoder<.*>>::decode$", s_decode),
            (r"^(?:compio_buf::)?Slice::<(?:compio_buf::)?Slice<B>>::flatten$", s_flatten),
            (r"^(?:compio_buf::)?Slice::<.*>::end$", s_end),
            (r"^<.* as IoBufMutExt>::uninit$", s_uninit),
            (r"^(?:buffer::)?Buffer::<B>::reserve$", s_reserve),
            (r"^Box::<.*>::pin$", s_box_pin),
            (r" as (?:futures_util::)?FutureExt>::poll_unpin$", s_poll_unpin),
            (r"^<Poll<Option<Result<.*>>> as FromResidual<.*>>::from_residual$", s_poll_from_residual),
            (r"^<(?:std::io::)?Error as Into<.*>>::into$|^<.* as From<(?:std::io::)?Error>>::from$", lambda I, a, p, c: a[0]),
            (r"^Pin::<&mut (?:framed::)?Framed<.*>>::as_mut$", lambda I, a, p, c: a[0].cell.v),
            (r"^Poll::<Result<\(\), std::io::Error>>::map_err::<", lambda I, a, p, c: a[0]),
            (r"^<C as (?:framed::codec::|codec::)?Encoder<.*>>::encode$", s_encode),
            (r"^<F as (?:framed::frame::)?Framer<B>>::enclose$", s_enclose),
            (r"^<B as IoBufMut>::reserve$", s_buf_reserve),
        ]

    def world(self, p):
        W, I = super().world(p)
        W.extracts, W.frames, W.decoded, W.framer_errors = 0, [], [], 0
        W.encode_saw_len, W.encoded, W.enclose_saw, W.framed = [], [], [], []
        I.enums = dict(I.enums)
        I.enums["StateInner"] = {"Configuring": 0, "Idle": 1, "Reading": 2}
        I.enums["State"] = {"Configuring": 0, "Idle": 1, "Writing": 2, "Closing": 3, "Flushing": 4}
        return W, I

    # ------------------------------------------------------------------ the check
    def framed_obj(self, p, W, st, configured):
        io = ("reader",)
        eof = z3.Bool("eof0")
        if configured:
            inner = EnumV(1, [Cell(some(Struct({0: Cell(io), 1: Cell(st.buf)})))])
        else:
            inner = EnumV(0, [Cell(some(io)), Cell(some(st.buf))])
        rs = Struct({0: Cell(inner), 1: Cell(eof)})
        obj = Struct({0: Cell(rs), 1: Cell(("write-state",)), 2: Cell(("codec",)), 3: Cell(("framer",)), 4: Cell(("types",))})
        return obj, rs, eof

    def state_view(self, rs):
        """('idle', Buffer) | ('reading', coroutine) | ('lost', why)"""
        ev = rs.f[0].v
        if ev.variant == 1:
            o = ev.fields[0].v
            if o.variant != 1:
                return ("lost", "Idle(None): reader and buffer are gone")
            tup = o.fields[0].v
            return ("idle", tup.f[1].v)
        if ev.variant == 2:
            return ("reading", ev.fields[0].v)
        o0, o1 = ev.fields[0].v, ev.fields[1].v
        if o0.variant == 1 and o1.variant == 1:
            return ("configuring", o1.fields[0].v)
        return ("lost", "Configuring with its reader or buffer taken")

    def check_poll_next(self, p):
        W, I = self.world(p)
        st = self.state(p, W)
        configured = p.choose(2, "state: not yet configured / idle") == 1
        obj, rs, eof0 = self.framed_obj(p, W, st, configured)
        fn = self.poll_next_fn()
        pinned = Struct({0: Cell(Ref(Cell(obj)))})
        cx = Ref(Cell(("ctx",)))
        r = I.run_to_end(I.call_fn(fn, [pinned, cx], p))
        calls = 1
        while r.variant == 1 and calls <= self.pendings:      # Pending: poll again (the refill future is in flight)
            kind, _ = self.state_view(rs)
            if kind != "reading":
                break
            r = I.run_to_end(I.call_fn(fn, [pinned, cx], p))
            calls += 1
        self.encoded |= I.called
        kind, what = self.state_view(rs)
        obs = [("after poll_next the stream still owns its reader and its buffer (a further poll cannot hit 'Inconsistent state')",
                z3.BoolVal(kind in ("idle", "reading")))]
        if kind != "idle":
            if r.variant != 1:
                obs.append(("a Ready result leaves the state machine idle", z3.BoolVal(kind == "idle")))
            return obs
        present, sl, vec = self.buf_view(what)
        obs.append(("the buffer is back in place", z3.BoolVal(present)))
        if not present:
            return obs
        unread0 = st.len - st.begin
        chunks = [(srcb, bv(0), n) for (n, room, off, srcb) in W.read_chunks]
        cur = [(vec.data, boff(sl), blen(sl, p))]
        eof1 = rs.f[1].v
        obs.append(("the buffer stays well formed", z3.And(sl.begin >= 0, sl.begin <= vec.len, vec.len <= vec.cap)))
        zero_reads = [n == 0 for (n, _r, _o, _s) in W.read_chunks]
        if r.variant == 1:
            return obs + [("Pending is returned only while a refill is in flight", z3.BoolVal(False))]
        item = r.fields[0].v
        if item.variant == 0:       # None: end of stream
            obs.append(("the stream ends only on an end-of-file read that follows an earlier one (the second EOF ends the stream)",
                        z3.And(z3.BoolVal(len(W.read_chunks) >= 1), zero_reads[-1] if zero_reads else z3.BoolVal(False),
                               z3.Or(eof0, z3.Or(*zero_reads[:-1]) if len(zero_reads) >= 2 else z3.BoolVal(False)))))
            obs += self.stream_eq("end of stream: the unread bytes are still there", cur, [(st.data, st.begin, unread0)] + chunks)
            return obs
        res = item.fields[0].v
        if res.variant == 1 and not (isinstance(res.fields[0].v, IoErr) and res.fields[0].v.origin == "codec"):
            e = res.fields[0].v
            obs.append(("an error item comes from the framer or the reader", z3.BoolVal(isinstance(e, IoErr) and e.origin in ("framer", "inner"))))
            obs += self.stream_eq("an error leaves the unread bytes as they were (plus what was read before it)", cur,
                                  [(st.data, st.begin, unread0)] + chunks)
            return obs
        # Ok(item), or the codec's own error for this frame: the extracted frame was shown to the codec and is consumed either way
        # (a frame the codec rejects must not be extracted again: the stream would repeat the error forever)
        obs.append(("an item (or the codec's error) is yielded only for a frame the framer reported, decoded exactly once", z3.BoolVal(len(W.frames) == 1 and len(W.decoded) == 1)))
        if len(W.frames) == 1 and len(W.decoded) == 1:
            pre, pay, suf, fdata, foff, favail = W.frames[0]
            ddata, doff, dlen = W.decoded[0]
            obs += self.stream_eq("the codec is shown exactly the payload bytes of the reported frame", [(ddata, doff, dlen)],
                                  [(fdata, foff + pre, pay)])
            flen = pre + pay + suf
            before = [(st.data, st.begin, unread0)] + chunks
            # unread afterwards = (previously unread ++ read chunks) minus the first flen bytes
            j = z3.Int("jf!")
            total_before = unread0
            for (_a, _o, n) in chunks:
                total_before = total_before + n
            obs.append(("exactly the frame is consumed (length)", cur[0][2] == total_before - flen))
            obs += self.stream_eq("exactly the frame is consumed: frame bytes ++ still unread = previously unread ++ newly read",
                                  [(fdata, foff, flen)] + cur, before)
        return obs

    # ------------------------------------------------------------------ the Sink side
    def sink_fn(self, meth):
        c = [f for k, f in self.fns.items() if k.startswith("framed::write::<impl") and k.endswith("::" + meth)
             and "_1: Pin<&mut framed::Framed<" in f.sig]
        if len(c) != 1:
            raise Unsupported("cannot locate <Framed as Sink>::%s (%d)" % (meth, len(c)))
        return c[0]

    def wstate_view(self, cell):
        ev = cell.v
        names = {0: "configuring", 1: "idle", 2: "writing", 3: "closing", 4: "flushing"}
        kind = names.get(ev.variant, "?")
        if kind == "idle":
            o = ev.fields[0].v
            if o.variant != 1:
                return ("lost", None)
            return ("idle", o.fields[0].v.f[1].v)
        if kind == "configuring":
            o0, o1 = ev.fields[0].v, ev.fields[1].v
            return ("configuring", o1.fields[0].v) if (o0.variant == 1 and o1.variant == 1) else ("lost", None)
        return (kind, None)

    def check_sink_send(self, p):
        """poll_ready, start_send(item), poll_flush until Ready: one frame through the Sink side"""
        W, I = self.world(p)
        ln, cap = z3.Int("len0"), z3.Int("cap0")
        data = z3.Array("data0", ISORT, z3.BitVecSort(8))
        p.assume(z3.And(ln >= 0, ln <= cap, cap <= bv(cb.MAXLEN // 2)))
        vec = GVec("wbuf", ln, cap, data)        # whatever the previous frame left behind
        io = ("writer",)
        configured = p.choose(2, "state: not yet configured / idle") == 1
        ws = EnumV(1, [Cell(some(Struct({0: Cell(io), 1: Cell(vec)})))]) if configured else EnumV(0, [Cell(some(io)), Cell(some(vec))])
        wcell = Cell(ws)
        obj = Struct({0: Cell(("read-state",)), 1: wcell, 2: Cell(("codec",)), 3: Cell(("framer",)), 4: Cell(("types",))})
        pinned = Struct({0: Cell(Ref(Cell(obj)))})
        cx = Ref(Cell(("ctx",)))
        r = I.run_to_end(I.call_fn(self.sink_fn("poll_ready"), [pinned, cx], p))
        obs = [("poll_ready on a configured or idle sink answers Ready(Ok)", z3.BoolVal(r.variant == 0 and r.fields[0].v.variant == 0))]
        if not (r.variant == 0 and r.fields[0].v.variant == 0):
            return obs
        r = I.run_to_end(I.call_fn(self.sink_fn("start_send"), [pinned, ("item",)], p))
        kind, buf = self.wstate_view(wcell)
        obs.append(("the encoder is handed an empty buffer (nothing of an earlier frame can be merged in)",
                    z3.And(*[x == 0 for x in W.encode_saw_len]) if W.encode_saw_len else z3.BoolVal(False)))
        if r.variant == 1:
            obs.append(("a failed encode leaves the sink idle with an empty buffer (the next item starts clean)",
                        z3.And(z3.BoolVal(kind == "idle"), buf.len == 0 if kind == "idle" else z3.BoolVal(False))))
            obs.append(("nothing reaches the writer after a failed encode", z3.BoolVal(not W.offered)))
            self.encoded |= I.called
            return obs
        obs.append(("start_send leaves a write in flight", z3.BoolVal(kind == "writing")))
        obs.append(("the framer encloses exactly what the encoder produced",
                    z3.BoolVal(len(W.enclose_saw) == 1 and len(W.encoded) == 1)))
        polls = 0
        while True:
            r = I.run_to_end(I.call_fn(self.sink_fn("poll_flush"), [pinned, cx], p))
            polls += 1
            if r.variant == 0 or polls > self.pendings + 2:
                break
        self.encoded |= I.called
        kind, buf = self.wstate_view(wcell)
        if r.variant == 1:
            obs.append(("Pending only while a future is in flight", z3.BoolVal(kind in ("writing", "flushing"))))
            return obs
        obs.append(("after poll_flush answered, the sink is idle and still owns its writer and buffer", z3.BoolVal(kind == "idle")))
        delivered = [(d, off, n) for (d, off, n, _) in W.delivered]
        fr, n = W.framed[0]
        res = r.fields[0].v
        if res.variant == 0:
            obs += self.stream_eq("poll_flush Ok: the writer received exactly the enclosed frame, once, in order", delivered, [(fr, bv(0), n)])
        else:
            dtotal = bv(0)
            for (_d, _o, k) in delivered:
                dtotal = dtotal + k
            obs.append(("poll_flush Err: what was written is a prefix of the frame", dtotal <= n))
            obs += self.stream_eq("poll_flush Err: what was written is a prefix of the frame (bytes)", delivered, [(fr, bv(0), dtotal)])
        return obs

    CHECKS = ["poll_next", "sink_send"]
