"""Symbolic interpreter for rustc's textual MIR (engine B).

Values
  z3 BitVec / Bool        integers, bools
  Struct(fields)          structs and tuples, fields: {index: Cell}
  EnumV(variant, fields)  enum values; variant is a python int (paths split on symbolic discriminants)
  Ref(cell)               references and raw pointers
  UNIT, ('opaque', txt)   unit / values the property does not depend on
  anything else           summary objects owned by the property script (bounded maps, queues, ...)

Execution is path-by-path: every branch on a symbolic condition asks `Path.decide`, which follows a
recorded decision vector (replay-based DFS, see explore.py) and checks feasibility with z3.
Function bodies are generators: summaries may `yield` events (visible steps) to a scheduler.
"""
import itertools
import re

import z3

from mir import parse


class Cell:
    __slots__ = ("v",)

    def __init__(self, v=None):
        self.v = v

    def __repr__(self):
        return "Cell(%r)" % (self.v,)


class Struct:
    def __init__(self, fields):
        self.f = fields

    def __repr__(self):
        return "Struct(%r)" % (self.f,)


class Closure(Struct):
    """A closure value: captured fields + the source span that identifies its body in the MIR dump."""

    def __init__(self, span, fields):
        Struct.__init__(self, fields)
        self.span = span

    def __repr__(self):
        return "Closure(%s, %r)" % (self.span, self.f)


class Ref:
    def __init__(self, cell):
        self.cell = cell

    def __repr__(self):
        return "Ref(%r)" % (self.cell,)


class EnumV:
    def __init__(self, variant, fields=()):
        self.variant = variant
        self.fields = list(fields)

    def __repr__(self):
        return "Enum(%r,%r)" % (self.variant, self.fields)


class Coroutine:
    """An async-fn state machine: upvars (`(*c).N`), per-suspension-point saved locals
    (`((*c) as variant#K).N`) and the resume state (discriminant; 0 unresumed, 1 returned, 2 panicked)."""

    def __init__(self, upvars=None, state=0):
        self.up = dict(upvars or {})
        self.saved = {}
        self.state = state

    def field_cell(self, i):
        return self.up.setdefault(i, Cell())

    def variant_cell(self, variant, i):
        # rustc may overlay the same saved local in several variants: key by field only within a variant
        return self.saved.setdefault((variant, i), Cell())

    def discriminant(self, path):
        import z3
        return z3.BitVecVal(self.state, 32)

    def __repr__(self):
        return "Coroutine(state=%d)" % self.state


UNIT = ("unit",)


class Infeasible(Exception):
    pass


class MirPanic(Exception):
    """A reachable MIR assert failure / explicit panic: reported as a violation by the explorer."""


class MirUnwind(Exception):
    """A panic that unwinds (raised by a summary, e.g. a job or a future that panics): call terminators with an
    `unwind: bbN` edge continue in their cleanup block, `resume` re-raises in the caller, `unwind terminate` /
    `unreachable` is an abort (MirPanic)."""


class Unsupported(Exception):
    """Construct the interpreter cannot express: the check is broken, not passed."""


INT_TY = {"u8": 8, "u16": 16, "u32": 32, "u64": 64, "usize": 64, "i8": 8, "i16": 16, "i32": 32,
          "i64": 64, "isize": 64, "u128": 128, "i128": 128}
SIGNED = {"i8", "i16", "i32", "i64", "isize", "i128"}

# discriminants of std enums that show up in MIR
ENUMS = {
    "Option": {"None": 0, "Some": 1},
    "Result": {"Ok": 0, "Err": 1},
    "Poll": {"Ready": 0, "Pending": 1},
    "Ordering": {"Less": -1, "Equal": 0, "Greater": 1},
    "ControlFlow": {"Continue": 0, "Break": 1},
}


def strip_generics(txt):
    """Remove every balanced `::<...>` / `<...>` group from a path (`->` inside fn types is kept balanced)."""
    out = []
    depth = 0
    i = 0
    while i < len(txt):
        ch = txt[i]
        if ch == "<":
            depth += 1
            if out[-2:] == [":", ":"] and depth == 1:
                del out[-2:]
        elif ch == ">" and not (i > 0 and txt[i - 1] == "-"):
            depth -= 1
        elif depth == 0:
            out.append(ch)
        i += 1
    return "".join(out)


def clone_val(v):
    """By-value copy of aggregates (references stay shared)."""
    if isinstance(v, Closure):
        return Closure(v.span, {k: Cell(clone_val(c.v)) for k, c in v.f.items()})
    if isinstance(v, Struct):
        return Struct({k: Cell(clone_val(c.v)) for k, c in v.f.items()})
    if isinstance(v, EnumV):
        return EnumV(v.variant, [Cell(clone_val(c.v)) for c in v.fields])
    return v


class Path:
    def __init__(self, decisions, seed=0):
        self.decisions = list(decisions)
        self.pos = 0
        self.solver = z3.Solver()
        if seed:
            self.solver.set("random_seed", seed % 1000)
        self.trace = []
        self.queries = 0
        self.solver_s = 0.0
        self.notes = []

    def assume(self, cond):
        self.solver.add(cond)

    def decide(self, cond):
        """Branch on a z3 Bool following the decision vector; infeasible branches abort the path."""
        if isinstance(cond, bool):
            return cond
        cond = z3.simplify(cond)
        if z3.is_true(cond):
            return True
        if z3.is_false(cond):
            return False
        if self.pos < len(self.decisions):
            d = self.decisions[self.pos]
        else:
            d = True
            self.decisions.append(True)
        self.pos += 1
        c = cond if d else z3.Not(cond)
        self.solver.add(c)
        self.queries += 1
        import time as _t
        t0 = _t.time()
        r = self.solver.check()
        self.solver_s += _t.time() - t0
        if r == z3.unknown:
            raise Unsupported("solver returned unknown on a path condition")
        if r != z3.sat:
            raise Infeasible()
        return d

    def choose(self, n, label=""):
        """Finite non-symbolic choice (scheduler, summary nondeterminism)."""
        if n <= 1:
            return 0
        if self.pos < len(self.decisions):
            d = self.decisions[self.pos]
        else:
            d = ("c", 0, n)
            self.decisions.append(d)
        self.pos += 1
        assert isinstance(d, tuple) and d[0] == "c", d
        self.trace.append((label, d[1]))
        return d[1]


class Interp:
    def __init__(self, fns, consts, summaries, resolver=None, enums=None, max_steps=4000):
        self.fns = fns
        self.consts = consts
        self.summ = [(re.compile(p), f) for p, f in summaries]
        self.fresh = itertools.count()
        self.const_cache = {}
        self.resolver = resolver
        self.enums = dict(ENUMS)
        if enums:
            self.enums.update(enums)
        self.max_steps = max_steps
        self.called = set()

    # ------------------------------------------------------------------ helpers
    def sym(self, name, bits):
        return z3.BitVec("%s!%d" % (name, next(self.fresh)), bits)

    @staticmethod
    def balanced(s):
        d = 0
        for ch in s:
            if ch == "(":
                d += 1
            elif ch == ")":
                d -= 1
                if d < 0:
                    return False
        return d == 0

    @staticmethod
    def split_top(s):
        out, d, cur = [], 0, ""
        i = 0
        while i < len(s):
            ch = s[i]
            if ch in "(<[{":
                d += 1
            elif ch in ")]}":
                d -= 1
            elif ch == ">" and i > 0 and s[i - 1] != "-":
                d -= 1
            if ch == "," and d == 0:
                out.append(cur.strip())
                cur = ""
            else:
                cur += ch
            i += 1
        if cur.strip():
            out.append(cur.strip())
        return out

    # ------------------------------------------------------------------ places
    def place_cell(self, fr, s):
        s = s.strip()
        if re.match(r"^_\d+$", s):
            return fr.setdefault(s, Cell())
        mi = re.match(r"^(.+)\[(_\d+)\]$", s)
        if mi and self.balanced(mi.group(1)):
            # array element with a runtime index (the bounds check is a separate MIR assert): the index must be concrete here
            arr = self.place_cell(fr, mi.group(1)).v
            iv = fr.get(mi.group(2)).v if fr.get(mi.group(2)) is not None else None
            iv = z3.simplify(iv) if z3.is_expr(iv) else iv
            if z3.is_expr(iv) and (z3.is_bv_value(iv) or z3.is_int_value(iv)):
                k = iv.as_long()
            else:
                raise Unsupported("array index %s is not concrete: %r" % (mi.group(2), iv))
            if isinstance(arr, Struct) and k in arr.f:
                return arr.f[k]
            raise MirPanic("index out of bounds: %s[%d]" % (mi.group(1), k))
        if s.startswith("(*") and s.endswith(")") and self.balanced(s[2:-1]):
            inner = self.place_cell(fr, s[2:-1])
            r = inner.v
            if not isinstance(r, Ref):
                raise Unsupported("deref of non-reference %s: %r" % (s, r))
            return r.cell
        if s.startswith("(") and s.endswith(")"):
            body = s[1:-1]
            depth, idx = 0, None
            for i, ch in enumerate(body):
                if ch in "(<[":
                    depth += 1
                elif ch in ")]" or (ch == ">" and body[i - 1] != "-"):
                    depth -= 1
                elif ch == ":" and depth == 0 and body[i:i + 2] == ": " and idx is None:
                    idx = i
            if idx is None:
                # downcast without projection: (_5 as Some)
                mm = re.match(r"^(.+) as ([\w#]+)$", body)
                if mm:
                    return self.place_cell(fr, mm.group(1))
                raise Unsupported("place? " + s)
            base_field = body[:idx]
            j = base_field.rfind(".")
            base, fld = base_field[:j], base_field[j + 1:]
            mm = re.match(r"^\((.+) as ([\w#]+)\)$", base)
            if mm:
                c = self.place_cell(fr, mm.group(1))
                ev = c.v
                if isinstance(ev, Coroutine) or (hasattr(ev, "variant_cell") and not isinstance(ev, EnumV)):
                    return ev.variant_cell(mm.group(2), int(fld))
                if not isinstance(ev, EnumV):
                    raise Unsupported("downcast of non-enum %s: %r" % (s, ev))
                while len(ev.fields) <= int(fld):
                    ev.fields.append(Cell())
                return ev.fields[int(fld)]
            c = self.place_cell(fr, base)
            st = c.v
            if isinstance(st, Struct):
                return st.f.setdefault(int(fld), Cell())
            if st is None:
                st = Struct({})
                c.v = st
                return st.f.setdefault(int(fld), Cell())
            if hasattr(st, "field_cell"):
                return st.field_cell(int(fld))
            raise Unsupported("field of non-struct %s: %r" % (s, st))
        raise Unsupported("place? " + s)

    # ------------------------------------------------------------------ constants / operands
    def const(self, txt, path):
        txt = txt.strip()
        m = re.match(r"^(-?\d+)_(\w+)$", txt)
        if m and m.group(2) in INT_TY:
            if self.int_mode and m.group(2) in self.int_types:
                return z3.IntVal(int(m.group(1)))
            return z3.BitVecVal(int(m.group(1)), INT_TY[m.group(2)])
        if txt == "true":
            return z3.BoolVal(True)
        if txt == "false":
            return z3.BoolVal(False)
        m = re.match(r"^ZeroSized: \{closure@([^}]*)\}$", txt)
        if m:
            return Closure(m.group(1), {})
        if txt == "()" or txt.startswith("ZeroSized"):
            return UNIT
        if txt.startswith('"') or txt.startswith("b\""):
            return ("opaque", txt)
        ev = self.enum_variant(txt)
        if ev is not None:
            return EnumV(ev[1])
        key = txt
        if key in self.const_cache:
            return self.const_cache[key]
        last = txt.split("::")[-1]
        for cand in (txt, last):
            c = self.consts.get(cand)
            if c is not None:
                v = self.const(c[1], path)
                self.const_cache[key] = v
                return v
            f = self.fns.get("const " + cand)
            if f is not None:
                try:
                    v = self.run_to_end(self.call_fn(f, [], path))
                except (Infeasible, MirPanic):
                    raise
                except Exception:
                    v = ("opaque", txt)      # a const whose initialiser is beyond the interpreter: only passed around
                self.const_cache[key] = v
                return v
        # associated consts: `const <impl at file:span>::NAME: T = { body }` referenced as `Type::NAME`
        cands = [f for n, f in self.fns.items() if n.startswith("const ") and n.endswith("::" + last)]
        if len(cands) == 1:
            try:
                v = self.run_to_end(self.call_fn(cands[0], [], path))
            except Exception:
                v = ("opaque", txt)      # e.g. bitflags constants: only passed around, never inspected
            self.const_cache[key] = v
            return v
        m = re.match(r"^(?:[\w:]*::)?(?:<impl )?(\w+)>?::MAX$", txt) or re.match(r"^(\w+)::MAX$", txt)
        if m and m.group(1) in INT_TY:
            t = m.group(1)
            bits = INT_TY[t]
            return z3.BitVecVal(2 ** (bits - 1) - 1 if t in SIGNED else 2 ** bits - 1, bits)
        return ("opaque", txt)

    def operand(self, fr, s, path):
        s = s.strip()
        if s.startswith("no_retag "):
            s = s[len("no_retag "):]
        if s.startswith("copy "):
            return clone_val(self.place_cell(fr, s[5:]).v)
        if s.startswith("move "):
            return self.place_cell(fr, s[5:]).v
        if s.startswith("const "):
            g = fr.get("__gconsts__")
            if g and s[6:].strip() in g:
                return g[s[6:].strip()]
            mp = re.search(r"::(promoted\[\d+\])$", s)
            if mp and fr.get("__fn__"):
                # a promoted constant belongs to the function being executed: `const <fn name>::promoted[i]`
                f = self.fns.get("const %s::%s" % (fr["__fn__"], mp.group(1)))
                if f is not None:
                    key = f.name
                    if key not in self.const_cache:
                        try:
                            self.const_cache[key] = self.run_to_end(self.call_fn(f, [], path))
                        except (Infeasible, MirPanic):
                            raise
                        except Exception:
                            self.const_cache[key] = ("opaque", s[6:])
                    return self.const_cache[key]
            return self.const(s[6:], path)
        if "::" in s and not s.startswith(("_", "(")) and re.fullmatch(r"[\w<>:, &\[\]()'*+{}@./#-]+", s):
            return ("opaque", s)          # a function item passed as a value (e.g. `Option::<T>::take` to filter_map)
        raise Unsupported("operand? " + s)

    # ------------------------------------------------------------------ rvalues
    def cast_int(self, v, ty, signed_src=False):
        w = INT_TY[ty]
        if isinstance(v, tuple):
            return v        # opaque constant (e.g. libc::POLLIN): stays opaque
        if z3.is_int(v):
            if ty in ("usize", "u64"):
                return v
            raise Unsupported("cast of an Int-mode usize to " + ty)
        if z3.is_bool(v):
            v = z3.If(v, z3.BitVecVal(1, w), z3.BitVecVal(0, w))
            return v
        if w > v.size():
            return z3.SignExt(w - v.size(), v) if signed_src else z3.ZeroExt(w - v.size(), v)
        if w < v.size():
            return z3.Extract(w - 1, 0, v)
        return v

    def binop(self, op, a, b, lhs_ty=None):
        if z3.is_bool(a):
            table = {"BitOr": z3.Or, "BitAnd": z3.And, "BitXor": z3.Xor,
                     "Eq": lambda x, y: x == y, "Ne": lambda x, y: x != y}
            if op in table:
                return table[op](a, b)
            raise Unsupported("bool binop " + op)
        if z3.is_int(a) or z3.is_int(b):
            return self.binop_int(op, a, b)
        signed = lhs_ty in SIGNED
        if op == "Rem" and not signed and self.rem_hook is not None:
            r = self.rem_hook(a, b)
            if r is not None:
                return r
        if op in ("Shl", "Shr", "ShlUnchecked", "ShrUnchecked"):
            if b.size() != a.size():
                b = z3.ZeroExt(a.size() - b.size(), b) if b.size() < a.size() else z3.Extract(a.size() - 1, 0, b)
            if op.startswith("Shl"):
                return a << b
            return (a >> b) if signed else z3.LShR(a, b)
        table = {
            "BitAnd": lambda x, y: x & y, "BitOr": lambda x, y: x | y, "BitXor": lambda x, y: x ^ y,
            "Add": lambda x, y: x + y, "Sub": lambda x, y: x - y, "Mul": lambda x, y: x * y,
            "AddUnchecked": lambda x, y: x + y, "SubUnchecked": lambda x, y: x - y,
            "Eq": lambda x, y: x == y, "Ne": lambda x, y: x != y,
            "Lt": (lambda x, y: x < y) if signed else z3.ULT, "Le": (lambda x, y: x <= y) if signed else z3.ULE,
            "Gt": (lambda x, y: x > y) if signed else z3.UGT, "Ge": (lambda x, y: x >= y) if signed else z3.UGE,
            "Div": (lambda x, y: x / y) if signed else z3.UDiv, "Rem": z3.SRem if signed else z3.URem,
        }
        if op in table:
            return table[op](a, b)
        raise Unsupported("binop " + op)

    # usize as mathematical integers that keep the mod-2^64 semantics (int_mode): additions / subtractions wrap through an
    # explicit If, so the encoding is exact for values in [0, 2^64) while the solver reasons in linear arithmetic
    int_mode = False
    int_types = ("usize",)       # integer types represented as mathematical integers in int_mode (all 64-bit unsigned)
    WORD = 1 << 64

    @classmethod
    def wrap_int(cls, x):
        return z3.If(x >= cls.WORD, x - cls.WORD, z3.If(x < 0, x + cls.WORD, x))

    def binop_int(self, op, a, b):
        if not (z3.is_int(a) and z3.is_int(b)):
            raise Unsupported("mixed Int/BitVec operands of %s" % op)
        if op in ("Add", "AddUnchecked"):
            return self.wrap_int(a + b)
        if op in ("Sub", "SubUnchecked"):
            return self.wrap_int(a - b)
        if op == "Mul":
            return (a * b) % self.WORD
        if op == "Div":
            return a / b
        if op == "Rem":
            return a % b
        table = {"Eq": lambda x, y: x == y, "Ne": lambda x, y: x != y, "Lt": lambda x, y: x < y, "Le": lambda x, y: x <= y,
                 "Gt": lambda x, y: x > y, "Ge": lambda x, y: x >= y}
        if op in table:
            return table[op](a, b)
        raise Unsupported("Int binop " + op)

    def enum_variant(self, path_txt):
        """`Option::<T>::Some` / `std::task::Poll::<()>::Pending` -> (enum name, variant index)."""
        clean = strip_generics(path_txt)
        parts = clean.split("::")
        if len(parts) >= 2 and parts[-2] in self.enums and parts[-1] in self.enums[parts[-2]]:
            return parts[-2], self.enums[parts[-2]][parts[-1]]
        return None

    def rvalue(self, fr, rhs, path, lhs_ty=None):
        rhs = rhs.strip()
        m = re.match(r"^(\w+)\((.+)\)$", rhs)
        if m and (m.group(1) in ("BitAnd", "BitOr", "BitXor", "Add", "Sub", "Mul", "Shl", "Shr", "Eq", "Ne",
                                 "Lt", "Le", "Gt", "Ge", "Div", "Rem", "AddUnchecked", "SubUnchecked",
                                 "ShlUnchecked", "ShrUnchecked", "Offset")):
            parts = self.split_top(m.group(2))
            a = self.operand(fr, parts[0], path)
            b = self.operand(fr, parts[1], path)
            ty = fr.get("__types__", {}).get("__opnd__")
            return self.binop(m.group(1), a, b, self.operand_type(fr, parts[0]))
        m = re.match(r"^(Add|Sub|Mul)WithOverflow\((.+)\)$", rhs)
        if m:
            parts = self.split_top(m.group(2))
            a = self.operand(fr, parts[0], path)
            b = self.operand(fr, parts[1], path)
            op = m.group(1)
            if z3.is_int(a) or z3.is_int(b):
                if not (z3.is_int(a) and z3.is_int(b)):
                    raise Unsupported("mixed Int/BitVec operands of %sWithOverflow" % op)
                exact = a + b if op == "Add" else (a - b if op == "Sub" else a * b)
                r = self.wrap_int(exact) if op != "Mul" else exact % self.WORD
                return Struct({0: Cell(r), 1: Cell(z3.Or(exact >= self.WORD, exact < 0))})
            w = a.size()
            signed = self.operand_type(fr, parts[0]) in SIGNED
            if op == "Add":
                r = a + b
                ovf = z3.Not(z3.BVAddNoOverflow(a, b, signed)) if not signed else z3.Or(
                    z3.Not(z3.BVAddNoOverflow(a, b, True)), z3.Not(z3.BVAddNoUnderflow(a, b)))
            elif op == "Sub":
                r = a - b
                ovf = z3.Not(z3.BVSubNoUnderflow(a, b, signed)) if not signed else z3.Or(
                    z3.Not(z3.BVSubNoOverflow(a, b)), z3.Not(z3.BVSubNoUnderflow(a, b, True)))
            else:
                r = a * b
                ovf = z3.Not(z3.BVMulNoOverflow(a, b, signed))
            return Struct({0: Cell(r), 1: Cell(ovf)})
        m = re.match(r"^PtrMetadata\((.+)\)$", rhs)
        if m:
            v = self.operand(fr, m.group(1), path)
            while isinstance(v, Ref) and not hasattr(v, "ptr_metadata"):
                v = v.cell.v
            if hasattr(v, "ptr_metadata"):
                return v.ptr_metadata()
            raise Unsupported("PtrMetadata of %r" % (v,))
        m = re.match(r"^(Not|Neg)\((.+)\)$", rhs)
        if m:
            a = self.operand(fr, m.group(2), path)
            if m.group(1) == "Neg":
                return -a
            return z3.Not(a) if z3.is_bool(a) else ~a
        m = re.match(r"^&(?:mut |raw const |raw mut )?(.+)$", rhs)
        if m and not rhs.startswith("&&"):
            return Ref(self.place_cell(fr, m.group(1)))
        m = re.match(r"^discriminant\((.+)\)$", rhs)
        if m:
            ev = self.place_cell(fr, m.group(1)).v
            if isinstance(ev, EnumV):
                return z3.BitVecVal(ev.variant, 64)
            if hasattr(ev, "discriminant"):
                return ev.discriminant(path)
            raise Unsupported("discriminant of %r" % (ev,))
        m = re.match(r"^(copy|move) (.+?) as (.+) \((\w+)(?:\(.*\))?\)$", rhs)
        if m:
            v = self.operand(fr, m.group(1) + " " + m.group(2), path)
            ty = m.group(3).strip()
            kind = m.group(4)
            if kind in ("IntToInt",) and ty in INT_TY:
                return self.cast_int(v, ty, self.operand_type(fr, m.group(1) + " " + m.group(2)) in SIGNED)
            if ty in INT_TY and z3.is_bool(v):
                return self.cast_int(v, ty)
            return v
        m = re.match(r"^const (.+) as (\w+) \(IntToInt\)$", rhs)
        if m:
            return self.cast_int(self.const(m.group(1), path), m.group(2))
        if rhs.startswith(("copy ", "move ", "const ", "no_retag ")):
            return self.operand(fr, rhs, path)
        # tuples
        if rhs.startswith("(") and rhs.endswith(")") and self.balanced(rhs[1:-1]):
            parts = self.split_top(rhs[1:-1])
            return Struct({i: Cell(self.operand(fr, p, path)) for i, p in enumerate(parts)})
        # arrays
        if rhs.startswith("[") and rhs.endswith("]"):
            parts = self.split_top(rhs[1:-1])
            return Struct({i: Cell(self.operand(fr, p, path)) for i, p in enumerate(parts)})
        m = re.match(r"^std::sync::atomic::Ordering::(\w+)$", rhs) or re.match(r"^(?:core|std)::sync::atomic::Ordering::(\w+)$", rhs)
        if m:
            return ("ordering", m.group(1))
        # enum variant with payload / unit variant
        if rhs.endswith(")") and not rhs.startswith("("):
            try:
                head, argtxt = self.split_call(rhs)
            except Unsupported:
                head, argtxt = None, None
            if head:
                ev = self.enum_variant(head)
                if ev is not None:
                    args = self.split_top(argtxt) if argtxt.strip() else []
                    return EnumV(ev[1], [Cell(self.operand(fr, a, path)) for a in args])
        ev = self.enum_variant(rhs)
        if ev is not None:
            return EnumV(ev[1])
        # coroutine aggregate (an `async fn` call): {coroutine@file:span (#0)} { upvar: op, ... }
        m = re.match(r"^\{coroutine@([^}]*)\} \{ (.*) \}$", rhs) or re.match(r"^\{coroutine@([^}]*)\}$", rhs)
        if m:
            co = Coroutine({})
            co.span = m.group(1).split(" (#")[0]
            if m.lastindex and m.lastindex >= 2:
                for i, part in enumerate(self.split_top(m.group(2))):
                    co.up[i] = Cell(self.operand(fr, part.split(": ", 1)[1], path))
            return co
        m = re.match(r"^\{closure@([^}]*)\}$", rhs)
        if m:
            return Closure(m.group(1), {})
        # closure aggregate: {closure@file:span} { capture: op, ... }
        m = re.match(r"^\{closure@([^}]*)\} \{ (.*) \}$", rhs)
        if m:
            fields = {}
            for i, part in enumerate(self.split_top(m.group(2))):
                fields[i] = Cell(self.operand(fr, part.split(": ", 1)[1], path))
            return Closure(m.group(1), fields)
        # struct aggregate: Name { a: op, b: op }
        m = re.match(r"^([\w:<>, &'()\[\]]+?) \{ (.*) \}$", rhs)
        if m:
            fields = {}
            for i, part in enumerate(self.split_top(m.group(2))):
                fields[i] = Cell(self.operand(fr, part.split(": ", 1)[1], path))
            ev = self.enum_variant(m.group(1))
            if ev is not None:
                return EnumV(ev[1], [fields[i] for i in sorted(fields)])      # struct-like enum variant
            return Struct(fields)
        # tuple struct ctor: Snapshot(move _4)
        m = re.match(r"^([\w:<>]+)\((.*)\)$", rhs)
        if m and self.balanced(m.group(2)):
            parts = self.split_top(m.group(2)) if m.group(2).strip() else []
            return Struct({i: Cell(self.operand(fr, p, path)) for i, p in enumerate(parts)})
        if re.match(r"^[A-Z]\w*$", rhs) or re.match(r"^[\w:]+::[A-Z]\w*$", rhs):
            return ("variant", rhs)        # unit variant of an enum the property does not inspect
        # tuple-struct / tuple-variant constructor as an aggregate: Name::<T, U>(op, op)   (calls are terminators, not rvalues)
        m = re.match(r"^([A-Za-z_][\w:]*)(?:::<.*>)?\((.*)\)$", rhs)
        if m and not rhs.startswith(("copy ", "move ", "const ")):
            argtxt = self.split_call(rhs)[1]          # the last balanced (...) group: generic arguments may contain `()`
            parts = self.split_top(argtxt) if argtxt.strip() else []
            return Struct({i: Cell(self.operand(fr, part, path)) for i, part in enumerate(parts)})
        raise Unsupported("rvalue? " + rhs)

    def operand_type(self, fr, s):
        s = s.strip()
        m = re.match(r"^(?:copy|move) (_\d+)$", s)
        tys = fr.get("__types__")
        if m and tys is not None:
            return tys.get(m.group(1))
        m = re.match(r"^const -?\d+_(\w+)$", s)
        if m:
            return m.group(1)
        return None

    # ------------------------------------------------------------------ execution
    @staticmethod
    def run_to_end(gen):
        try:
            while True:
                next(gen)
        except StopIteration as e:
            return e.value

    def generic_consts(self, fn, callee):
        """Bind const generic parameters of an un-monomorphised MIR body (`const SET`) to the literal generic
        arguments of the call (`set_has_result::<Strong, false>`), positionally."""
        m = re.search(r"::<([^<>]*(?:<[^<>]*>[^<>]*)*)>$", callee)
        if not m:
            return None
        lits = [a.strip() for a in self.split_top(m.group(1)) if re.fullmatch(r"true|false|-?\d+(?:_\w+)?", a.strip())]
        if not lits:
            return None
        names = []
        for stmts in fn.blocks.values():
            for st in stmts:
                for mm in re.finditer(r"\bconst ([A-Z][A-Z0-9_]*)\b(?!::)", st):
                    n = mm.group(1)
                    if n not in names and n not in self.consts and ("const " + n) not in self.fns:
                        names.append(n)
        if len(names) != len(lits):
            return None
        out = {}
        for n, l in zip(names, lits):
            out[n] = z3.BoolVal(l == "true") if l in ("true", "false") else z3.BitVecVal(int(l.split("_")[0]), 64)
        return out

    def call_fn(self, fn, args, path, depth=0, gconsts=None, start="bb0", init=None, stop=()):
        """start / init / stop: execute a slice of the body — from block `start`, with the locals in `init` set, until control reaches
        a block in `stop` (returns ("stopped-at", bb))"""
        self.called.add(fn.name)
        fr = {"__types__": fn.locals, "__fn__": fn.name}
        if gconsts:
            fr["__gconsts__"] = gconsts
        for a, v in zip(fn.args, args):
            fr[a] = Cell(v)
        for a, v in (init or {}).items():
            fr[a] = Cell(v)
        bb = start
        steps = 0
        while True:
            steps += 1
            if steps > self.max_steps:
                raise Unsupported("step bound exceeded in " + fn.name)
            stmts = fn.blocks[bb]
            try:
                for st in stmts[:-1]:
                    self.stmt(fr, st, path)
                nxt = yield from self.term(fr, stmts[-1], path, depth, fn)
            except (Infeasible, MirPanic, MirUnwind, GeneratorExit):
                raise
            except Exception as e:
                if not hasattr(e, "mir_where"):
                    e.mir_where = "%s %s" % (fn.name, bb)      # innermost MIR location, for diagnostics
                raise
            if nxt is None:
                c = fr.get("_0")
                return c.v if c is not None and c.v is not None else UNIT
            if nxt in stop:
                return ("stopped-at", nxt)
            bb = nxt

    def stmt(self, fr, st, path):
        st = st.rstrip(";")
        if st.startswith(("StorageLive", "StorageDead", "nop", "FakeRead", "PlaceMention", "Retag",
                          "AscribeUserType", "Coverage", "ConstEvalCounter", "//")):
            return
        if st.startswith("assume("):
            return
        m = re.match(r"^discriminant\((.+)\) = (\d+)$", st)
        if m:
            c = self.place_cell(fr, m.group(1))
            if isinstance(c.v, Coroutine):
                c.v.state = int(m.group(2))
            elif isinstance(c.v, EnumV):
                c.v.variant = int(m.group(2))
            else:
                c.v = EnumV(int(m.group(2)))
            return
        lhs, rhs = self.split_assign(st)
        lty = None
        mm = re.match(r"^(_\d+)$", lhs.strip())
        if mm:
            lty = fr["__types__"].get(mm.group(1))
        v = self.rvalue(fr, rhs, path, lty)
        self.place_cell(fr, lhs).v = v

    @staticmethod
    def split_assign(st):
        """`place = rvalue`: the first " = " outside brackets (types may contain `Output = T`)"""
        depth = 0
        for i, ch in enumerate(st):
            if ch in "(<[{":
                depth += 1
            elif ch in ")]}" or (ch == ">" and st[i - 1] != "-"):
                depth -= 1
            elif ch == " " and depth == 0 and st[i:i + 3] == " = ":
                return st[:i], st[i + 3:]
        return st.split(" = ", 1)

    def term(self, fr, t, path, depth, fn):
        t = t.rstrip(";")
        if False:
            yield
        if t == "return":
            return None
        m = re.match(r"^goto -> (bb\d+)$", t)
        if m:
            return m.group(1)
        if t == "unreachable":
            raise Infeasible()
        if t.startswith("resume"):
            raise MirUnwind("unwinding out of " + fn.name)
        if t.startswith("abort") or t.startswith("terminate"):
            raise MirPanic("abort: unwinding terminator reached in " + fn.name)
        m = re.match(r"^switchInt\((.+)\) -> \[(.+)\]$", t)
        if m:
            v = self.operand(fr, m.group(1), path)
            arms = [a.strip() for a in m.group(2).split(",")]
            other = None
            for a in arms:
                k, b = a.split(": ")
                if k == "otherwise":
                    other = b
                    continue
                kv = int(k)
                if z3.is_bool(v):
                    cond = v if kv != 0 else z3.Not(v)
                elif z3.is_int(v):
                    cond = v == z3.IntVal(kv)
                else:
                    cond = v == z3.BitVecVal(kv, v.size())
                if path.decide(cond):
                    return b
            if other is None:
                raise Infeasible()
            return other
        m = re.match(r"^drop\((.+)\) -> \[return: (bb\d+).*\]$", t)
        if m:
            v = self.place_cell(fr, m.group(1)).v
            if hasattr(v, "on_drop"):
                r = v.on_drop(self, path)
                if hasattr(r, "__next__"):
                    yield from r
            elif self.drop_hook is not None:
                try:
                    r = self.drop_hook(self, v, path, fr["__types__"].get(m.group(1).strip()))
                    if hasattr(r, "__next__"):
                        yield from r
                except MirUnwind:
                    mu = re.search(r"unwind: (bb\d+)", t)
                    if mu:
                        return mu.group(1)
                    if "unwind continue" in t:
                        raise
                    raise MirPanic("panic in drop glue cannot unwind out of %s (abort)" % fn.name)
            return m.group(2)
        m = re.match(r"^assert\((!?)(.+?), (.*)\) -> \[success: (bb\d+).*\]$", t)
        if m:
            v = self.operand(fr, m.group(2), path)
            if m.group(1) == "!":
                v = z3.Not(v)
            if not path.decide(v):
                raise MirPanic("MIR assert fails in %s: %s" % (fn.name, m.group(3)[:80]))
            return m.group(4)
        m = re.match(r"^(.+?) = (.+) -> \[return: (bb\d+).*\]$", t)
        if m and m.group(2).endswith(")"):
            dest, calltxt, ret = m.groups()
            callee, argtxt = self.split_call(calltxt)
            args = [self.operand(fr, a, path) for a in self.split_top(argtxt)] if argtxt.strip() else []
            fr["__dest_ty__"] = fr["__types__"].get(dest.strip()) if fr.get("__types__") else None
            try:
                v = yield from self.call(callee.strip(), args, path, depth, fr)
            except MirUnwind:
                mu = re.search(r"unwind: (bb\d+)", t)
                if mu:
                    return mu.group(1)
                if "unwind continue" in t:
                    raise
                raise MirPanic("panic cannot unwind out of %s (abort)" % fn.name)
            self.place_cell(fr, dest).v = v
            return ret
        m = re.match(r"^(.+?) = (.+\)) -> (bb\d+)$", t)
        if m:
            callee, argtxt = self.split_call(m.group(2))
            args = [self.operand(fr, a, path) for a in self.split_top(argtxt)] if argtxt.strip() else []
            for pat, f in self.summ:
                if pat.search(callee.strip()):
                    r = f(self, args, path, callee.strip())
                    if hasattr(r, "__next__"):
                        yield from r
                    break
            raise MirPanic("diverging call %s in %s" % (callee.strip(), fn.name))
        m = re.match(r"^(.+?) = (.+?)\((.*)\) -> unwind .*$", t)
        if m:
            # diverging call (panic!)
            callee = m.group(2).strip()
            raise MirPanic("diverging call %s in %s" % (callee, fn.name))
        m = re.match(r"^(.+?)\((.*)\) -> unwind .*$", t)
        if m:
            raise MirPanic("diverging call %s in %s" % (m.group(1), fn.name))
        raise Unsupported("terminator? " + t)

    drop_hook = None
    fallback = None      # optional: called for callees without summary or body (uninterpreted-function treatment)
    rem_hook = None      # optional abstraction of unsigned Rem (see c09_timers.check_interval_tick)

    def closure_fn(self, clo):
        span = clo.span
        for f in self.fns.values():
            m = re.search(r"_1: (&(?:mut )?)?\{closure@" + re.escape(span) + r"\}", f.sig)
            if m:
                return f, m.group(1)
        raise Unsupported("closure body for %s not in the MIR dump" % span)

    def call_closure(self, clo, args, path, depth=0):
        """Call a closure value with already-unpacked arguments."""
        if isinstance(clo, Ref):
            clo = clo.cell.v
        if not isinstance(clo, Closure):
            raise Unsupported("call of a non-closure value %r" % (clo,))
        f, by_ref = self.closure_fn(clo)
        self_arg = Ref(Cell(clo)) if by_ref else clo
        return (yield from self.call_fn(f, [self_arg] + list(args), path, depth + 1))

    def builtin(self, callee, args, path):
        """Generic std plumbing that needs closure binding; returns a generator or NotImplemented."""
        m = re.search(r" as Fn(?:Once|Mut)?<\(.*\)>>::call(?:_once|_mut)?$", callee)
        if m:
            tup = args[1]
            unpacked = [tup.f[i].v for i in sorted(tup.f)] if isinstance(tup, Struct) else ([] if tup is UNIT else [tup])
            return self.call_closure(args[0], unpacked, path)
        if re.match(r"^Option::<.*>::map::<", callee):
            def g():
                ev = args[0]
                if ev.variant == 0:
                    return EnumV(0)
                r = yield from self.call_closure(args[1], [ev.fields[0].v], path)
                return EnumV(1, [Cell(r)])
            return g()
        if re.match(r"^Option::<.*>::get_or_insert_with::<", callee):
            def g():
                cell = args[0].cell
                if cell.v.variant == 0:
                    r = yield from self.call_closure(args[1], [], path)
                    cell.v = EnumV(1, [Cell(r)])
                return Ref(cell.v.fields[0])
            return g()
        if re.match(r"^Option::<.*>::(?:ok_or_else|unwrap_or_else)::<", callee):
            def g():
                ev = args[0]
                if ev.variant == 1:
                    return EnumV(0, [ev.fields[0]]) if "ok_or_else" in callee else ev.fields[0].v
                r = yield from self.call_closure(args[1], [], path)
                return EnumV(1, [Cell(r)]) if "ok_or_else" in callee else r
            return g()
        if re.match(r"^<(?:std::ops::)?Range<\w+> as IntoIterator>::into_iter$", callee):
            def g2():
                return args[0]
                yield
            return g2()
        if re.match(r"^<(?:std::ops::)?Range<\w+> as Iterator>::next$", callee):
            def g3():
                r = args[0].cell.v
                lo, hi = r.f[0].v, r.f[1].v
                if path.decide(z3.ULT(lo, hi)):
                    r.f[0].v = lo + z3.BitVecVal(1, lo.size())
                    return EnumV(1, [Cell(lo)])
                return EnumV(0)
                yield
            return g3()
        if re.search(r"(?:^|::)Poll::<.*>::map::<", callee):
            def g5():
                ev = args[0]
                if ev.variant != 0:
                    return EnumV(1)
                f = args[1]
                v = ev.fields[0].v if ev.fields else UNIT
                if isinstance(f, tuple) and f[0] == "opaque":
                    ctor = re.search(r"(Ok|Err|Some)\b[^:]*$", f[1])
                    if not ctor:
                        raise Unsupported("Poll::map with " + f[1])
                    r = EnumV({"Ok": 0, "Err": 1, "Some": 1}[ctor.group(1)], [Cell(v)])
                else:
                    r = yield from self.call_closure(f, [v], path)
                return EnumV(0, [Cell(r)])
            return g5()
        m = re.search(r"(?:^|::)Poll::<.*>::(is_ready|is_pending)$", callee)
        if m:
            def g4():
                ev = args[0].cell.v if isinstance(args[0], Ref) else args[0]
                return z3.BoolVal((ev.variant == 0) == (m.group(1) == "is_ready"))
                yield
            return g4()
        m = re.match(r"^(Option|Result)::<.*>::(is_some|is_none|is_ok|is_err)$", callee)
        if m:
            def g1():
                ev = args[0].cell.v if isinstance(args[0], Ref) else args[0]
                want = {"is_some": 1, "is_none": 0, "is_ok": 0, "is_err": 1}[m.group(2)]
                return z3.BoolVal(ev.variant == want)
                yield
            return g1()
        if re.search(r"(?:^|::|<impl )bool>?::then_some::<", callee):
            def g0():
                return EnumV(1, [Cell(args[1])]) if path.decide(args[0]) else EnumV(0)
                yield
            return g0()
        if re.match(r"^Option::<.*>::is_some_and::<", callee):
            def g():
                ev = args[0]
                if ev.variant == 0:
                    return z3.BoolVal(False)
                return (yield from self.call_closure(args[1], [ev.fields[0].v], path))
            return g()
        return NotImplemented

    @staticmethod
    def split_call(txt):
        """`path::<generics>(args)` -> (callee, args): the argument list is the last balanced (...) group."""
        assert txt.endswith(")")
        depth = 0
        for i in range(len(txt) - 1, -1, -1):
            ch = txt[i]
            if ch == ")":
                depth += 1
            elif ch == "(":
                depth -= 1
                if depth == 0:
                    return txt[:i], txt[i + 1:-1]
        raise Unsupported("call? " + txt)

    def call(self, callee, args, path, depth, fr=None):
        # indirect call through a local (fn pointer / vtable entry)
        if re.match(r"^(?:move|copy) ", callee):
            target = self.operand(fr, callee, path)
            if callable(target):
                r = target(self, args, path, callee)
                if hasattr(r, "__next__"):
                    r = yield from r
                return r
            raise Unsupported("indirect call through %r" % (target,))
        for pat, f in self.summ:
            if pat.search(callee):
                r = f(self, args, path, callee)
                if hasattr(r, "__next__"):
                    r = yield from r
                return r
        b = self.builtin(callee, args, path)
        if b is not NotImplemented:
            return (yield from b)
        fn = self.resolve(callee)
        if fn is None:
            if self.fallback is not None:
                r = self.fallback(self, callee, args, path, fr)
                if hasattr(r, "__next__"):
                    r = yield from r
                return r
            raise Unsupported("no summary/body for " + callee)
        return (yield from self.call_fn(fn, args, path, depth + 1, self.generic_consts(fn, callee)))

    def resolve(self, callee):
        if self.resolver is not None:
            f = self.resolver(callee)
            if f is not None:
                return f
        if callee in self.fns:
            return self.fns[callee]
        meth = callee.split("::")[-1]
        cands = [f for n, f in self.fns.items() if n.endswith("::" + meth) or n == meth]
        if len(cands) == 1:
            return cands[0]
        return None


def load(path):
    fns = parse(path)
    consts = {}
    for line in open(path):
        m = re.match(r"^const ([\w:<>]+): (\w+) = const (.+);$", line.rstrip())
        if m:
            consts[m.group(1)] = ("lit", m.group(3))
            consts[m.group(1).split("::")[-1]] = ("lit", m.group(3))
    return fns, consts
