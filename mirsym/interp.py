"""Symbolic interpreter for rustc's textual MIR (engine B).

Values
  z3 BitVec / Bool        integers, bools
  Struct(fields)          structs and tuples, fields: {index: Cell}
  EnumV(variant, fields)  enum values; variant is a python int (paths split on symbolic discriminants)
  Ref(cell)               references and raw pointers
  UNIT, ('opaque', txt)   unit / values the property does not depend on
  anything else           summary objects owned by the property script (bounded maps, queues, ...)

Execution is path-by-path: every branch on a symbolic condition asks `Path.decide`, which follows a
recorded decision vector (replay-based DFS, see explore.py) and checks feasibility with z3.
Function bodies are generators: summaries may `yield` events (visible steps) to a scheduler.
"""
import itertools
import re

import z3

from mir import parse


class Cell:
    __slots__ = ("v",)

    def __init__(self, v=None):
        self.v = v

    def __repr__(self):
        return "Cell(%r)" % (self.v,)


class Struct:
    def __init__(self, fields):
        self.f = fields

    def __repr__(self):
        return "Struct(%r)" % (self.f,)


class Ref:
    def __init__(self, cell):
        self.cell = cell

    def __repr__(self):
        return "Ref(%r)" % (self.cell,)


class EnumV:
    def __init__(self, variant, fields=()):
        self.variant = variant
        self.fields = list(fields)

    def __repr__(self):
        return "Enum(%r,%r)" % (self.variant, self.fields)


UNIT = ("unit",)


class Infeasible(Exception):
    pass


class MirPanic(Exception):
    """A reachable MIR assert failure / explicit panic: reported as a violation by the explorer."""


class Unsupported(Exception):
    """Construct the interpreter cannot express: the check is broken, not passed."""


INT_TY = {"u8": 8, "u16": 16, "u32": 32, "u64": 64, "usize": 64, "i8": 8, "i16": 16, "i32": 32,
          "i64": 64, "isize": 64, "u128": 128, "i128": 128}
SIGNED = {"i8", "i16", "i32", "i64", "isize", "i128"}

# discriminants of std enums that show up in MIR
ENUMS = {
    "Option": {"None": 0, "Some": 1},
    "Result": {"Ok": 0, "Err": 1},
    "Poll": {"Ready": 0, "Pending": 1},
    "Ordering": {"Less": -1, "Equal": 0, "Greater": 1},
    "ControlFlow": {"Continue": 0, "Break": 1},
}


def clone_val(v):
    """By-value copy of aggregates (references stay shared)."""
    if isinstance(v, Struct):
        return Struct({k: Cell(clone_val(c.v)) for k, c in v.f.items()})
    if isinstance(v, EnumV):
        return EnumV(v.variant, [Cell(clone_val(c.v)) for c in v.fields])
    return v


class Path:
    def __init__(self, decisions, seed=0):
        self.decisions = list(decisions)
        self.pos = 0
        self.solver = z3.Solver()
        if seed:
            self.solver.set("random_seed", seed % 1000)
        self.trace = []
        self.queries = 0
        self.solver_s = 0.0
        self.notes = []

    def assume(self, cond):
        self.solver.add(cond)

    def decide(self, cond):
        """Branch on a z3 Bool following the decision vector; infeasible branches abort the path."""
        if isinstance(cond, bool):
            return cond
        cond = z3.simplify(cond)
        if z3.is_true(cond):
            return True
        if z3.is_false(cond):
            return False
        if self.pos < len(self.decisions):
            d = self.decisions[self.pos]
        else:
            d = True
            self.decisions.append(True)
        self.pos += 1
        c = cond if d else z3.Not(cond)
        self.solver.add(c)
        self.queries += 1
        import time as _t
        t0 = _t.time()
        r = self.solver.check()
        self.solver_s += _t.time() - t0
        if r == z3.unknown:
            raise Unsupported("solver returned unknown on a path condition")
        if r != z3.sat:
            raise Infeasible()
        return d

    def choose(self, n, label=""):
        """Finite non-symbolic choice (scheduler, summary nondeterminism)."""
        if n <= 1:
            return 0
        if self.pos < len(self.decisions):
            d = self.decisions[self.pos]
        else:
            d = ("c", 0, n)
            self.decisions.append(d)
        self.pos += 1
        assert isinstance(d, tuple) and d[0] == "c", d
        self.trace.append((label, d[1]))
        return d[1]


class Interp:
    def __init__(self, fns, consts, summaries, resolver=None, enums=None, max_steps=4000):
        self.fns = fns
        self.consts = consts
        self.summ = [(re.compile(p), f) for p, f in summaries]
        self.fresh = itertools.count()
        self.const_cache = {}
        self.resolver = resolver
        self.enums = dict(ENUMS)
        if enums:
            self.enums.update(enums)
        self.max_steps = max_steps
        self.called = set()

    # ------------------------------------------------------------------ helpers
    def sym(self, name, bits):
        return z3.BitVec("%s!%d" % (name, next(self.fresh)), bits)

    @staticmethod
    def balanced(s):
        d = 0
        for ch in s:
            if ch == "(":
                d += 1
            elif ch == ")":
                d -= 1
                if d < 0:
                    return False
        return d == 0

    @staticmethod
    def split_top(s):
        out, d, cur = [], 0, ""
        i = 0
        while i < len(s):
            ch = s[i]
            if ch in "(<[{":
                d += 1
            elif ch in ")]}":
                d -= 1
            elif ch == ">" and i > 0 and s[i - 1] != "-":
                d -= 1
            if ch == "," and d == 0:
                out.append(cur.strip())
                cur = ""
            else:
                cur += ch
            i += 1
        if cur.strip():
            out.append(cur.strip())
        return out

    # ------------------------------------------------------------------ places
    def place_cell(self, fr, s):
        s = s.strip()
        if re.match(r"^_\d+$", s):
            return fr.setdefault(s, Cell())
        if s.startswith("(*") and s.endswith(")") and self.balanced(s[2:-1]):
            inner = self.place_cell(fr, s[2:-1])
            r = inner.v
            if not isinstance(r, Ref):
                raise Unsupported("deref of non-reference %s: %r" % (s, r))
            return r.cell
        if s.startswith("(") and s.endswith(")"):
            body = s[1:-1]
            depth, idx = 0, None
            for i, ch in enumerate(body):
                if ch in "(<[":
                    depth += 1
                elif ch in ")]" or (ch == ">" and body[i - 1] != "-"):
                    depth -= 1
                elif ch == ":" and depth == 0 and body[i:i + 2] == ": " and idx is None:
                    idx = i
            if idx is None:
                # downcast without projection: (_5 as Some)
                mm = re.match(r"^(.+) as (\w+)$", body)
                if mm:
                    return self.place_cell(fr, mm.group(1))
                raise Unsupported("place? " + s)
            base_field = body[:idx]
            j = base_field.rfind(".")
            base, fld = base_field[:j], base_field[j + 1:]
            mm = re.match(r"^\((.+) as (\w+)\)$", base)
            if mm:
                c = self.place_cell(fr, mm.group(1))
                ev = c.v
                if not isinstance(ev, EnumV):
                    raise Unsupported("downcast of non-enum %s: %r" % (s, ev))
                while len(ev.fields) <= int(fld):
                    ev.fields.append(Cell())
                return ev.fields[int(fld)]
            c = self.place_cell(fr, base)
            st = c.v
            if isinstance(st, Struct):
                return st.f.setdefault(int(fld), Cell())
            if st is None:
                st = Struct({})
                c.v = st
                return st.f.setdefault(int(fld), Cell())
            if hasattr(st, "field_cell"):
                return st.field_cell(int(fld))
            raise Unsupported("field of non-struct %s: %r" % (s, st))
        raise Unsupported("place? " + s)

    # ------------------------------------------------------------------ constants / operands
    def const(self, txt, path):
        txt = txt.strip()
        m = re.match(r"^(-?\d+)_(\w+)$", txt)
        if m and m.group(2) in INT_TY:
            return z3.BitVecVal(int(m.group(1)), INT_TY[m.group(2)])
        if txt == "true":
            return z3.BoolVal(True)
        if txt == "false":
            return z3.BoolVal(False)
        if txt == "()" or txt.startswith("ZeroSized"):
            return UNIT
        if txt.startswith('"') or txt.startswith("b\""):
            return ("opaque", txt)
        key = txt
        if key in self.const_cache:
            return self.const_cache[key]
        last = txt.split("::")[-1]
        for cand in (txt, last):
            c = self.consts.get(cand)
            if c is not None:
                v = self.const(c[1], path)
                self.const_cache[key] = v
                return v
            f = self.fns.get("const " + cand)
            if f is not None:
                v = self.run_to_end(self.call_fn(f, [], path))
                self.const_cache[key] = v
                return v
        for suffix, cands in (("::MAX", None),):
            pass
        m = re.match(r"^(?:core::num::<impl )?(\w+)>?::MAX$", txt) or re.match(r"^(\w+)::MAX$", txt)
        if m and m.group(1) in INT_TY:
            t = m.group(1)
            bits = INT_TY[t]
            return z3.BitVecVal(2 ** (bits - 1) - 1 if t in SIGNED else 2 ** bits - 1, bits)
        return ("opaque", txt)

    def operand(self, fr, s, path):
        s = s.strip()
        if s.startswith("copy "):
            return clone_val(self.place_cell(fr, s[5:]).v)
        if s.startswith("move "):
            return self.place_cell(fr, s[5:]).v
        if s.startswith("const "):
            return self.const(s[6:], path)
        raise Unsupported("operand? " + s)

    # ------------------------------------------------------------------ rvalues
    def cast_int(self, v, ty, signed_src=False):
        w = INT_TY[ty]
        if isinstance(v, tuple):
            return v        # opaque constant (e.g. libc::POLLIN): stays opaque
        if z3.is_bool(v):
            v = z3.If(v, z3.BitVecVal(1, w), z3.BitVecVal(0, w))
            return v
        if w > v.size():
            return z3.SignExt(w - v.size(), v) if signed_src else z3.ZeroExt(w - v.size(), v)
        if w < v.size():
            return z3.Extract(w - 1, 0, v)
        return v

    def binop(self, op, a, b, lhs_ty=None):
        if z3.is_bool(a):
            table = {"BitOr": z3.Or, "BitAnd": z3.And, "BitXor": z3.Xor,
                     "Eq": lambda x, y: x == y, "Ne": lambda x, y: x != y}
            if op in table:
                return table[op](a, b)
            raise Unsupported("bool binop " + op)
        signed = lhs_ty in SIGNED
        if op in ("Shl", "Shr", "ShlUnchecked", "ShrUnchecked"):
            if b.size() != a.size():
                b = z3.ZeroExt(a.size() - b.size(), b) if b.size() < a.size() else z3.Extract(a.size() - 1, 0, b)
            if op.startswith("Shl"):
                return a << b
            return (a >> b) if signed else z3.LShR(a, b)
        table = {
            "BitAnd": lambda x, y: x & y, "BitOr": lambda x, y: x | y, "BitXor": lambda x, y: x ^ y,
            "Add": lambda x, y: x + y, "Sub": lambda x, y: x - y, "Mul": lambda x, y: x * y,
            "AddUnchecked": lambda x, y: x + y, "SubUnchecked": lambda x, y: x - y,
            "Eq": lambda x, y: x == y, "Ne": lambda x, y: x != y,
            "Lt": (lambda x, y: x < y) if signed else z3.ULT, "Le": (lambda x, y: x <= y) if signed else z3.ULE,
            "Gt": (lambda x, y: x > y) if signed else z3.UGT, "Ge": (lambda x, y: x >= y) if signed else z3.UGE,
            "Div": (lambda x, y: x / y) if signed else z3.UDiv, "Rem": z3.SRem if signed else z3.URem,
        }
        if op in table:
            return table[op](a, b)
        raise Unsupported("binop " + op)

    def enum_variant(self, path_txt):
        """`Option::<T>::Some` / `std::task::Poll::<()>::Pending` -> (enum name, variant index)."""
        clean = re.sub(r"::<[^>]*(?:<[^>]*>[^>]*)*>", "", path_txt)
        parts = clean.split("::")
        if len(parts) >= 2 and parts[-2] in self.enums and parts[-1] in self.enums[parts[-2]]:
            return parts[-2], self.enums[parts[-2]][parts[-1]]
        return None

    def rvalue(self, fr, rhs, path, lhs_ty=None):
        rhs = rhs.strip()
        m = re.match(r"^(\w+)\((.+)\)$", rhs)
        if m and (m.group(1) in ("BitAnd", "BitOr", "BitXor", "Add", "Sub", "Mul", "Shl", "Shr", "Eq", "Ne",
                                 "Lt", "Le", "Gt", "Ge", "Div", "Rem", "AddUnchecked", "SubUnchecked",
                                 "ShlUnchecked", "ShrUnchecked", "Offset")):
            parts = self.split_top(m.group(2))
            a = self.operand(fr, parts[0], path)
            b = self.operand(fr, parts[1], path)
            ty = fr.get("__types__", {}).get("__opnd__")
            return self.binop(m.group(1), a, b, self.operand_type(fr, parts[0]))
        m = re.match(r"^(Add|Sub|Mul)WithOverflow\((.+)\)$", rhs)
        if m:
            parts = self.split_top(m.group(2))
            a = self.operand(fr, parts[0], path)
            b = self.operand(fr, parts[1], path)
            op = m.group(1)
            w = a.size()
            signed = self.operand_type(fr, parts[0]) in SIGNED
            if op == "Add":
                r = a + b
                ovf = z3.Not(z3.BVAddNoOverflow(a, b, signed)) if not signed else z3.Or(
                    z3.Not(z3.BVAddNoOverflow(a, b, True)), z3.Not(z3.BVAddNoUnderflow(a, b)))
            elif op == "Sub":
                r = a - b
                ovf = z3.Not(z3.BVSubNoUnderflow(a, b, signed)) if not signed else z3.Or(
                    z3.Not(z3.BVSubNoOverflow(a, b)), z3.Not(z3.BVSubNoUnderflow(a, b, True)))
            else:
                r = a * b
                ovf = z3.Not(z3.BVMulNoOverflow(a, b, signed))
            return Struct({0: Cell(r), 1: Cell(ovf)})
        m = re.match(r"^(Not|Neg)\((.+)\)$", rhs)
        if m:
            a = self.operand(fr, m.group(2), path)
            if m.group(1) == "Neg":
                return -a
            return z3.Not(a) if z3.is_bool(a) else ~a
        m = re.match(r"^&(?:mut |raw const |raw mut )?(.+)$", rhs)
        if m and not rhs.startswith("&&"):
            return Ref(self.place_cell(fr, m.group(1)))
        m = re.match(r"^discriminant\((.+)\)$", rhs)
        if m:
            ev = self.place_cell(fr, m.group(1)).v
            if isinstance(ev, EnumV):
                return z3.BitVecVal(ev.variant, 64)
            if hasattr(ev, "discriminant"):
                return ev.discriminant(path)
            raise Unsupported("discriminant of %r" % (ev,))
        m = re.match(r"^(copy|move) (.+?) as (.+) \((\w+)(?:\(.*\))?\)$", rhs)
        if m:
            v = self.operand(fr, m.group(1) + " " + m.group(2), path)
            ty = m.group(3).strip()
            kind = m.group(4)
            if kind in ("IntToInt",) and ty in INT_TY:
                return self.cast_int(v, ty, self.operand_type(fr, m.group(1) + " " + m.group(2)) in SIGNED)
            if ty in INT_TY and z3.is_bool(v):
                return self.cast_int(v, ty)
            return v
        m = re.match(r"^const (.+) as (\w+) \(IntToInt\)$", rhs)
        if m:
            return self.cast_int(self.const(m.group(1), path), m.group(2))
        if rhs.startswith(("copy ", "move ", "const ")):
            return self.operand(fr, rhs, path)
        # tuples
        if rhs.startswith("(") and rhs.endswith(")") and self.balanced(rhs[1:-1]):
            parts = self.split_top(rhs[1:-1])
            return Struct({i: Cell(self.operand(fr, p, path)) for i, p in enumerate(parts)})
        # arrays
        if rhs.startswith("[") and rhs.endswith("]"):
            parts = self.split_top(rhs[1:-1])
            return Struct({i: Cell(self.operand(fr, p, path)) for i, p in enumerate(parts)})
        m = re.match(r"^std::sync::atomic::Ordering::(\w+)$", rhs) or re.match(r"^(?:core|std)::sync::atomic::Ordering::(\w+)$", rhs)
        if m:
            return ("ordering", m.group(1))
        # enum variant with payload / unit variant
        if rhs.endswith(")") and not rhs.startswith("("):
            try:
                head, argtxt = self.split_call(rhs)
            except Unsupported:
                head, argtxt = None, None
            if head:
                ev = self.enum_variant(head)
                if ev is not None:
                    args = self.split_top(argtxt) if argtxt.strip() else []
                    return EnumV(ev[1], [Cell(self.operand(fr, a, path)) for a in args])
        ev = self.enum_variant(rhs)
        if ev is not None:
            return EnumV(ev[1])
        # struct aggregate: Name { a: op, b: op }
        m = re.match(r"^([\w:<>, &'()\[\]]+?) \{ (.*) \}$", rhs)
        if m:
            fields = {}
            for i, part in enumerate(self.split_top(m.group(2))):
                fields[i] = Cell(self.operand(fr, part.split(": ", 1)[1], path))
            return Struct(fields)
        # tuple struct ctor: Snapshot(move _4)
        m = re.match(r"^([\w:<>]+)\((.*)\)$", rhs)
        if m:
            parts = self.split_top(m.group(2)) if m.group(2).strip() else []
            return Struct({i: Cell(self.operand(fr, p, path)) for i, p in enumerate(parts)})
        raise Unsupported("rvalue? " + rhs)

    def operand_type(self, fr, s):
        s = s.strip()
        m = re.match(r"^(?:copy|move) (_\d+)$", s)
        tys = fr.get("__types__")
        if m and tys is not None:
            return tys.get(m.group(1))
        m = re.match(r"^const -?\d+_(\w+)$", s)
        if m:
            return m.group(1)
        return None

    # ------------------------------------------------------------------ execution
    @staticmethod
    def run_to_end(gen):
        try:
            while True:
                next(gen)
        except StopIteration as e:
            return e.value

    def call_fn(self, fn, args, path, depth=0):
        self.called.add(fn.name)
        fr = {"__types__": fn.locals}
        for a, v in zip(fn.args, args):
            fr[a] = Cell(v)
        bb = "bb0"
        steps = 0
        while True:
            steps += 1
            if steps > self.max_steps:
                raise Unsupported("step bound exceeded in " + fn.name)
            stmts = fn.blocks[bb]
            for st in stmts[:-1]:
                self.stmt(fr, st, path)
            nxt = yield from self.term(fr, stmts[-1], path, depth, fn)
            if nxt is None:
                c = fr.get("_0")
                return c.v if c is not None and c.v is not None else UNIT
            bb = nxt

    def stmt(self, fr, st, path):
        st = st.rstrip(";")
        if st.startswith(("StorageLive", "StorageDead", "nop", "FakeRead", "PlaceMention", "Retag",
                          "AscribeUserType", "Coverage", "ConstEvalCounter", "//")):
            return
        if st.startswith("assume("):
            return
        m = re.match(r"^discriminant\((.+)\) = (\d+)$", st)
        if m:
            c = self.place_cell(fr, m.group(1))
            if isinstance(c.v, EnumV):
                c.v.variant = int(m.group(2))
            else:
                c.v = EnumV(int(m.group(2)))
            return
        lhs, rhs = st.split(" = ", 1)
        lty = None
        mm = re.match(r"^(_\d+)$", lhs.strip())
        if mm:
            lty = fr["__types__"].get(mm.group(1))
        v = self.rvalue(fr, rhs, path, lty)
        self.place_cell(fr, lhs).v = v

    def term(self, fr, t, path, depth, fn):
        t = t.rstrip(";")
        if False:
            yield
        if t == "return":
            return None
        m = re.match(r"^goto -> (bb\d+)$", t)
        if m:
            return m.group(1)
        if t == "unreachable":
            raise Infeasible()
        if t.startswith("resume") or t.startswith("abort") or t.startswith("terminate"):
            raise MirPanic("unwinding terminator reached in " + fn.name)
        m = re.match(r"^switchInt\((.+)\) -> \[(.+)\]$", t)
        if m:
            v = self.operand(fr, m.group(1), path)
            arms = [a.strip() for a in m.group(2).split(",")]
            other = None
            for a in arms:
                k, b = a.split(": ")
                if k == "otherwise":
                    other = b
                    continue
                kv = int(k)
                if z3.is_bool(v):
                    cond = v if kv != 0 else z3.Not(v)
                else:
                    cond = v == z3.BitVecVal(kv, v.size())
                if path.decide(cond):
                    return b
            if other is None:
                raise Infeasible()
            return other
        m = re.match(r"^drop\((.+)\) -> \[return: (bb\d+).*\]$", t)
        if m:
            v = self.place_cell(fr, m.group(1)).v
            if hasattr(v, "on_drop"):
                r = v.on_drop(self, path)
                if hasattr(r, "__next__"):
                    yield from r
            elif self.drop_hook is not None:
                r = self.drop_hook(self, v, path, fr["__types__"].get(m.group(1).strip()))
                if hasattr(r, "__next__"):
                    yield from r
            return m.group(2)
        m = re.match(r"^assert\((!?)(.+?), (.*)\) -> \[success: (bb\d+).*\]$", t)
        if m:
            v = self.operand(fr, m.group(2), path)
            if m.group(1) == "!":
                v = z3.Not(v)
            if not path.decide(v):
                raise MirPanic("MIR assert fails in %s: %s" % (fn.name, m.group(3)[:80]))
            return m.group(4)
        m = re.match(r"^(.+?) = (.+) -> \[return: (bb\d+).*\]$", t)
        if m and m.group(2).endswith(")"):
            dest, calltxt, ret = m.groups()
            callee, argtxt = self.split_call(calltxt)
            args = [self.operand(fr, a, path) for a in self.split_top(argtxt)] if argtxt.strip() else []
            v = yield from self.call(callee.strip(), args, path, depth, fr)
            self.place_cell(fr, dest).v = v
            return ret
        m = re.match(r"^(.+?) = (.+?)\((.*)\) -> unwind .*$", t)
        if m:
            # diverging call (panic!)
            callee = m.group(2).strip()
            raise MirPanic("diverging call %s in %s" % (callee, fn.name))
        m = re.match(r"^(.+?)\((.*)\) -> unwind .*$", t)
        if m:
            raise MirPanic("diverging call %s in %s" % (m.group(1), fn.name))
        raise Unsupported("terminator? " + t)

    drop_hook = None

    @staticmethod
    def split_call(txt):
        """`path::<generics>(args)` -> (callee, args): the argument list is the last balanced (...) group."""
        assert txt.endswith(")")
        depth = 0
        for i in range(len(txt) - 1, -1, -1):
            ch = txt[i]
            if ch == ")":
                depth += 1
            elif ch == "(":
                depth -= 1
                if depth == 0:
                    return txt[:i], txt[i + 1:-1]
        raise Unsupported("call? " + txt)

    def call(self, callee, args, path, depth, fr=None):
        # indirect call through a local (fn pointer / vtable entry)
        if re.match(r"^(?:move|copy) ", callee):
            target = self.operand(fr, callee, path)
            if callable(target):
                r = target(self, args, path, callee)
                if hasattr(r, "__next__"):
                    r = yield from r
                return r
            raise Unsupported("indirect call through %r" % (target,))
        for pat, f in self.summ:
            if pat.search(callee):
                r = f(self, args, path, callee)
                if hasattr(r, "__next__"):
                    r = yield from r
                return r
        fn = self.resolve(callee)
        if fn is None:
            raise Unsupported("no summary/body for " + callee)
        return (yield from self.call_fn(fn, args, path, depth + 1))

    def resolve(self, callee):
        if self.resolver is not None:
            f = self.resolver(callee)
            if f is not None:
                return f
        if callee in self.fns:
            return self.fns[callee]
        meth = callee.split("::")[-1]
        cands = [f for n, f in self.fns.items() if n.endswith("::" + meth) or n == meth]
        if len(cands) == 1:
            return cands[0]
        return None


def load(path):
    fns = parse(path)
    consts = {}
    for line in open(path):
        m = re.match(r"^const ([\w:<>]+): (\w+) = const (.+);$", line.rstrip())
        if m:
            consts[m.group(1)] = ("lit", m.group(3))
            consts[m.group(1).split("::")[-1]] = ("lit", m.group(3))
    return fns, consts
