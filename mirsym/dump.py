"""Regenerate the MIR of a /repo crate (nightly rustc, --emit=mir) and return the path of the dump."""
import glob
import os
import subprocess
import sys

sys.path.insert(0, os.path.join(os.path.dirname(os.path.abspath(__file__)), "..", "lib"))
from common import REPO, scratch, log  # noqa: E402


def dump_mir(package, features=(), no_default_features=False, tag=None, debug_assertions=False):
    """cargo +nightly rustc -p <package> --lib -- --emit=mir ; cargo's fingerprinting makes the
    artifact follow /repo's current sources (rebuilt whenever they change)."""
    key = tag or (package + ("-" + "-".join(features) if features else ""))
    tdir = scratch("mir-" + key)
    cmd = ["cargo", "+nightly", "rustc", "-p", package, "--lib", "--offline"]
    if no_default_features:
        cmd.append("--no-default-features")
    if features:
        cmd += ["--features", ",".join(features)]
    cmd += ["--", "--emit=mir", "-C", "debug-assertions=%s" % ("on" if debug_assertions else "off"), "-C", "overflow-checks=on"]
    if debug_assertions:
        # keep the code's own debug_assert!s, drop rustc's pointer alignment/null instrumentation of raw derefs
        cmd += ["-Zmir-enable-passes=-CheckAlignment,-CheckNull,-CheckEnums"]
    env = dict(os.environ)
    env["CARGO_TARGET_DIR"] = tdir
    env["CARGO_NET_OFFLINE"] = "true"
    p = subprocess.run(cmd, cwd=REPO, env=env, stdout=subprocess.PIPE, stderr=subprocess.STDOUT,
                       text=True, timeout=1800)
    if p.returncode != 0:
        log(p.stdout[-3000:])
        raise RuntimeError("MIR dump of %s failed" % package)
    crate = package.replace("-", "_")
    cands = glob.glob(os.path.join(tdir, "debug", "deps", crate + "-*.mir"))
    if not cands:
        raise RuntimeError("no MIR artifact for %s" % package)
    cands.sort(key=os.path.getmtime)
    return cands[-1], " ".join(cmd)
