"""Plan object (for lib/mirprop) of the connection-level close / wake check of compio-quic (mirsym/c16_conn.py)."""
import os


class ConnPlan:
    summaries = []
    checker_cmd = ""

    def z3_version(self):
        import z3
        return z3.get_version_string()

    def prepare(self, tier):
        import dump
        import c16_conn
        from common import REPO
        p, c = dump.dump_mir("compio-quic", [], tag="compio-quic")
        self.checker_cmd = c + " ;; mirsym/c16_conn.py (field list of ConnectionState parsed from compio-quic/src/connection.rs)"
        self.B = c16_conn.ConnModel(p, os.path.join(REPO, "compio-quic", "src", "connection.rs"))
        self.B.fields()
        ConnPlan.summaries = c16_conn.SUMMARY_TEXT

    def checks(self, tier):
        return [("conn." + n, getattr(self.B, "check_" + n)) for n in self.B.CHECKS]

    def encoded(self):
        return sorted(self.B.encoded)

    def bounds(self, tier):
        return {"terminate": "every waker-holding field of ConnectionState (%s) holding 0 / 1 / 2 wakers; terminate(reason) and close(code, reason)"
                % ", ".join(n for n, t in self.B.fields() if "Waker" in t),
                "wake_stream": "a table of 1 / 2 / 3 streams' wakers, an event naming one of them or a stream nobody waits on",
                "stream_event": "one event (Readable / Writable / Finished / Stopped) naming stream 7; readable / writable / stopped each hold a waker for streams 7 and 9",
                "conn_event": "one event (Opened / Available per direction, DatagramReceived, DatagramsUnblocked, HandshakeDataReady, Connected); every waker-holding field holding 0 / 1 / 2 wakers",
                "close_event": "one ConnectionEvent::Close; every waker-holding field holding 0 / 1 / 2 wakers",
                "poll functions": "1 call, before or after termination, both directions, quinn-proto answering nothing / something"}

    def validate(self, tier):
        return 0, 0, ["no concrete trace: terminate and the three poll functions are straight-line code whose every path is enumerated "
                      "(6 + 3 + 10 + 8 paths); the repo's QUIC tests need a live endpoint pair"]

    def replay(self, f):
        return None, {"choices": f.trace, "note": "counterexample = how many wakers each container held / whether the poll came before or after "
                      "termination / what quinn-proto answered"}
