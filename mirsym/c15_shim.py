"""C15 (two of its mechanisms) — the blocking shim of compio-tls's native-tls back end and the handshake wrapper around it
(compio-tls/src/compat/common.rs, compat/native.rs), interpreted from MIR.

  * OpensslInner<S>::{poll_read, poll_write, poll_flush, poll_close}: "during the handshake a read first flushes what was written;
    flush is deferred";
  * AllowStd<S>::{with_context, read, write, flush, finish_handshake}: "context-smuggling blocking shim that turns Pending into
    WouldBlock";
  * compat::native::handshake (the async fn behind TlsConnector::connect / TlsAcceptor::accept): whichever way the handshake
    completes, the stream handed out must have left handshake mode (finish_handshake) and been flushed afterwards — otherwise
    its poll_flush stays "deferred" for good and data written later is held back in the transport.

The transport S is adversarial (every poll answers Pending, Ready(Ok) or Ready(Err)); the TLS library is abstract: the two
handshake futures answer Done / Mid / error and Pending / finished / error, `TlsStream::flush()` is a future whose poll answers
Pending / Ok / Err and records whether the shim was already out of handshake mode.
"""
import re

import z3

from interp import Interp, Struct, EnumV, Ref, Cell, UNIT, Unsupported, Infeasible, MirPanic, Coroutine, Closure, load, Path
from c08_wrappers import Wrappers

SUMMARY_TEXT = [
    "transport S: <S as AsyncRead>::poll_read, <S as AsyncWrite>::{poll_write, poll_flush, poll_close} = Pending | Ready(Ok) | "
    "Ready(Err) by adversarial choice, the Context they were given is recorded",
    "Pin::{new, new_unchecked, as_mut, get_mut}, the pin-project `project`, raw-pointer casts of the smuggled Context, "
    "io::Error::from(ErrorKind) by definition",
    "native-tls: StartedHandshakeFuture::poll = Ready(Err) | Ready(Ok(Done(stream))) | Ready(Ok(Mid(mid))); MidHandshake::poll = "
    "Pending | Ready(Ok(stream)) | Ready(Err); native_tls::TlsStream::get_mut = the AllowStd inside; AsyncWriteExt::flush = a future "
    "whose poll answers Pending | Ready(Ok) | Ready(Err) and records the shim's handshaken flag at that moment",
]


def deref(x):
    while isinstance(x, Ref):
        x = x.cell.v
    return x


class IoErr:
    def __init__(self, origin, kind=None):
        self.origin, self.kind = origin, kind

    def __repr__(self):
        return "io-error(%s, %s)" % (self.origin, self.kind)


class ShimModel(Wrappers):
    def __init__(self, mir_path):
        super().__init__(mir_path)

    def CF(self, meth, sig_pat):
        c = [f for k, f in self.fns.items() if k.startswith("common::<impl") and k.endswith("::" + meth) and re.search(sig_pat, f.sig)]
        if len(c) != 1:
            raise Unsupported("cannot locate common.rs %s (%d)" % (meth, len(c)))
        return c[0]

    def resolver(self, callee):
        clean = self.strip_turbofish(callee)
        m = re.match(r"^(?:compat::common::|common::)?AllowStd::(\w+)$", clean)
        if m:
            c = [f for k, f in self.fns.items() if k.startswith("common::<impl") and k.endswith("::" + m.group(1)) and "AllowStd<S>" in f.sig]
            if len(c) == 1:
                return c[0]
        m = re.match(r"^<(?:compat::common::|common::)?OpensslInner<S> as (?:futures_util::)?Async(?:Read|Write)>::(\w+)$", clean)
        if m:
            return self.CF(m.group(1), r"_1: Pin<&mut OpensslInner<S>>")
        m = re.match(r"^common::_::<impl OpensslInner<S>>::project$|^(?:compat::)?common::_::<impl (?:compat::common::)?OpensslInner<S>>::project$", callee)
        if m:
            c = [f for k, f in self.fns.items() if re.search(r"::project(?:#\d+)?$", k) and "_1: Pin<&mut OpensslInner<S>>" in f.sig]
            if len(c) == 1:
                return c[0]
        m = re.match(r"^(?:compat::native::)?TlsStream::get_mut$", clean)
        if m:
            c = [f for k, f in self.fns.items() if k.endswith("::get_mut") and "native" in k and "_1: &mut compat::native::TlsStream<S>" in f.sig]
            if len(c) == 1:
                return c[0]
        m = re.match(r"^(?:compat::native::)?(finish|handshake)$", clean)
        if m:
            for k in ("compat::native::" + m.group(1), "native::" + m.group(1), m.group(1)):
                if k in self.fns:
                    return self.fns[k]
        return super().resolver(callee) if hasattr(super(), "resolver") else None

    # ------------------------------------------------------------------ world
    def world(self, p):
        W = type("W", (), {})()
        W.inner_calls = []        # (op, context token, answer)
        W.flush_polls = []        # handshaken flag at each poll of TlsStream::flush()
        W.finish_calls = 0
        me = self

        def pin(v):
            return Struct({0: Cell(v)})

        def s_pin_new(I, a, pth, c):
            return pin(a[0])

        def s_pin_inner(I, a, pth, c):
            v = a[0]
            if isinstance(v, Ref):
                v = v.cell.v
            return v.f[0].v

        def s_pin_as_mut(I, a, pth, c):
            pv = a[0].cell.v
            return pin(pv.f[0].v)

        def transport(op):
            def f(I, a, pth, c):
                cx = deref(a[1])
                k = pth.choose(3, "transport %s: pending / ok / error" % op)
                W.inner_calls.append((op, cx, k))
                if len(W.inner_calls) > 4:
                    raise Infeasible()
                if k == 0:
                    return EnumV(1)
                if k == 2:
                    return EnumV(0, [Cell(EnumV(1, [Cell(IoErr("transport"))]))])
                return EnumV(0, [Cell(EnumV(0, [Cell(("n-%s" % op,) if op in ("read", "write") else UNIT)]))])
            return f

        def s_mem_take_bool(I, a, pth, c):
            cell = a[0].cell
            old = cell.v
            cell.v = z3.BoolVal(False)
            return old

        def s_error_from_kind(I, a, pth, c):
            k = a[0]
            return IoErr("shim", str(k[1]).split("::")[-1] if isinstance(k, tuple) else str(k))

        def s_is_null(I, a, pth, c):
            v = a[0]
            return z3.BoolVal(v is None or v == ("null",))

        def s_null_mut(I, a, pth, c):
            return ("null",)

        # ---- handshake wrapper
        def s_started_poll(I, a, pth, c):
            k = pth.choose(3, "first handshake call: error / done at once / would block (Mid)")
            if k == 0:
                return EnumV(0, [Cell(EnumV(1, [Cell(("native-tls-error",))]))])
            if k == 1:
                return EnumV(0, [Cell(EnumV(0, [Cell(EnumV(0, [Cell(W.stream)]))]))])          # Ok(Done(stream))
            return EnumV(0, [Cell(EnumV(0, [Cell(EnumV(1, [Cell(("mid-handshake",))]))]))])     # Ok(Mid(mid))

        def s_mid_poll(I, a, pth, c):
            W.mid_polls += 1
            if W.mid_polls > 2:
                raise Infeasible()
            k = pth.choose(3, "handshake continuation: pending / finished / error")
            if k == 0:
                return EnumV(1)
            if k == 2:
                return EnumV(0, [Cell(EnumV(1, [Cell(("native-tls-error",))]))])
            return EnumV(0, [Cell(EnumV(0, [Cell(W.stream)]))])

        def s_error_other(I, a, pth, c):
            return IoErr("native-tls")

        def s_map_err(I, a, pth, c):
            r = a[0]
            return r if r.variant == 0 else EnumV(1, [Cell(IoErr("native-tls"))])

        def s_try_branch(I, a, pth, c):
            r = a[0]
            return EnumV(0, [Cell(r.fields[0].v if r.fields else UNIT)]) if r.variant == 0 else EnumV(1, [Cell(r)])

        def s_from_residual(I, a, pth, c):
            return EnumV(1, [Cell(a[0].fields[0].v)])

        def s_native_get_mut(I, a, pth, c):
            nt = deref(a[0])                 # the native_tls::TlsStream token object
            return Ref(nt.f[0])

        def s_flush_future(I, a, pth, c):
            return ("flush-future", deref(a[0]))

        def s_flush_poll(I, a, pth, c):
            W.flush_poll_count += 1
            if W.flush_poll_count > 3:
                raise Infeasible()
            W.flush_polls.append(me.handshaken(W))
            k = pth.choose(3, "TlsStream::flush(): pending / ok / error")
            if k == 0:
                return EnumV(1)
            if k == 2:
                return EnumV(0, [Cell(EnumV(1, [Cell(IoErr("flush"))]))])
            W.flushed_ok_after_finish = W.flushed_ok_after_finish or me.handshaken(W)
            return EnumV(0, [Cell(EnumV(0, [Cell(UNIT)]))])

        def s_identity(I, a, pth, c):
            return a[0]

        def s_poll_nested(I, a, pth, c):
            co = a[0].f[0].v.cell.v
            if not isinstance(co, Coroutine):
                raise Unsupported("poll of %r" % (co,))
            fn = me.poll_fn_for(co, c)
            return (yield from I.call_fn(fn, [a[0], a[1]], pth))

        S = [
            (r"^Pin::<.*>::new(?:_unchecked)?$", s_pin_new),
            (r"^Pin::<&(?:mut )?.*>::(?:get_mut|get_unchecked_mut|get_ref)$", s_pin_inner),
            (r"^Pin::<&mut .*>::as_mut$", s_pin_as_mut),
            (r"^<Pin<&mut .*> as Deref(?:Mut)?>::deref(?:_mut)?$", s_pin_inner),
            (r"^<S as (?:futures_util::)?AsyncRead>::poll_read$", transport("read")),
            (r"^<S as (?:futures_util::)?AsyncWrite>::poll_write$", transport("write")),
            (r"^<S as (?:futures_util::)?AsyncWrite>::poll_flush$", transport("flush")),
            (r"^<S as (?:futures_util::)?AsyncWrite>::poll_close$", transport("close")),
            (r"^std::mem::take::<bool>$", s_mem_take_bool),
            (r"^<std::io::Error as From<ErrorKind>>::from$", s_error_from_kind),
            (r"::is_null$", s_is_null), (r"^std::ptr::null_mut::<", s_null_mut),
            (r"^<StartedHandshakeFuture<F, S> as (?:futures_util::)?Future>::poll$", s_started_poll),
            (r"^<MidHandshake<S> as (?:futures_util::)?Future>::poll$", s_mid_poll),
            (r"^std::io::Error::other::<", s_error_other),
            (r"^Result::<.*>::map_err::<", s_map_err),
            (r" as Try>::branch$", s_try_branch),
            (r"^<(?:std::task::)?Poll<Result<.*>> as FromResidual<.*>>::from_residual$",
             lambda I, a, pth, c: EnumV(0, [Cell(EnumV(1, [Cell(a[0].fields[0].v)]))])),
            (r" as FromResidual<.*>>::from_residual$", s_from_residual),
            (r"^native_tls::TlsStream::<AllowStd<S>>::get_mut$", s_native_get_mut),
            (r"^<compat::native::TlsStream<S> as AsyncWriteExt>::flush$", s_flush_future),
            (r"^<Flush<'_, compat::native::TlsStream<S>> as (?:futures_util::)?Future>::poll$", s_flush_poll),
            (r" as (?:std::future::)?IntoFuture>::into_future$", s_identity),
            (r"^<\{async (?:fn body|block).*\} as .*Future>::poll$", s_poll_nested),
        ]
        I = Interp(self.fns, self.consts, S, resolver=self.resolver)
        I.drop_hook = lambda *a: None
        I.enums = dict(I.enums)
        I.enums["StartedHandshake"] = {"Done": 0, "Mid": 1}
        return W, I

    # ------------------------------------------------------------------ states
    def shim(self, p, handshaken=None, written=None):
        hs = z3.BoolVal(p.choose(2, "handshake finished?") == 1) if handshaken is None else z3.BoolVal(handshaken)
        wr = z3.BoolVal(p.choose(2, "something written since the last flush?") == 1) if written is None else z3.BoolVal(written)
        inner = Struct({0: Cell(("transport",)), 1: Cell(wr), 2: Cell(hs)})
        return inner

    @staticmethod
    def flag(v):
        return z3.is_true(z3.simplify(v))

    def handshaken(self, W):
        return self.flag(W.shim.f[2].v)

    # ------------------------------------------------------------------ checks: OpensslInner
    def check_shim_poll_read(self, p):
        W, I = self.world(p)
        inner = self.shim(p)
        hs0, wr0 = self.flag(inner.f[2].v), self.flag(inner.f[1].v)
        cx = ("ctx", 1)
        r = I.run_to_end(I.call_fn(self.CF("poll_read", r"_1: Pin<&mut OpensslInner<S>>"),
                                   [Struct({0: Cell(Ref(Cell(inner)))}), Ref(Cell(cx)), Ref(Cell(("buf",)))], p))
        self.encoded |= I.called
        ops = [(op, k) for (op, _c, k) in W.inner_calls]
        obs = [("every transport poll is given the caller's Context", z3.BoolVal(all(c is cx for (_o, c, _k) in W.inner_calls)))]
        reads = [i for i, (op, k) in enumerate(ops) if op == "read"]
        if not hs0 and wr0:
            obs.append(("during the handshake, output written since the last flush is flushed before the transport is asked for input "
                        "(otherwise both peers wait for each other)",
                        z3.BoolVal(bool(ops) and ops[0][0] == "flush" and (not reads or ops[reads[0] - 1] == ("flush", 1)))))
            if ops and ops[0] == ("flush", 0):
                obs.append(("a pending flush makes the read pending", z3.BoolVal(r.variant == 1 and len(ops) == 1)))
                obs.append(("... and keeps the written mark: the unfinished flush is retried before the next read",
                            z3.BoolVal(self.flag(inner.f[1].v))))
            if ops and ops[0] == ("flush", 2):
                obs.append(("a failed flush fails the read with that error", z3.BoolVal(r.variant == 0 and r.fields[0].v.variant == 1 and len(ops) == 1)))
                obs.append(("... and keeps the written mark", z3.BoolVal(self.flag(inner.f[1].v))))
            if ops and ops[0] == ("flush", 1):
                obs.append(("a completed flush clears the written mark", z3.BoolVal(not self.flag(inner.f[1].v))))
        else:
            obs.append(("otherwise the read goes straight to the transport, once", z3.BoolVal(ops == [("read", ops[0][1])] if ops else False)))
        if reads:
            k = ops[reads[0]][1]
            obs.append(("the transport's answer to the read is passed on unchanged",
                        z3.BoolVal((k == 0 and r.variant == 1) or (k != 0 and r.variant == 0 and r.fields[0].v.variant == (0 if k == 1 else 1)))))
        return obs

    def check_shim_poll_write(self, p):
        W, I = self.world(p)
        inner = self.shim(p)
        wr0 = self.flag(inner.f[1].v)
        cx = ("ctx", 1)
        r = I.run_to_end(I.call_fn(self.CF("poll_write", r"_1: Pin<&mut OpensslInner<S>>"),
                                   [Struct({0: Cell(Ref(Cell(inner)))}), Ref(Cell(cx)), ("bytes",)], p))
        self.encoded |= I.called
        ops = [(op, k) for (op, _c, k) in W.inner_calls]
        k = ops[0][1] if ops else None
        return [("one transport write, with the caller's Context", z3.BoolVal(len(ops) == 1 and ops[0][0] == "write" and W.inner_calls[0][1] is cx)),
                ("the answer is passed on unchanged",
                 z3.BoolVal((k == 0 and r.variant == 1) or (k in (1, 2) and r.variant == 0 and r.fields[0].v.variant == (0 if k == 1 else 1)))),
                ("an accepted write is remembered (so that the next handshake read flushes first); anything else leaves the mark alone",
                 z3.BoolVal(self.flag(inner.f[1].v) == (True if k == 1 else wr0)))]

    def check_shim_poll_flush(self, p):
        W, I = self.world(p)
        inner = self.shim(p)
        hs0 = self.flag(inner.f[2].v)
        cx = ("ctx", 1)
        r = I.run_to_end(I.call_fn(self.CF("poll_flush", r"_1: Pin<&mut OpensslInner<S>>"),
                                   [Struct({0: Cell(Ref(Cell(inner)))}), Ref(Cell(cx))], p))
        self.encoded |= I.called
        ops = [(op, k) for (op, _c, k) in W.inner_calls]
        if hs0:
            k = ops[0][1] if ops else None
            return [("after the handshake a flush reaches the transport (once, with the caller's Context) and its answer is passed on",
                     z3.BoolVal(len(ops) == 1 and ops[0][0] == "flush" and W.inner_calls[0][1] is cx and
                                ((k == 0 and r.variant == 1) or (k in (1, 2) and r.variant == 0 and r.fields[0].v.variant == (0 if k == 1 else 1)))))]
        return [("during the handshake a flush is deferred: Ok without touching the transport", z3.BoolVal(not ops and r.variant == 0 and r.fields[0].v.variant == 0))]

    # ------------------------------------------------------------------ checks: AllowStd
    def allow_std(self, p, inner, with_context=True):
        cx = ("ctx", 7)
        return Struct({0: Cell(inner), 1: Cell(Ref(Cell(cx)) if with_context else ("null",))}), cx

    def _std_call(self, p, meth, args):
        W, I = self.world(p)
        inner = self.shim(p)
        st, cx = self.allow_std(p, inner)
        f = self.CF(meth, r"_1: &mut AllowStd<S>")
        r = I.run_to_end(I.call_fn(f, [Ref(Cell(st))] + args, p))
        self.encoded |= I.called
        return W, inner, cx, r

    def _std_obs(self, W, cx, r, first_op):
        ops = [(op, k) for (op, _c, k) in W.inner_calls]
        obs = [("the transport is polled with the smuggled Context", z3.BoolVal(all(c is cx for (_o, c, _k) in W.inner_calls)))]
        last = ops[-1] if ops else None
        if last is None:
            obs.append(("no transport call only for a deferred flush", z3.BoolVal(first_op == "flush" and r.variant == 0)))
        elif last[1] == 0:
            obs.append(("Pending becomes Err(WouldBlock)", z3.BoolVal(r.variant == 1 and isinstance(r.fields[0].v, IoErr) and r.fields[0].v.kind == "WouldBlock")))
        elif last[1] == 2:
            obs.append(("a transport error is passed on as that error", z3.BoolVal(r.variant == 1 and isinstance(r.fields[0].v, IoErr) and r.fields[0].v.origin == "transport")))
        else:
            obs.append(("Ready(Ok) becomes Ok", z3.BoolVal(r.variant == 0)))
        return obs

    def check_std_read(self, p):
        W, inner, cx, r = self._std_call(p, "read", [Ref(Cell(("buf",)))])
        return self._std_obs(W, cx, r, "read")

    def check_std_write(self, p):
        W, inner, cx, r = self._std_call(p, "write", [("bytes",)])
        return self._std_obs(W, cx, r, "write")

    def check_std_flush(self, p):
        W, inner, cx, r = self._std_call(p, "flush", [])
        return self._std_obs(W, cx, r, "flush")

    # ------------------------------------------------------------------ check: the handshake wrapper
    def check_handshake(self, p):
        W, I = self.world(p)
        inner = self.shim(p, handshaken=False, written=None)
        st, cx0 = self.allow_std(p, inner, with_context=False)
        W.shim = inner
        native = Struct({0: Cell(st)})                     # native_tls::TlsStream<AllowStd<S>> { the AllowStd inside }
        W.native = native
        # compat::native::TlsStream<S>(native): the native stream sits behind a shared reference so that MIR `copy`/`move` of the
        # wrapper (which the interpreter clones field by field) keeps pointing at the one AllowStd
        W.stream = Struct({0: Cell(Ref(Cell(native)))})
        W.mid_polls = W.flush_poll_count = 0
        W.flushed_ok_after_finish = False
        ctor = self.resolver("handshake")
        if ctor is None:
            raise Unsupported("cannot locate compat::native::handshake")
        co = I.run_to_end(I.call_fn(ctor, [("connect-or-accept closure",), ("transport",)], p))
        pf = [f for k, f in self.fns.items() if k.endswith("::{closure#0}") and "_1: Pin<&mut {async fn body of handshake<F, S>()}>" in f.sig]
        if len(pf) != 1:
            raise Unsupported("cannot locate the body of handshake (%d)" % len(pf))
        cx = Ref(Cell(("ctx", 3)))
        r = None
        for _ in range(6):
            r = I.run_to_end(I.call_fn(pf[0], [Struct({0: Cell(Ref(Cell(co)))}), cx], p))
            if r.variant == 0:
                break
        self.encoded |= I.called
        if r.variant != 0:
            raise Infeasible()
        res = r.fields[0].v
        obs = []
        if res.variant == 0:
            obs.append(("a stream handed out by connect / accept has left handshake mode (finish_handshake), however the handshake completed: "
                        "otherwise its flush stays deferred for good and later writes are held back in the transport",
                        z3.BoolVal(self.handshaken(W))))
            obs.append(("and it was flushed to completion after that (what the handshake left in the transport goes out)",
                        z3.BoolVal(W.flushed_ok_after_finish)))
            obs.append(("the stream handed out is the one the handshake produced", z3.BoolVal(deref(res.fields[0].v.f[0].v) is W.native)))
        else:
            obs.append(("an error is the handshake's or the final flush's", z3.BoolVal(isinstance(res.fields[0].v, IoErr))))
        return obs

    CHECKS = ["shim_poll_read", "shim_poll_write", "shim_poll_flush", "std_read", "std_write", "std_flush", "handshake"]


# =====================================================================================================================
# compio-ws: "WebSocket stream flushes the transport after the protocol flush and before yielding an item"

WS_SUMMARY_TEXT = [
    "async_tungstenite::WebSocketStream = abstract: Stream::poll_next answers Pending | Ready(Some(Ok(msg))) | Ready(Some(Err)) | "
    "Ready(None); Sink::poll_flush (the protocol flush) answers Pending | Ready(Ok) | Ready(Err); get_mut = the transport inside",
    "the transport's AsyncWrite::poll_flush answers Pending | Ready(Ok) | Ready(Err); Pin plumbing, the pin-project `project`, "
    "Option::{is_some, take, expect}, `?` / ready! by definition",
]


class WsModel(Wrappers):
    def wsfn(self, meth):
        c = [f for k, f in self.fns.items() if k.endswith("::" + meth) and k.startswith("<impl at compio-ws/src/lib.rs")
             and "_1: Pin<&mut WebSocketStream<S>>" in f.sig]
        if len(c) != 1:
            raise Unsupported("cannot locate WebSocketStream::%s (%d)" % (meth, len(c)))
        return c[0]

    def resolver(self, callee):
        if re.search(r"_::<impl WebSocketStream<S>>::project$", callee):
            c = [f for k, f in self.fns.items() if re.search(r"::project(?:#\d+)?$", k) and "_1: Pin<&mut WebSocketStream<S>>" in f.sig]
            if len(c) == 1:
                return c[0]
        return None

    def world(self, p):
        W = type("W", (), {})()
        W.log = []            # ("next" | "proto-flush" | "transport-flush", answer)

        def pin(v):
            return Struct({0: Cell(v)})

        def s_pin_new(I, a, pth, c):
            return pin(a[0])

        def s_pin_inner(I, a, pth, c):
            v = a[0]
            if isinstance(v, Ref):
                v = v.cell.v
            return v.f[0].v

        def s_pin_as_mut(I, a, pth, c):
            return pin(a[0].cell.v.f[0].v)

        def answer(kind, n, label):
            def f(I, a, pth, c):
                if len(W.log) >= 6:
                    raise Infeasible()
                k = pth.choose(n, label)
                W.log.append((kind, k))
                if k == 0:
                    return EnumV(1)
                if kind == "next":
                    if k == 1:
                        W.msgs += 1
                        return EnumV(0, [Cell(EnumV(1, [Cell(EnumV(0, [Cell(("message", W.msgs))]))]))])
                    if k == 2:
                        return EnumV(0, [Cell(EnumV(1, [Cell(EnumV(1, [Cell(IoErr("protocol"))]))]))])
                    return EnumV(0, [Cell(EnumV(0))])
                if k == 1:
                    return EnumV(0, [Cell(EnumV(0, [Cell(UNIT)]))])
                return EnumV(0, [Cell(EnumV(1, [Cell(IoErr(kind))]))])
            return f

        def s_inner_get_mut(I, a, pth, c):
            return Ref(Cell(("transport",)))

        def s_opt_take(I, a, pth, c):
            cell = a[0].cell
            old = cell.v
            cell.v = EnumV(0)
            return old

        def s_expect(I, a, pth, c):
            if a[0].variant != 1:
                raise MirPanic("expect on None: next_item should be Some")
            return a[0].fields[0].v

        def s_try_branch(I, a, pth, c):
            r = a[0]
            return EnumV(0, [Cell(r.fields[0].v if r.fields else UNIT)]) if r.variant == 0 else EnumV(1, [Cell(r)])

        def s_from_residual_opt(I, a, pth, c):
            return EnumV(0, [Cell(EnumV(1, [Cell(EnumV(1, [Cell(a[0].fields[0].v)]))]))])     # Ready(Some(Err(e)))

        def s_from_residual(I, a, pth, c):
            return EnumV(0, [Cell(EnumV(1, [Cell(a[0].fields[0].v)]))])                      # Ready(Err(e))

        S = [
            (r"^Pin::<.*>::new(?:_unchecked)?$", s_pin_new), (r"^Pin::<&(?:mut )?.*>::(?:get_mut|get_unchecked_mut|get_ref)$", s_pin_inner),
            (r"^Pin::<&mut .*>::as_mut$", s_pin_as_mut),
            (r"^<async_tungstenite::WebSocketStream<.*> as (?:futures_util::)?Stream>::poll_next$", answer("next", 4, "protocol stream: pending / message / error / end")),
            (r"^<async_tungstenite::WebSocketStream<.*> as (?:futures_util::)?Sink<Message>>::poll_flush$", answer("proto-flush", 3, "protocol flush: pending / ok / error")),
            (r"^<compio_tls::MaybeTlsStream<.*> as AsyncWrite>::poll_flush$", answer("transport-flush", 3, "transport flush: pending / ok / error")),
            (r"^async_tungstenite::WebSocketStream::<.*>::get_mut$", s_inner_get_mut),
            (r"^Option::<.*>::take$", s_opt_take), (r"^Option::<.*>::expect$", s_expect),
            (r" as Try>::branch$", s_try_branch),
            (r"^<std::task::Poll<Option<.*>> as FromResidual<.*>>::from_residual$", s_from_residual_opt),
            (r"^<std::task::Poll<Result<.*>> as FromResidual<.*>>::from_residual$", s_from_residual),
        ]
        I = Interp(self.fns, self.consts, S, resolver=self.resolver)
        I.drop_hook = lambda *a: None
        W.msgs = 0
        return W, I

    def stream(self, p):
        stored = p.choose(2, "an item already received and waiting for the flush?") == 1
        item0 = EnumV(1, [Cell(EnumV(0, [Cell(("message", 0))]))])          # Some(Ok(message 0))
        nxt = Cell(EnumV(1, [Cell(item0)]) if stored else EnumV(0))
        obj = Struct({0: Cell(("async-tungstenite",)), 1: nxt})
        return obj, nxt, stored, item0

    @staticmethod
    def flushed_in_order(log_tail):
        """... proto-flush ok immediately followed by transport-flush ok at the end"""
        return len(log_tail) >= 2 and log_tail[-2] == ("proto-flush", 1) and log_tail[-1] == ("transport-flush", 1)

    def check_ws_poll_next(self, p):
        W, I = self.world(p)
        obj, nxt, stored, item0 = self.stream(p)
        r = I.run_to_end(I.call_fn(self.wsfn("poll_next"), [Struct({0: Cell(Ref(Cell(obj)))}), Ref(Cell(("ctx",)))], p))
        self.encoded |= I.called
        nexts = [k for (kind, k) in W.log if kind == "next"]
        obs = [("the protocol stream is asked for the next item at most once per call, and never while an item is waiting "
                "(a waiting item cannot be overwritten)", z3.BoolVal(len(nexts) <= 1 and not (stored and nexts)))]
        have = stored or (nexts and nexts[0] != 0)
        if r.variant == 1:
            obs.append(("Pending keeps a received item for the next call", z3.BoolVal((nxt.v.variant == 1) == bool(have))))
            obs.append(("Pending is what the last thing polled answered", z3.BoolVal(bool(W.log) and W.log[-1][1] == 0)))
            return obs
        out = r.fields[0].v
        flush_errs = [(k, a) for (k, a) in W.log if k.endswith("flush") and a == 2]
        if flush_errs:
            obs.append(("a failed flush is reported, and the received item is kept (not dropped) for the next call",
                        z3.BoolVal(out.variant == 1 and out.fields[0].v.variant == 1 and isinstance(out.fields[0].v.fields[0].v, IoErr)
                                   and out.fields[0].v.fields[0].v.origin.endswith("flush") and nxt.v.variant == 1)))
            return obs
        obs.append(("an item (or the end of the stream) is yielded only after the protocol flush and then the transport flush completed "
                    "in this call", z3.BoolVal(self.flushed_in_order(W.log))))
        obs.append(("nothing stays stored after an item was yielded", z3.BoolVal(nxt.v.variant == 0)))
        if stored:
            obs.append(("the item yielded is the one that was waiting", z3.BoolVal(out.variant == 1 and out.fields[0].v.variant == 0
                                                                                    and out.fields[0].v.fields[0].v == ("message", 0))))
        elif nexts and nexts[0] == 1:
            obs.append(("the item yielded is the one just received", z3.BoolVal(out.variant == 1 and out.fields[0].v.variant == 0
                                                                                 and out.fields[0].v.fields[0].v == ("message", 1))))
        elif nexts and nexts[0] == 3:
            obs.append(("the end of the protocol stream ends this stream", z3.BoolVal(out.variant == 0)))
        return obs

    def check_ws_poll_flush(self, p):
        W, I = self.world(p)
        obj, nxt, stored, item0 = self.stream(p)
        r = I.run_to_end(I.call_fn(self.wsfn("poll_flush"), [Struct({0: Cell(Ref(Cell(obj)))}), Ref(Cell(("ctx",)))], p))
        self.encoded |= I.called
        obs = [("flushing never touches a waiting item and never reads", z3.BoolVal((nxt.v.variant == 1) == stored and not [1 for (k, _a) in W.log if k == "next"]))]
        if r.variant == 1:
            obs.append(("Pending is what the last flush polled answered", z3.BoolVal(bool(W.log) and W.log[-1][1] == 0)))
        elif r.fields[0].v.variant == 0:
            obs.append(("Ok only after the protocol flush and then the transport flush completed", z3.BoolVal(self.flushed_in_order(W.log) and len(W.log) == 2)))
        else:
            obs.append(("Err is the failing flush's error", z3.BoolVal(bool(W.log) and W.log[-1][1] == 2)))
        return obs

    CHECKS = ["ws_poll_next", "ws_poll_flush"]
