"""Plan object (for lib/mirprop) of the Buffer / BufWriter / BufReader layer (mirsym/c11_buffer.py)."""


class BufPlan:
    summaries = []
    checker_cmd = ""

    def __init__(self, only=None):
        self.only = only

    def z3_version(self):
        import z3
        return z3.get_version_string()

    def prepare(self, tier):
        import dump
        import c11_buffer
        p, c = dump.dump_mir("compio-io", [], tag="compio-io")
        self.checker_cmd = c + " ;; mirsym/c11_buffer.py"
        self.max_inner, self.pendings = (3, 1) if tier == "quick" else (4, 2)
        self.B = c11_buffer.BufModel(p, max_inner=self.max_inner, pendings=self.pendings, copy_inner=6 if tier == "quick" else 7)
        BufPlan.summaries = c11_buffer.SUMMARY_TEXT

    def checks(self, tier):
        import re
        return [("buf." + n, getattr(self.B, "check_" + n)) for n in self.B.CHECKS if not self.only or re.search(self.only, n)]

    def encoded(self):
        return sorted(self.B.encoded)

    def bounds(self, tier):
        return {"inner_calls_per_operation": self.max_inner, "pending_answers_per_operation": self.pendings,
                "copy": "<= %d inner calls (reads + writes + flush + shutdown), no Pending answers, fewer than 2^63 bytes in total" % self.B.copy_inner,
                "state": "arbitrary well-formed buffer: 0 <= progress <= len <= cap <= isize::MAX, arbitrary content (z3 array)",
                "integers": "usize as mathematical integers with explicit mod-2^64 wrap (exact for values < 2^64; every MIR "
                            "overflow check is kept as a panic obligation)",
                "steps": "1 operation per check from an arbitrary state (inductive step)"}

    def validate(self, tier):
        """concrete run through the interpreter vs the behaviour of the repo's own test `io_buf_writer` style scenario"""
        import z3
        from interp import Ref, Cell, Infeasible
        from explore import explore
        B = self.B
        notes, dis = [], 0
        seen = []

        def body(p):
            # concrete state: cap 8, len 5, progress 2; the inner writer takes 2 bytes, then 1
            W, I = B.world(p)
            W.pending_left = 0
            st = B.state(p, W)
            p.assume(z3.And(st.len == 5, st.cap == 8, st.begin == 2))
            r, _ = B.drive(I, B.in_file("buffer::<impl", "flush_to"), [Ref(Cell(st.buf)), Ref(Cell(("writer",)))], p, W)
            if W.inner_errors or len(W.delivered) != 2:
                raise Infeasible()
            p.assume(z3.And(W.delivered[0][2] == 2, W.delivered[1][2] == 1))
            if p.solver.check() != z3.sat:
                raise Infeasible()
            present, sl, vec = B.buf_view(st.buf)
            seen.append(r.variant)
            return [("Ok(3)", z3.And(z3.BoolVal(r.variant == 0), r.fields[0].v == 3) if r.variant == 0 else z3.BoolVal(False)),
                    ("buffer reset", z3.And(vec.len == 0, sl.begin == 0, vec.cap == 8))]
        st_, fails = explore("validate.flush_to", body)
        if fails or seen != [0]:
            dis += 1
            notes.append("flush_to(len 5, progress 2, writes 2+1): interpreter disagrees with the documented outcome: %s %s"
                         % ([f.label for f in fails], seen))
        notes.append("concrete flush_to run (len 5, progress 2, inner writer takes 2 then 1) through the interpreter: Ok(3), two inner "
                     "writes, buffer reset — the behaviour the repo's BufWriter tests rely on; native demos of the findings are in "
                     "/verif/findings/F22_F23_bufwriter_bufreader_demo.rs")
        return 1, dis, notes

    def replay(self, f):
        return None, {"model": f.model, "choices": f.trace,
                      "note": "inductive-step counterexample: the model gives the buffer state (begin0/len0/cap0), the caller's length and "
                              "the inner stream's answers (n_i / r_i, choices); see findings/F22_F23_bufwriter_bufreader_demo.rs for the "
                              "native form of the recorded findings"}
