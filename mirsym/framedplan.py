"""Plan object (for lib/mirprop) of the Framed read state machine (mirsym/c13_framed.py)."""


class FramedPlan:
    summaries = []
    checker_cmd = ""

    def z3_version(self):
        import z3
        return z3.get_version_string()

    def prepare(self, tier):
        import dump
        import c13_framed
        p, c = dump.dump_mir("compio-io", [], tag="compio-io")
        self.checker_cmd = c + " ;; mirsym/c13_framed.py"
        q = tier == "quick"
        self.B = c13_framed.FramedModel(p, max_inner=2 if q else 3, pendings=1 if q else 2, max_extract=3 if q else 4)
        FramedPlan.summaries = c13_framed.SUMMARY_TEXT

    def checks(self, tier):
        return [("framed." + n, getattr(self.B, "check_" + n)) for n in self.B.CHECKS]

    def encoded(self):
        return sorted(self.B.encoded)

    def bounds(self, tier):
        return {"poll_next_calls": "1 (+ one more per Pending answer of the refill)", "framer_calls": self.B.max_extract,
                "inner_reads": self.B.max_inner, "pending_answers": self.B.pendings,
                "state": "not yet configured or idle; arbitrary well-formed buffer (progress <= len <= cap, arbitrary content), arbitrary eof flag",
                "frames": "prefix / payload / suffix lengths solver-chosen with prefix + payload + suffix <= buffered bytes"}

    def validate(self, tier):
        """the repo's test_bytes_framed scenario shape: idle, one complete frame buffered -> one item, frame consumed"""
        import z3
        from explore import explore
        from interp import Struct, Cell, Ref, Infeasible
        B = self.B
        seen = []

        def body(p):
            W, I = B.world(p)
            st = B.state(p, W)
            p.assume(z3.And(st.len == 7, st.begin == 2, st.cap == 8))
            obj, rs, eof0 = B.framed_obj(p, W, st, True)
            r = I.run_to_end(I.call_fn(B.poll_next_fn(), [Struct({0: Cell(Ref(Cell(obj)))}), Ref(Cell(("ctx",)))], p))
            if not W.frames or W.extracts != 1:
                raise Infeasible()
            pre, pay, suf = W.frames[0][:3]
            p.assume(z3.And(pre == 1, pay == 3, suf == 1))
            if p.solver.check() != z3.sat:
                raise Infeasible()
            kind, what = B.state_view(rs)
            present, sl, vec = B.buf_view(what)
            seen.append(r.variant)
            d = W.decoded[0]
            return [("one item", z3.BoolVal(r.variant == 0 and r.fields[0].v.variant == 1)),
                    ("decoded bytes 3..6 of the vector", z3.And(d[1] == 3, d[2] == 3)),
                    ("frame of 5 consumed: buffer fully read, hence reset", z3.And(vec.len == 0, sl.begin == 0))]
        st_, fails = explore("validate.framed", body)
        dis = 1 if fails or not seen else 0
        notes = ["concrete poll_next run (idle, 5 unread bytes at offset 2, framer reports prefix 1 / payload 3 / suffix 1) through the "
                 "interpreter: one item decoded from bytes 3..6, frame consumed, buffer reset — the per-frame step of the repo's framed tests"]
        if dis:
            notes.append("interpreter disagrees: %s %s" % ([f.label for f in fails], seen))
        return 1, dis, notes

    def replay(self, f):
        return None, {"model": f.model, "choices": f.trace,
                      "note": "counterexample = initial buffer state + the framer's and the reader's answers (choices); native form of the "
                              "repaired finding: findings/F26_framed_extract_error_then_panic_demo.rs"}
