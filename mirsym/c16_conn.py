"""C16 (its last clause, connection level) — "closing a connection completes every pending … datagram, open and accept future with
an error instead of leaving it hanging": `ConnectionState::{terminate, close, wake}`, `wake_all_streams`,
`ConnectionInner::{state, try_state}` and the connection-level poll functions `poll_recv_datagram`, `poll_open_stream`,
`poll_accept_stream` of compio-quic/src/connection.rs, interpreted from MIR.  quinn-proto is NOT executed: `datagrams().recv()`,
`streams().open(dir)`, `streams().accept(dir)` answer Some / None by choice, the other queries are opaque.

The argument for "never stranded" has two halves, both under the connection's mutex:
  (a) terminate() stores the error and wakes — exactly once — every waker held in any field of ConnectionState that can hold one
      (the field list is read from the struct definition in the source on every run, so a waker container added later and not
      drained is reported), leaving those containers empty;
  (b) a poll function either returns the stored error (when terminate ran first) without registering anything, or — the error
      being absent — answers Ready, or registers the caller's waker in one of those containers and answers Pending.
Together: a future polled before the close is woken by it and then gets the error; one polled after gets the error at once.
"""
import re

import z3

from interp import Interp, Struct, EnumV, Ref, Cell, UNIT, Unsupported, Infeasible, MirPanic, Closure, load, Path

SUMMARY_TEXT = [
    "VecDeque<Waker> / HashMap<StreamId, Waker> = a bag of waker tokens: push_back, insert, drain(..) (hands out every element and "
    "leaves the container empty), Iterator::for_each over the drained elements; [VecDeque<Waker>; 2] = two bags; Option<Waker>::take; "
    "Waker::{wake, clone} = recorded / identity-preserving; HashMap::remove(&id) = hands out and removes the entry whose key equals id "
    "(stream ids are distinct concrete tokens), None when there is none",
    "synchrony Mutex::lock / MutexGuard deref(_mut), Rc deref by definition (one thread, lock held for the whole call)",
    "quinn-proto: Connection::{datagrams, streams} = handles; Datagrams::recv, Streams::{open, accept} = Some(value) | None by choice; "
    "is_handshaking / side / is_client / close = opaque; ConnectionError::clone = identity",
]


def deref(x):
    while isinstance(x, Ref):
        x = x.cell.v
    return x


class Bag:
    """VecDeque<Waker> or HashMap<StreamId, Waker>"""

    def __init__(self, items=()):
        self.items = list(items)


class Wk:
    def __init__(self, name):
        self.name = name

    def __repr__(self):
        return "waker(%s)" % self.name


class ConnModel:
    def __init__(self, mir_path, src_path):
        self.fns, self.consts = load(mir_path)
        self.src_path = src_path
        self.encoded = set()
        self._fields = None

    # ------------------------------------------------------------------ the struct, from the source
    def fields(self):
        """[(name, type)] of ConnectionState in declaration order (= MIR field index)"""
        if self._fields is None:
            src = open(self.src_path).read()
            m = re.search(r"struct ConnectionState \{(.*?)\n\}", src, re.S)
            if not m:
                raise Unsupported("cannot find struct ConnectionState in " + self.src_path)
            out = []
            for line in m.group(1).splitlines():
                line = line.split("//")[0].strip().rstrip(",")
                mm = re.match(r"^(?:pub(?:\([^)]*\))? )?(\w+): (.+)$", line)
                if mm:
                    out.append((mm.group(1), mm.group(2).strip()))
            if not out:
                raise Unsupported("no fields parsed for ConnectionState")
            self._fields = out
        return self._fields

    def F(self, meth, sig_pat):
        c = [f for k, f in self.fns.items() if k.startswith("connection::") and k.endswith("::" + meth) and re.search(sig_pat, f.sig)]
        if len(c) != 1:
            raise Unsupported("cannot locate connection.rs %s (%d)" % (meth, len(c)))
        return c[0]

    def resolver(self, callee):
        m = re.match(r"^(?:connection::)?ConnectionState::(\w+)$", callee)
        if m:
            c = [f for k, f in self.fns.items() if k.startswith("connection::") and k.endswith("::" + m.group(1)) and "_1: &mut connection::ConnectionState" in f.sig]
            return c[0] if len(c) == 1 else None
        m = re.match(r"^(?:connection::)?ConnectionInner::(\w+)$", callee)
        if m:
            c = [f for k, f in self.fns.items() if k.startswith("connection::") and k.endswith("::" + m.group(1)) and "_1: &ConnectionInner" in f.sig]
            return c[0] if len(c) == 1 else None
        if re.match(r"^(?:connection::)?wake_all_streams$", callee):
            return self.fns.get("connection::wake_all_streams") or self.fns.get("wake_all_streams")
        return None

    # ------------------------------------------------------------------ world
    def world(self, p):
        W = type("W", (), {})()
        W.woken = []
        me = self

        def bag(a):
            v = deref(a)
            if not isinstance(v, Bag):
                raise Unsupported("container method on %r" % (v,))
            return v

        def s_take(I, a, pth, c):
            cell = a[0].cell
            old = cell.v
            cell.v = EnumV(0)
            return old

        def s_wake(I, a, pth, c):
            W.woken.append(deref(a[0]))
            return UNIT

        def s_drain(I, a, pth, c):
            b = bag(a[0])
            items, b.items = b.items, []
            return ("drain", items)

        def s_for_each(I, a, pth, c):
            it = deref(a[0])
            f = a[1]
            for x in it[1]:
                if isinstance(f, Closure):
                    yield from I.call_closure(f, [x], pth)
                elif isinstance(f, tuple) and "wake" in str(f):
                    W.woken.append(deref(x))
                else:
                    raise Unsupported("for_each with %r" % (f,))
            return UNIT

        def s_arr_iter(I, a, pth, c):
            arr = deref(a[0])
            return ("arr-iter", [Ref(arr.f[i]) for i in sorted(arr.f)])

        def s_arr_next(I, a, pth, c):
            it = deref(a[0])
            return EnumV(1, [Cell(it[1].pop(0))]) if it[1] else EnumV(0)

        def s_push_back(I, a, pth, c):
            bag(a[0]).items.append(a[1])
            return UNIT

        def s_insert(I, a, pth, c):
            bag(a[0]).items.append(Struct({0: Cell(a[1]), 1: Cell(a[2])}))
            return EnumV(0)

        def s_remove(I, a, pth, c):
            b = bag(a[0])
            key = deref(a[1])
            for k, x in enumerate(b.items):
                if deref(x.f[0].v) == key:
                    del b.items[k]
                    return EnumV(1, [Cell(x.f[1].v)])
            return EnumV(0)

        def s_lock(I, a, pth, c):
            return Struct({0: Cell(a[0])})          # guard { &Mutex }

        def s_guard_deref(I, a, pth, c):
            g = deref(a[0])
            return Ref(deref(g.f[0].v).f[0])        # Mutex { state }

        def s_rc_deref(I, a, pth, c):
            v = a[0]
            while isinstance(v, Ref) and isinstance(v.cell.v, Ref):
                v = v.cell.v
            return v

        def s_identity(I, a, pth, c):
            return deref(a[0]) if isinstance(a[0], Ref) and not isinstance(deref(a[0]), (Struct, EnumV)) else a[0]

        def s_ctx_waker(I, a, pth, c):
            return deref(a[0]).f[0].v

        def s_handle(I, a, pth, c):
            return ("quinn-handle",)

        def proto(label):
            def f(I, a, pth, c):
                W.proto_calls.append(label)
                if pth.choose(2, "quinn-proto %s: nothing / something" % label) == 0:
                    return EnumV(0)
                return EnumV(1, [Cell(("proto-value", label))])
            return f

        def stream_query(label):
            # Result<Option<VarInt>, ClosedStream>: Err(closed) / Ok(Some(code)) / Ok(None) = still open, nothing yet
            def f(I, a, pth, c):
                W.proto_calls.append(label)
                k = pth.choose(3, "quinn-proto %s: stream gone / a code / nothing yet" % label)
                if k == 0:
                    return EnumV(1, [Cell(("closed-stream",))])
                if k == 1:
                    return EnumV(0, [Cell(EnumV(1, [Cell(("code",))]))])
                return EnumV(0, [Cell(EnumV(0))])
            return f

        def s_write_fn(I, a, pth, c):
            # the caller's write closure over quinn_proto::SendStream: Ok(written) / Err(Blocked) / Err(other)
            W.proto_calls.append("write closure")
            k = pth.choose(3, "write: ok / blocked / stopped-or-closed")
            if k == 0:
                return EnumV(0, [Cell(("written",))])
            return EnumV(1, [Cell(("write-error", "Blocked" if k == 1 else "Stopped"))])

        def s_recv_read(I, a, pth, c):
            W.proto_calls.append("recv_stream().read()")
            if pth.choose(2, "quinn-proto read(): chunks / stream not readable") == 1:
                return EnumV(1, [Cell(("readable-error",))])
            return EnumV(0, [Cell(("chunks",))])

        def s_read_fn(I, a, pth, c):
            # the caller's read closure: ReadStatus::{Readable(v), Finished(opt), Failed(opt, Blocked | Reset(code))}
            k = pth.choose(7, "read closure: readable / finished(none) / finished(some) / blocked(none) / blocked(some) / reset(none) / reset(some)")
            some_v, none = EnumV(1, [Cell(("data",))]), EnumV(0)
            if k == 0:
                return EnumV(0, [Cell(("data",))])
            if k in (1, 2):
                return EnumV(1, [Cell(some_v if k == 2 else none)])
            err = EnumV(0) if k in (3, 4) else EnumV(1, [Cell(("code",))])
            return EnumV(2, [Cell(some_v if k in (4, 6) else none), Cell(err)])

        def s_write_err_convert(I, a, pth, c):
            e = a[0]
            if e[1] == "Blocked":
                return EnumV(1, [Cell(UNIT)])               # Err(()): not an error to report, wait
            return EnumV(0, [Cell(("WriteError", e[1]))])

        def s_opaque_bool(I, a, pth, c):
            return z3.BoolVal(pth.choose(2, "quinn-proto flag") == 1)

        def s_try_branch(I, a, pth, c):
            r = a[0]
            return EnumV(0, [Cell(r.fields[0].v)]) if r.variant == 0 else EnumV(1, [Cell(r)])

        def s_from_residual(I, a, pth, c):
            return EnumV(0, [Cell(EnumV(1, [Cell(a[0].fields[0].v)]))])         # Poll::Ready(Err(e))

        S = [
            (r"^Option::<Waker>::take$", s_take), (r"^Waker::wake$", s_wake), (r"^<Waker as Clone>::clone$", lambda I, a, pth, c: deref(a[0])),
            (r"^VecDeque::<Waker>::drain::<RangeFull>$", s_drain), (r"^HashMap::<StreamId, Waker(?:, \w+)?>::drain$", s_drain),
            (r" as Iterator>::for_each::<", s_for_each),
            (r"^<&mut \[VecDeque<Waker>; 2\] as IntoIterator>::into_iter$", s_arr_iter),
            (r"^<std::slice::IterMut<'_, VecDeque<Waker>> as Iterator>::next$", s_arr_next),
            (r"^VecDeque::<Waker>::push_back$", s_push_back), (r"^HashMap::<StreamId, Waker(?:, \w+)?>::insert$", s_insert),
            (r"^HashMap::<StreamId, Waker(?:, \w+)?>::remove::<StreamId>$", s_remove),
            (r"mutex_blocking::Mutex::<connection::ConnectionState>::lock$", s_lock),
            (r"mutex_blocking::MutexGuard<'_, connection::ConnectionState> as Deref(?:Mut)?>::deref(?:_mut)?$", s_guard_deref),
            (r"^<Rc<ConnectionInner> as Deref>::deref$", s_rc_deref),
            (r"^<connection::ConnectionError as Clone>::clone$", lambda I, a, pth, c: deref(a[0])),
            (r"^std::task::Context::<'_>::waker$", s_ctx_waker),
            (r"^quinn_proto::Connection::(?:datagrams|streams|side)$", s_handle),
            (r"^Datagrams::<'_>::recv$", proto("datagrams().recv()")), (r"^Streams::<'_>::open$", proto("streams().open()")),
            (r"^Streams::<'_>::accept$", proto("streams().accept()")),
            (r"^quinn_proto::Connection::is_handshaking$|^quinn_proto::Side::is_(?:client|server)$|^quinn_proto::Connection::accepted_0rtt$", s_opaque_bool),
            (r"^quinn_proto::Connection::(?:send_stream|recv_stream)$", s_handle),
            (r"^quinn_proto::SendStream::<'_>::stopped$", stream_query("send_stream().stopped()")),
            (r"^quinn_proto::RecvStream::<'_>::received_reset$", stream_query("recv_stream().received_reset()")),
            (r"^<F as FnOnce<\(quinn_proto::SendStream<'_>,\)>>::call_once$", s_write_fn),
            (r"^quinn_proto::RecvStream::<'_>::read$", s_recv_read),
            (r"^<F as FnMut<\(&mut quinn_proto::Chunks<'_>,\)>>::call_mut$", s_read_fn),
            (r"^quinn_proto::Chunks::<'_>::finalize$", s_handle), (r"^ShouldTransmit::should_transmit$", s_opaque_bool),
            (r"^<quinn_proto::WriteError as TryInto<send_stream::WriteError>>::try_into$", s_write_err_convert),
            (r"^<connection::ConnectionError as Into<.*>>::into$", lambda I, a, pth, c: ("converted", a[0])),
            (r"^quinn_proto::Connection::close$|^Instant::now$", lambda I, a, pth, c: UNIT),
            (r" as Try>::branch$", s_try_branch), (r"^<Poll<Result<.*>> as FromResidual<.*>>::from_residual$", s_from_residual),
        ]
        I = Interp(self.fns, self.consts, S, resolver=self.resolver)
        I.drop_hook = lambda *a: None
        W.proto_calls = []
        return W, I

    # ------------------------------------------------------------------ the state
    def state(self, p, error=None, populate=True):
        """ConnectionState with, in every field that can hold wakers, 0..2 distinct waker tokens"""
        fields, placed = {}, {}
        # one choice for all containers (every container empty / one waker each / two each): the fields are independent of each
        # other in terminate(), so per-field combinations (3^10) would add nothing
        n_all = p.choose(3, "wakers per container: 0 / 1 / 2") if populate else 0
        for i, (name, ty) in enumerate(self.fields()):
            if "Waker" not in ty:
                if name == "error":
                    fields[i] = Cell(EnumV(1, [Cell(error)]) if error is not None else EnumV(0))
                elif name == "connected":
                    fields[i] = Cell(z3.BoolVal(True))
                else:
                    fields[i] = Cell(("field", name))
                continue
            placed[name] = []

            def mk(k, name=name):
                w = Wk("%s#%d" % (name, k))
                placed[name].append(w)
                return w
            n = n_all
            if re.match(r"^Option<Waker>$", ty):
                fields[i] = Cell(EnumV(1, [Cell(mk(0))]) if n else EnumV(0))
            elif re.match(r"^VecDeque<Waker>$", ty):
                fields[i] = Cell(Bag([mk(k) for k in range(n)]))
            elif re.match(r"^\[VecDeque<Waker>; 2\]$", ty):
                fields[i] = Cell(Struct({0: Cell(Bag([mk(k) for k in range(n)])), 1: Cell(Bag([mk(10 + k) for k in range(n)]))}))
            elif re.match(r"^(?:Fx)?HashMap<StreamId, Waker>$", ty):
                fields[i] = Cell(Bag([Struct({0: Cell(("stream-id", k)), 1: Cell(mk(k))}) for k in range(n)]))
            else:
                raise Unsupported("ConnectionState.%s: a waker container of a shape the model does not know (%s)" % (name, ty))
        return Struct(fields), placed

    def holders(self, st):
        """every waker token currently held anywhere in the state"""
        out = []
        for i, (name, ty) in enumerate(self.fields()):
            if "Waker" not in ty:
                continue
            v = st.f[i].v
            if isinstance(v, EnumV):
                if v.variant == 1:
                    out.append((name, deref(v.fields[0].v)))
            elif isinstance(v, Bag):
                for x in v.items:
                    out.append((name, deref(x.f[1].v) if isinstance(x, Struct) else deref(x)))
            elif isinstance(v, Struct):
                for c in v.f.values():
                    for x in c.v.items:
                        out.append((name, deref(x)))
        return out

    def idx(self, name):
        return [n for n, _t in self.fields()].index(name)

    # ------------------------------------------------------------------ (a) terminate / close
    def check_terminate(self, p):
        W, I = self.world(p)
        st, placed = self.state(p)
        which = p.choose(2, "terminate(reason) / close(code, reason)")
        if which == 0:
            I.run_to_end(I.call_fn(self.F("terminate", r"_1: &mut connection::ConnectionState, _2: connection::ConnectionError"),
                                   [Ref(Cell(st)), ("connection-error", "reason")], p))
        else:
            I.run_to_end(I.call_fn(self.F("close", r"_1: &mut connection::ConnectionState, _2: VarInt"),
                                   [Ref(Cell(st)), ("code",), ("reason-bytes",)], p))
        self.encoded |= I.called
        obs = []
        err = st.f[self.idx("error")].v
        obs.append(("the error is stored and the connection marked not connected",
                    z3.And(z3.BoolVal(err.variant == 1), z3.Not(st.f[self.idx("connected")].v))))
        for name, ws in placed.items():
            if name == "poller" and which == 0:
                continue          # the worker's own waker: woken by close() through wake(), not by terminate()
            for w in ws:
                obs.append(("every waker held in `%s` is woken exactly once" % name, z3.BoolVal(sum(1 for x in W.woken if x is w) == 1)))
        left = [(n, w) for (n, w) in self.holders(st) if not (n == "poller" and which == 0)]
        obs.append(("no waker is left behind in any field of ConnectionState (a future registered before the close cannot be stranded)",
                    z3.BoolVal(not left)))
        return obs

    # ------------------------------------------------------------------ (b) the poll functions
    def _poll(self, p, meth, sig, extra, container, with_cx=True):
        W, I = self.world(p)
        closed = p.choose(2, "polled before / after the connection was terminated") == 1
        st, placed = self.state(p, error=("connection-error", "stored") if closed else None, populate=False)
        mutex = Struct({0: Cell(st)})
        inner = Struct({0: Cell(mutex)})
        # struct ConnectionInner { state: Mutex<..>, .. }: only field 0 is used here; Connection(Rc<ConnectionInner>)
        conn = Struct({0: Cell(Ref(Cell(inner)))})
        me = Wk("caller")
        cx = Struct({0: Cell(Ref(Cell(me)))})
        args = [Ref(Cell(conn))] + ([Ref(Cell(cx))] if with_cx else []) + extra
        r = I.run_to_end(I.call_fn(self.F(meth, sig), args, p))
        self.encoded |= I.called
        held = self.holders(st)
        obs = []
        if closed:
            obs.append(("after termination the future gets the stored error at once", z3.BoolVal(
                r.variant == 0 and r.fields[0].v.variant == 1 and r.fields[0].v.fields[0].v == ("connection-error", "stored"))))
            obs.append(("... without registering a waker (nobody would wake it) and without touching quinn-proto",
                        z3.BoolVal(not held and not W.proto_calls)))
            return obs
        if r.variant == 1:
            obs.append(("Pending: the caller's waker is registered, in a field that terminate() drains (`%s`)" % container,
                        z3.BoolVal([(n, w) for (n, w) in held] == [(container, me)])))
        else:
            obs.append(("Ready: nothing is registered", z3.BoolVal(not held)))
            obs.append(("Ready(Ok) only with what quinn-proto handed out", z3.BoolVal(r.fields[0].v.variant == 0 and bool(W.proto_calls))))
        return obs

    def check_poll_recv_datagram(self, p):
        return self._poll(p, "poll_recv_datagram", r"_1: &connection::Connection, _2: &mut std::task::Context", [], "datagram_received")

    def _dir(self, p):
        d = p.choose(2, "direction: bi / uni")
        return z3.BitVecVal(d, 64), d

    def check_poll_open_stream(self, p):
        dv, d = self._dir(p)
        W_I = None
        # poll_open_stream takes Option<&mut Context>: Some(cx) here (None is the non-waiting open_uni / open_bi path)
        W, I = self.world(p)
        closed = p.choose(2, "polled before / after the connection was terminated") == 1
        st, placed = self.state(p, error=("connection-error", "stored") if closed else None, populate=False)
        conn = Struct({0: Cell(Ref(Cell(Struct({0: Cell(Struct({0: Cell(st)}))}))))})
        me = Wk("caller")
        cx = Struct({0: Cell(Ref(Cell(me)))})
        r = I.run_to_end(I.call_fn(self.F("poll_open_stream", r"_1: &connection::Connection, _2: Option<&mut std::task::Context"),
                                   [Ref(Cell(conn)), EnumV(1, [Cell(Ref(Cell(cx)))]), EnumV(d)], p))
        self.encoded |= I.called
        held = self.holders(st)
        if closed:
            return [("after termination the future gets the stored error at once, registers nothing and does not touch quinn-proto",
                     z3.BoolVal(r.variant == 0 and r.fields[0].v.variant == 1 and not held and not W.proto_calls))]
        if r.variant == 1:
            arr = st.f[self.idx("stream_available")].v
            where = [i for i in sorted(arr.f) if any(deref(x) is me for x in arr.f[i].v.items)]
            return [("Pending: the caller's waker is registered in `stream_available`, which terminate() drains, under its direction",
                     z3.BoolVal([(n, w) for (n, w) in held] == [("stream_available", me)] and where == [d]))]
        return [("Ready: nothing is registered", z3.BoolVal(not held))]

    def check_poll_accept_stream(self, p):
        dv, d = self._dir(p)
        W, I = self.world(p)
        closed = p.choose(2, "polled before / after the connection was terminated") == 1
        st, placed = self.state(p, error=("connection-error", "stored") if closed else None, populate=False)
        conn = Struct({0: Cell(Ref(Cell(Struct({0: Cell(Struct({0: Cell(st)}))}))))})
        me = Wk("caller")
        cx = Struct({0: Cell(Ref(Cell(me)))})
        r = I.run_to_end(I.call_fn(self.F("poll_accept_stream", r"_1: &connection::Connection, _2: &mut std::task::Context"),
                                   [Ref(Cell(conn)), Ref(Cell(cx)), EnumV(d)], p))
        self.encoded |= I.called
        held = self.holders(st)
        if closed:
            return [("after termination the future gets the stored error at once, registers nothing and does not touch quinn-proto",
                     z3.BoolVal(r.variant == 0 and r.fields[0].v.variant == 1 and not held and not W.proto_calls))]
        if r.variant == 1:
            arr = st.f[self.idx("stream_opened")].v
            where = [i for i in sorted(arr.f) if any(deref(x) is me for x in arr.f[i].v.items)]
            return [("Pending: the caller's waker is registered in `stream_opened`, which terminate() drains, under its direction",
                     z3.BoolVal([(n, w) for (n, w) in held] == [("stream_opened", me)] and where == [d]))]
        return [("Ready: nothing is registered", z3.BoolVal(not held))]

    # ------------------------------------------------------------------ stream-level futures (send_stream.rs / recv_stream.rs)
    def _stream_poll(self, p, find, stream_fields, container, guard_first):
        """one poll of a stream-level future before / after termination.  guard_first: the function returns the stored error before
        asking quinn-proto (try_state); otherwise it may ask quinn-proto first but must look at the error before registering"""
        W, I = self.world(p)
        closed = p.choose(2, "polled before / after the connection was terminated") == 1
        st, placed = self.state(p, error=("connection-error", "stored") if closed else None, populate=False)
        conn = Ref(Cell(Struct({0: Cell(Struct({0: Cell(st)}))})))
        fields = {0: Cell(conn), 1: Cell(("stream-id", 7)), 2: Cell(z3.BoolVal(False))}
        fields.update(stream_fields)
        stream = Struct(fields)
        me = Wk("caller")
        cx = Struct({0: Cell(Ref(Cell(me)))})
        fn, args = find(stream, cx)
        r = I.run_to_end(I.call_fn(fn, args, p))
        self.encoded |= I.called
        held = self.holders(st)
        obs = []
        if r.variant == 1:
            obs.append(("Pending is answered only while the connection is alive: after termination nothing is registered and the future "
                        "completes", z3.BoolVal(not closed)))
            obs.append(("Pending: the caller's waker is registered in `%s`, which terminate() drains" % container,
                        z3.BoolVal([(n, w) for (n, w) in held] == [(container, me)])))
            keys = [deref(x.f[0].v) for x in st.f[self.idx(container)].v.items if isinstance(x, Struct)]
            obs.append(("Pending: the waker is registered under the stream's own id (the worker wakes `%s` by the id quinn-proto names "
                        "in its stream event)" % container, z3.BoolVal(keys == [("stream-id", 7)])))
        else:
            obs.append(("Ready: nothing is registered", z3.BoolVal(not held)))
            if closed and guard_first:
                obs.append(("after termination the stored error is returned without touching quinn-proto",
                            z3.BoolVal(r.fields[0].v.variant == 1 and not W.proto_calls)))
        return obs

    def _closure_fn(self, prefix, name):
        c = [f for k, f in self.fns.items() if k.startswith(prefix) and k.endswith("::" + name + "::{closure#0}::{closure#0}")]
        if len(c) != 1:
            raise Unsupported("cannot locate %s %s poll closure (%d)" % (prefix, name, len(c)))
        return c[0]

    def check_stream_stopped(self, p):
        def find(stream, cx):
            # edition-2021 closures capture the fields they use, by reference: (&conn, &stream, &is_0rtt)
            clo = Struct({i: Cell(Ref(stream.f[i])) for i in (0, 1, 2)})
            return self._closure_fn("send_stream::", "stopped"), [Ref(Cell(clo)), Ref(Cell(cx))]
        return self._stream_poll(p, find, {}, "stopped", guard_first=False)

    def check_stream_received_reset(self, p):
        def find(stream, cx):
            # captures (&conn, &stream, &is_0rtt, &reset)
            clo = Struct({0: Cell(Ref(stream.f[0])), 1: Cell(Ref(stream.f[1])), 2: Cell(Ref(stream.f[2])), 3: Cell(Ref(stream.f[4]))})
            return self._closure_fn("recv_stream::", "received_reset"), [Ref(Cell(clo)), Ref(Cell(cx))]
        return self._stream_poll(p, find, {3: Cell(z3.BoolVal(False)), 4: Cell(EnumV(0))}, "readable", guard_first=False)

    def check_stream_write(self, p):
        def find(stream, cx):
            c = [f for k, f in self.fns.items() if k.startswith("send_stream::") and k.endswith("::execute_poll_write")]
            if len(c) != 1:
                raise Unsupported("cannot locate SendStream::execute_poll_write (%d)" % len(c))
            return c[0], [Ref(Cell(stream)), Ref(Cell(cx)), ("write-closure",)]
        return self._stream_poll(p, find, {}, "writable", guard_first=True)

    def check_stream_read(self, p):
        def find(stream, cx):
            c = [f for k, f in self.fns.items() if k.startswith("recv_stream::") and k.endswith("::execute_poll_read")]
            if len(c) != 1:
                raise Unsupported("cannot locate RecvStream::execute_poll_read (%d)" % len(c))
            return c[0], [Ref(Cell(stream)), Ref(Cell(cx)), z3.BoolVal(True), ("read-closure",)]
        return self._stream_poll(p, find, {3: Cell(z3.BoolVal(False)), 4: Cell(EnumV(0))}, "readable", guard_first=False)

    def check_wake_stream(self, p):
        """wake_stream(id, table): the worker's reaction to a per-stream event of quinn-proto (Readable / Writable / Finished / Stopped)"""
        W, I = self.world(p)
        fn = self.fns.get("connection::wake_stream") or self.fns.get("wake_stream")
        if fn is None:
            raise Unsupported("cannot locate connection.rs wake_stream")
        ids = [3, 7, 9][:1 + p.choose(3, "table holds 1 / 2 / 3 streams' wakers")]
        ws = {k: Wk("stream#%d" % k) for k in ids}
        table = Bag([Struct({0: Cell(("stream-id", k)), 1: Cell(ws[k])}) for k in ids])
        target = [3, 7, 9, 11][p.choose(4, "event names stream 3 / 7 / 9 / 11 (11: nobody waits)")]
        I.run_to_end(I.call_fn(fn, [("stream-id", target), Ref(Cell(table))], p))
        self.encoded |= I.called
        left = [deref(x.f[0].v)[1] for x in table.items]
        obs = []
        if target in ws:
            obs.append(("the waker registered for the named stream is woken", z3.BoolVal(any(x is ws[target] for x in W.woken))))
        # a spurious wake-up of another stream's future would be harmless; dropping its registration silently would strand it
        obs.append(("every other stream's waker stays registered or is woken (none is dropped silently)",
                    z3.BoolVal(all(k in left or any(x is ws[k] for x in W.woken) for k in ids if k != target))))
        return obs

    def _event_slice(self, call=r"quinn_proto::Connection::poll", what="quinn_proto::Connection::poll"):
        c = [f for k, f in self.fns.items() if k.startswith("connection::") and k.endswith("::run::{closure#0}") and "Poll<()>" in f.sig]
        if len(c) != 1:
            raise Unsupported("cannot locate ConnectionInner::run's coroutine body (%d)" % len(c))
        fn = c[0]
        poll_bb = [b for b, sts in fn.blocks.items() if re.search(r"= " + call + r"\(", sts[-1])]
        if len(poll_bb) != 1:
            raise Unsupported("run(): expected one call of %s, found %d" % (what, len(poll_bb)))
        m = re.match(r"^\s*(_\d+) = " + call + r"\(.*\[return: (bb\d+)", fn.blocks[poll_bb[0]][-1])
        if not m:
            raise Unsupported("run(): cannot parse the call of " + what)
        ev_local, start = m.group(1), m.group(2)
        guards = set()
        for sts in fn.blocks.values():
            mm = re.search(r"MutexGuard<'_, connection::ConnectionState> as DerefMut>::deref_mut\(move (_\d+)\)", sts[-1])
            if mm:
                for st in sts[:-1]:
                    m2 = re.match(r"^\s*%s = &mut (_\d+);" % re.escape(mm.group(1)), st)
                    if m2:
                        guards.add(m2.group(1))
        if not guards:
            raise Unsupported("run(): cannot identify a local holding the state guard")
        # run() takes the guard more than once (one local per lock scope); the slice starts inside one scope, so every guard local is
        # bound to the same state
        return fn, ev_local, start, poll_bb[0], guards

    def check_stream_event(self, p):
        """the worker's reaction to one per-stream event of quinn-proto: the slice of ConnectionInner::run's coroutine body between
        `state.conn.poll()` answering Some(event) and the next `state.conn.poll()`"""
        W, I = self.world(p)
        fn, ev_local, start, poll_block, guards = self._event_slice()
        # state: every per-stream table holds a waker for stream 7 and one for stream 9
        st, _placed = self.state(p, populate=False)
        ws = {}
        for name in ("readable", "writable", "stopped"):
            items = []
            for k in (7, 9):
                ws[(name, k)] = Wk("%s#%d" % (name, k))
                items.append(Struct({0: Cell(("stream-id", k)), 1: Cell(ws[(name, k)])}))
            st.f[self.idx(name)].v = Bag(items)
        guard = Struct({0: Cell(Ref(Cell(Struct({0: Cell(st)}))))})
        # quinn_proto::StreamEvent: Opened 0, Readable 1, Writable 2, Finished 3, Stopped 4, Available 5; quinn_proto::Event::Stream = 3
        names = ["Readable", "Writable", "Finished", "Stopped"]
        k = p.choose(4, "stream event: Readable / Writable / Finished / Stopped, naming stream 7")
        ev = EnumV(3, [Cell(EnumV(1 + k, [Cell(("stream-id", 7)), Cell(("error-code",))]))])
        r = I.run_to_end(I.call_fn(fn, [None, None], p, start=start, init=dict({g: guard for g in guards}, **{ev_local: EnumV(1, [Cell(ev)])}),
                                   stop=(poll_block,)))
        self.encoded |= I.called
        if not (isinstance(r, tuple) and r and r[0] == "stopped-at"):
            raise Unsupported("run(): the event arm did not come back to the event loop (%r)" % (r,))
        # what must get going again: Readable -> reads / received_reset (readable); Writable -> writes (writable); Finished -> stopped()
        # (stopped); Stopped (peer sent STOP_SENDING) -> stopped() AND every blocked write, which must now fail with Stopped
        need = {"Readable": ["readable"], "Writable": ["writable"], "Finished": ["stopped"], "Stopped": ["stopped", "writable"]}[names[k]]
        obs = []
        for t in need:
            obs.append(("%s event: the future of that stream parked in `%s` is woken" % (names[k], t),
                        z3.BoolVal(sum(1 for x in W.woken if x is ws[(t, 7)]) == 1)))
        # a spurious wake-up of another stream's future is harmless (it polls again and registers again); losing its registration
        # without waking it is not
        obs.append(("no other stream's future loses its registration without being woken",
                    z3.BoolVal(all(any(deref(y.f[1].v) is ws[(t, 9)] for y in st.f[self.idx(t)].v.items)
                                   or any(x is ws[(t, 9)] for x in W.woken)
                                   for t in ("readable", "writable", "stopped")))))
        return obs

    def check_conn_event(self, p):
        """the other arms of the same match: Opened / Available (per direction), DatagramReceived, DatagramsUnblocked, HandshakeDataReady,
        Connected — same slice of ConnectionInner::run's coroutine body as stream_event"""
        W, I = self.world(p)
        fn, ev_local, start, poll_block, guards = self._event_slice()
        st, placed = self.state(p)
        st.f[self.idx("connected")].v = z3.BoolVal(False)
        guard = Struct({0: Cell(Ref(Cell(Struct({0: Cell(st)}))))})
        kinds = ["Opened", "Available", "DatagramReceived", "DatagramsUnblocked", "HandshakeDataReady", "Connected"]
        k = p.choose(len(kinds), "event: " + " / ".join(kinds))
        kind = kinds[k]
        d = None
        if kind in ("Opened", "Available"):
            d = p.choose(2, "direction: bi / uni")
            ev = EnumV(3, [Cell(EnumV(0 if kind == "Opened" else 5, [Cell(EnumV(d))]))])
        else:
            ev = EnumV({"DatagramReceived": 4, "DatagramsUnblocked": 5, "HandshakeDataReady": 0, "Connected": 1}[kind])
        r = I.run_to_end(I.call_fn(fn, [None, None], p, start=start, init=dict({g: guard for g in guards}, **{ev_local: EnumV(1, [Cell(ev)])}),
                                   stop=(poll_block,)))
        self.encoded |= I.called
        if not (isinstance(r, tuple) and r and r[0] == "stopped-at"):
            raise Unsupported("run(): the event arm did not come back to the event loop (%r)" % (r,))

        def half(name, dd):
            ws = placed[name]
            n = len(ws) // 2
            return ws[:n] if dd == 0 else ws[n:]
        need = {"Opened": lambda: half("stream_opened", d), "Available": lambda: half("stream_available", d),
                "DatagramReceived": lambda: placed["datagram_received"], "DatagramsUnblocked": lambda: placed["datagrams_unblocked"],
                "HandshakeDataReady": lambda: placed["on_handshake_data"], "Connected": lambda: placed["on_connected"]}[kind]()
        where = {"Opened": "stream_opened[dir]", "Available": "stream_available[dir]", "DatagramReceived": "datagram_received",
                 "DatagramsUnblocked": "datagrams_unblocked", "HandshakeDataReady": "on_handshake_data", "Connected": "on_connected"}[kind]
        obs = []
        for w in need:
            obs.append(("%s event: every future parked in `%s` is woken exactly once" % (kind, where),
                        z3.BoolVal(sum(1 for x in W.woken if x is w) == 1)))
        held = [w for (_n, w) in self.holders(st)]
        everyone = [w for ws in placed.values() for w in ws]
        obs.append(("no waker leaves its table without being woken (an event never strands another future)",
                    z3.BoolVal(all(any(h is w for h in held) or any(x is w for x in W.woken) for w in everyone))))
        if kind == "Connected":
            obs.append(("Connected event: the connection is marked connected", st.f[self.idx("connected")].v))
        return obs

    def check_close_event(self, p):
        """the worker's reaction to ConnectionEvent::Close(code, reason) (what Connection::close / Endpoint::close / the implicit close on
        drop send it): the slice of run()'s body from `events.into_iter().next()` answering Some(Close(..)) to the next `next()`"""
        W, I = self.world(p)
        fn, ev_local, start, next_block, guards = self._event_slice(
            r"<std::vec::IntoIter<connection::ConnectionEvent> as Iterator>::next", "IntoIter<ConnectionEvent>::next")
        st, placed = self.state(p)
        guard = Struct({0: Cell(Ref(Cell(Struct({0: Cell(st)}))))})
        ev = EnumV(0, [Cell(("code",)), Cell(("reason-bytes",))])           # ConnectionEvent::Close = 0, Proto = 1
        r = I.run_to_end(I.call_fn(fn, [None, None], p, start=start, init=dict({g: guard for g in guards}, **{ev_local: EnumV(1, [Cell(ev)])}),
                                   stop=(next_block,)))
        self.encoded |= I.called
        if not (isinstance(r, tuple) and r and r[0] == "stopped-at"):
            raise Unsupported("run(): the Close arm did not come back to the event loop (%r)" % (r,))
        err = st.f[self.idx("error")].v
        obs = [("Close event: the error is stored and the connection marked not connected",
                z3.And(z3.BoolVal(err.variant == 1), z3.Not(st.f[self.idx("connected")].v)))]
        for name, ws in placed.items():
            for w in ws:
                obs.append(("Close event: every waker held in `%s` is woken exactly once" % name,
                            z3.BoolVal(sum(1 for x in W.woken if x is w) == 1)))
        obs.append(("Close event: no waker is left behind in any field of ConnectionState", z3.BoolVal(not self.holders(st))))
        return obs

    CHECKS = ["wake_stream", "stream_event", "conn_event", "close_event", "terminate", "poll_recv_datagram", "poll_open_stream", "poll_accept_stream", "stream_stopped", "stream_received_reset",
              "stream_write", "stream_read"]
