"""Minimal MIR text parser (prototype)."""
import re, sys

class Fn:
    def __init__(self, name, sig):
        self.name=name; self.sig=sig; self.locals={}; self.blocks={}; self.args=[]
    def __repr__(self): return f"<Fn {self.name} {len(self.blocks)} bbs>"

FN_RE = re.compile(r'^fn (.+?)\((.*)\) -> (.+?) \{$')
CONST_RE = re.compile(r'^const (.+) = \{$')
BB_RE = re.compile(r'^\s+(bb\d+)(?: \(cleanup\))?: \{$')
LET_RE = re.compile(r'^\s+let (?:mut )?(_\d+): (.+);$')

def const_name(decl):
    """`name: Type` -> name; the separator is the first ": " outside <...>, {...}, (...) (spans contain ": ")."""
    depth = 0
    for i, ch in enumerate(decl):
        if ch in "<{(":
            depth += 1
        elif ch in ")}" or (ch == ">" and decl[i - 1] != "-"):
            depth -= 1
        elif ch == ":" and depth == 0 and decl[i:i + 2] == ": ":
            return decl[:i]
    return decl


def parse(path):
    fns={}
    cur=None; bb=None
    for line in open(path):
        line=line.rstrip('\n')
        m=FN_RE.match(line)
        if m and cur is None:
            cur=Fn(m.group(1), line)
            # args
            for a in re.finditer(r'(_\d+): ', m.group(2)):
                cur.args.append(a.group(1))
            if cur.name in fns:
                # several impls generated at one macro span share a name (pin-project-lite `project`): keep them all
                n = 2
                while "%s#%d" % (cur.name, n) in fns:
                    n += 1
                fns["%s#%d" % (cur.name, n)] = cur
            else:
                fns[cur.name] = cur
            continue
        if cur is None:
            m=CONST_RE.match(line)
            if m:
                cur=Fn('const '+const_name(m.group(1)), line); fns.setdefault(cur.name, cur)
            continue
        if line=='}':
            cur=None; bb=None; continue
        m=BB_RE.match(line)
        if m:
            bb=m.group(1); cur.blocks[bb]=[]; continue
        if bb is not None:
            s=line.strip()
            if s=='}': bb=None; continue
            if s: cur.blocks[bb].append(s)
            continue
        m=LET_RE.match(line)
        if m: cur.locals[m.group(1)]=m.group(2)
    return fns

if __name__=='__main__':
    fns=parse(sys.argv[1])
    print(len(fns))
    for k in fns:
        if sys.argv[2] in k: print(k, fns[k].args, {b:len(v) for b,v in fns[k].blocks.items()})
