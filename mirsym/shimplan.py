"""Plan objects (for lib/mirprop) of the two C15 layers in mirsym/c15_shim.py: the native-tls shim + handshake wrapper of
compio-tls, and the flush-before-yield logic of compio-ws."""


class _Base:
    summaries = []
    checker_cmd = ""

    def z3_version(self):
        import z3
        return z3.get_version_string()

    def encoded(self):
        return sorted(self.B.encoded)

    def replay(self, f):
        return None, {"choices": f.trace, "note": "one-call counterexample: the choices give the shim's flags and the answers of the "
                      "transport / the TLS library / the protocol stream; native form of the repaired finding: "
                      "findings/F28_tls_one_shot_handshake_never_flushes_demo.rs"}


class ShimPlan(_Base):
    def prepare(self, tier):
        import dump
        import c15_shim
        p, c = dump.dump_mir("compio-tls", [], tag="compio-tls")
        self.checker_cmd = c + " ;; mirsym/c15_shim.py (ShimModel)"
        self.B = c15_shim.ShimModel(p)
        ShimPlan.summaries = c15_shim.SUMMARY_TEXT

    def checks(self, tier):
        return [("tls." + n, getattr(self.B, "check_" + n)) for n in self.B.CHECKS]

    def bounds(self, tier):
        return {"calls": "1 call of one shim entry point from every state (handshaken x written); the handshake wrapper to completion",
                "transport_polls_per_call": "<= 4", "handshake": "first call: error / done at once / would block; <= 2 continuation polls; "
                "final flush: <= 3 polls"}

    def validate(self, tier):
        """the repo's echo test shape: handshake resumed once (Mid), then finished and flushed"""
        from explore import explore
        import z3
        B = self.B
        seen = []

        def body(p):
            obs = B.check_handshake(p)
            tr = [t for t in p.trace]
            # keep the path Mid -> finished -> flush ok at once
            want = [("first handshake call: error / done at once / would block (Mid)", 2),
                    ("handshake continuation: pending / finished / error", 1), ("TlsStream::flush(): pending / ok / error", 1)]
            if [t for t in tr if t[0] != "something written since the last flush?"] != want:
                from interp import Infeasible
                raise Infeasible()
            seen.append(1)
            return obs
        st, fails = explore("validate.handshake", body)
        dis = 1 if fails or not seen else 0
        return 1, dis, ["the path the repo's compio-tls echo test takes (handshake would block once, is resumed, finishes, final flush "
                        "completes) through the interpreter: stream handed out in finished mode and flushed"]


class WsPlan(_Base):
    def prepare(self, tier):
        import dump
        import c15_shim
        p, c = dump.dump_mir("compio-ws", [], tag="compio-ws")
        self.checker_cmd = c + " ;; mirsym/c15_shim.py (WsModel)"
        self.B = c15_shim.WsModel(p)
        WsPlan.summaries = c15_shim.WS_SUMMARY_TEXT

    def checks(self, tier):
        return [("ws." + n[3:], getattr(self.B, "check_" + n)) for n in self.B.CHECKS]

    def bounds(self, tier):
        return {"calls": "1 poll_next / poll_flush from both states (an item waiting for the flush or not)",
                "answers": "protocol stream: pending / message / error / end; protocol flush and transport flush: pending / ok / error; <= 6 per call"}

    def validate(self, tier):
        return 0, 0, ["no concrete trace: the two functions are 15 lines each and every path is enumerated (21 + 10 paths)"]
