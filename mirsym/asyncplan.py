"""Plan object (for lib/mirprop) of the poll-style adapter (mirsym/c12_asyncstream.py)."""


class AsyncPlan:
    summaries = []
    checker_cmd = ""

    def z3_version(self):
        import z3
        return z3.get_version_string()

    def prepare(self, tier):
        import dump
        import c12_asyncstream
        p, c = dump.dump_mir("compio-io", ["compat"], tag="compio-io-compat")
        self.checker_cmd = c + " ;; mirsym/c12_asyncstream.py"
        self.B = c12_asyncstream.AsyncModel(p, max_polls=2 if tier == "quick" else 3)
        AsyncPlan.summaries = c12_asyncstream.SUMMARY_TEXT

    def checks(self, tier):
        return [("async." + n, getattr(self.B, "check_" + n)) for n in self.B.CHECKS]

    def encoded(self):
        return sorted(self.B.encoded)

    def bounds(self, tier):
        return {"calls": "1 call of one entry point from an arbitrary state",
                "state": "every occupancy of the three waker slots of the half, a future in flight or none (write half: flush or "
                         "shutdown), data buffered or not, unsent bytes or not, closed or not, caller = a new task or the task already "
                         "registered in its slot",
                "future_polls_per_call": self.B.max_polls, "sync_calls_per_call": 4}

    def validate(self, tier):
        """the repo's own test (async_stream::test::close): write, then close, on an idle stream, as concrete paths"""
        from explore import explore
        import z3
        B = self.B
        seen = []

        def body(p):
            # idle write half, buffer accepts: poll_write answers Ready(Ok) at once, no future is built
            W, I = B.mk_world(p, "w")
            obj, sl, wf, sf, closed0 = B.write_obj(p, W)
            if not W.can_write or wf.v.variant == 1 or sf.v.variant == 1 or closed0:
                from interp import Infeasible
                raise Infeasible()
            import c12_asyncstream as m
            from interp import Struct, Cell, Ref
            me = m.TW(9)
            cx = Struct({0: Cell(Ref(Cell(me)))})
            r = I.run_to_end(I.call_fn(B.amethod("AsyncWriteStream", "poll_write"),
                                       [Struct({0: Cell(Ref(Cell(obj)))}), Ref(Cell(cx)), ("caller-bytes",)], p))
            seen.append((r.variant, r.fields[0].v.variant if r.variant == 0 else None, len(W.created)))
            return [("poll_write on an idle stream that accepts: Ready(Ok), no future built",
                     z3.BoolVal(r.variant == 0 and r.fields[0].v.variant == 0 and not W.created))]
        st, fails = explore("validate.async_write", body)
        dis = 1 if fails or not seen else 0
        return 1, dis, ["poll_write on an idle AsyncWriteStream whose buffer accepts (first step of the repo's async_stream::test::close) through "
                        "the interpreter: Ready(Ok) without building a future, for every occupancy of the waker slots (%d paths)" % len(seen)]

    def replay(self, f):
        return None, {"choices": f.trace, "note": "one-call counterexample: the choices give the state (slots, in-flight future, buffered data) "
                      "and the answers of the in-flight future; see compat/async_stream.rs"}
