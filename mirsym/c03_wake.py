"""C03 layer 1 — driver wake-up protocol: a wake from any thread is never lost.

Interpreted from MIR (both drivers): AwakeFlag::{set, reset, wake}, Notify::{reset, set_awake,
wake_by_ref}, Notifier::{reset, set_awake} (io_uring) and the bodies of Driver::poll and
Driver::flush.  Every kernel-facing call inside Driver::poll is summarised (listed in
SUMMARY_TEXT); the blocking wait is the only place the driver thread can park.

Threads: D = the runtime thread (loop: run tasks, Driver::poll(None)), W1..Wk = threads that
make work available and then invoke the driver's waker (Notify::wake_by_ref).  Every atomic
access and every syscall is a scheduling point; all interleavings are explored (sequentially
consistent).  Violation = D parked in the kernel wait forever while work that was published
before by a waker that has returned is still unserviced.
"""
import re

import z3

from interp import Interp, Struct, EnumV, Ref, Cell, UNIT, Unsupported, Infeasible, MirPanic, load
from interp import Path

IDLE, NOTIFIED, AWAKE = 0, 1, 2

SUMMARY_TEXT = [
    "AtomicU8 operations = sequentially consistent read-modify-write steps (the orderings in the source are Release/AcqRel; "
    "weak-memory effects are outside)",
    "io_uring driver: Driver::poll_blocking = arbitrary bool; DriverFlags::contains/remove = arbitrary; push_raw = Ok; "
    "Driver::submit_auto(timeout, need_wait) = if need_wait: park until the eventfd is readable (multishot PollAdd armed), "
    "then Ok or TimedOut; Driver::poll_entries = consumes the eventfd counter if it is set",
    "polling driver: completed_rx.is_empty = arbitrary; Poller::wait(timeout) = parks iff timeout is None until Poller::notify "
    "was called (the notification is consumed by the wait); Events::is_empty / poll_completed / with_events = arbitrary",
    "rustix::io::write(eventfd) / Poller::notify = one syscall step that makes the wait return",
    "the runtime loop around Driver::poll = {service all published work; poll(None)} repeated; timeout None is the worst case",
]


class World:
    def __init__(self):
        self.eventfd = 0          # io_uring: eventfd counter; polling: pending Poller::notify
        self.work = 0             # published, unserviced work items
        self.serviced = 0
        self.events = []


class DriverObj:
    """Lazy struct for `Driver`: fields are created on demand; the notifier field is pre-seeded."""

    def __init__(self, seeded):
        self.cells = dict(seeded)

    def field_cell(self, idx):
        return self.cells.setdefault(idx, Cell(("opaque", "driver-field-%d" % idx)))


class Wake:
    def __init__(self, mir_path, kind):
        self.kind = kind                    # 'iour' | 'poll'
        self.fns, self.consts = load(mir_path)
        self.encoded = set()
        self.full_havoc = True

    # ---- function lookup ---------------------------------------------------------------
    def find(self, file_part, method, self_ty=None):
        c = [f for k, f in self.fns.items() if file_part in k and k.endswith("::" + method)
             and (self_ty is None or re.search(r"_1: &(?:mut )?[\w:<>]*" + self_ty, f.sig))]
        if len(c) != 1:
            raise Unsupported("cannot locate %s::%s in %s (%d candidates)" % (self_ty, method, file_part, len(c)))
        return c[0]

    def resolver(self, callee):
        parts = re.sub(r"::<[^>]*>", "", callee).split("::")
        if len(parts) < 2:
            return None
        ty, meth = parts[-2], parts[-1]
        table = {
            ("AwakeFlag", "set"), ("AwakeFlag", "reset"), ("AwakeFlag", "wake"),
            ("Notifier", "reset"), ("Notifier", "set_awake"), ("Notify", "reset"), ("Notify", "set_awake"),
        }
        if (ty, meth) in table:
            c = [f for k, f in self.fns.items() if k.endswith("::" + meth)
                 and re.search(r"_1: &(?:mut )?[\w:<>]*\b" + ty + r"\b", f.sig)]
            if len(c) == 1:
                return c[0]
            raise Unsupported("ambiguous %s::%s (%d)" % (ty, meth, len(c)))
        return None

    # ---- summaries ----------------------------------------------------------------------
    def summaries(self, W, p):
        kind = self.kind

        def atomic(I, a, path, callee):
            cell = a[0].cell
            op = re.search(r"::(\w+)$", callee).group(1)
            yield ("atomic", op)
            old = cell.v
            if op == "store":
                cell.v = a[1]
                return UNIT
            if op == "swap":
                cell.v = a[1]
                return old
            if op == "fetch_or":
                cell.v = old | a[1]
                return old
            if op == "fetch_and":
                cell.v = old & a[1]
                return old
            if op == "load":
                return old
            if op in ("compare_exchange", "compare_exchange_weak"):
                if path.decide(old == a[1]):
                    cell.v = a[2]
                    return EnumV(0, [Cell(old)])
                return EnumV(1, [Cell(old)])
            raise Unsupported("atomic op " + op)

        def atomic_new(I, a, path, callee):
            return a[0]

        def eventfd_write(I, a, path, callee):
            yield ("syscall", "notify")
            W.eventfd += 1
            return EnumV(0, [Cell(z3.BitVecVal(8, 64))])

        def deref_arc(I, a, path, callee):
            return a[0].cell.v

        def opaque(I, a, path, callee):
            return ("opaque", callee)

        def havoc_bool(I, a, path, callee):
            if not self.full_havoc:
                return z3.BoolVal(False)
            return z3.BoolVal(path.choose(2, callee.split("::")[-1]) == 1)

        def ok_unit(I, a, path, callee):
            return EnumV(0, [Cell(UNIT)])

        def try_branch(I, a, path, callee):
            r = a[0]
            if r.variant == 0:
                return EnumV(0, [Cell(r.fields[0].v if r.fields else UNIT)])       # Continue(v)
            return EnumV(1, [Cell(EnumV(1, r.fields))])                             # Break(Err(e))

        def from_residual(I, a, path, callee):
            return EnumV(1, a[0].fields)

        def is_ok(I, a, path, callee):
            r = a[0].cell.v
            return z3.BoolVal(r.variant == 0)

        def submit_auto(I, a, path, callee):
            need_wait = a[2]
            timeout = a[1]
            unbounded = isinstance(timeout, EnumV) and timeout.variant == 0      # None: may park forever
            nw = path.decide(need_wait) if not isinstance(need_wait, bool) else need_wait
            if nw and unbounded:
                yield ("block", lambda: W.eventfd > 0)
            else:
                yield ("syscall", "enter-nowait")
            if not self.full_havoc or path.choose(2, "submit_auto result") == 0:
                return EnumV(0, [Cell(UNIT)])
            return EnumV(1, [Cell(("opaque", "TimedOut"))])

        def poll_entries(I, a, path, callee):
            if W.eventfd > 0:
                W.eventfd = 0
            return z3.BoolVal(True)

        def poller_wait(I, a, path, callee):
            timeout = a[2]
            blocking = isinstance(timeout, EnumV) and timeout.variant == 0
            if blocking:
                yield ("block", lambda: W.eventfd > 0)
            else:
                yield ("syscall", "wait-nonblocking")
            W.eventfd = 0          # polling's internal notification is consumed by wait
            if not self.full_havoc or path.choose(2, "wait result") == 0:
                return EnumV(0, [Cell(z3.BitVecVal(0, 64))])
            return EnumV(1, [Cell(("opaque", "EINTR"))])

        def option_is_some(I, a, path, callee):
            v = a[0].cell.v
            return z3.BoolVal(v.variant == 1)

        def unit(I, a, path, callee):
            return UNIT

        S = [
            (r"^Atomic::<u8>::new$|AtomicU8::new$", atomic_new),
            (r"^Atomic::<u8>::", atomic),
            (r"rustix::io::write", eventfd_write), (r"^Poller::notify$", eventfd_write),
            (r"as Deref>::deref$", deref_arc),
            (r"to_be_bytes", opaque), (r"Result::<.*>::ok$", opaque),
            (r"Result::<.*>::is_ok$", is_ok),
            (r"as Try>::branch$", try_branch), (r"as FromResidual<.*>>::from_residual$", from_residual),
        ]
        if kind == "iour":
            S += [
                (r"Driver::poll_blocking$", havoc_bool),
                (r"DriverFlags>::contains$", havoc_bool), (r"DriverFlags>::(?:remove|insert)$", unit),
                (r"as_raw_fd$", opaque), (r"^io_uring::", opaque), (r"as Into<.*>>::into$", opaque),
                (r"Driver::push_raw$", ok_unit),
                (r"Driver::submit_auto$", submit_auto),
                (r"Driver::poll_entries$", poll_entries),
            ]
        else:
            S += [
                (r"Receiver::<.*>::is_empty$", havoc_bool), (r"Option::<.*Duration>::is_some$", option_is_some),
                (r"Events::clear$", unit), (r"Events::is_empty$", havoc_bool),
                (r"^Poller::wait$", poller_wait),
                (r"Driver::poll_completed$", havoc_bool),
                (r"Driver::with_events", ok_unit),
                (r"from_raw_os_error", opaque),
            ]
        return S

    # ---- objects --------------------------------------------------------------------------
    def mk_driver(self, init_flag):
        flag = Struct({0: Cell(z3.BitVecVal(init_flag, 8))})
        notify = Struct({0: Cell(("opaque", "fd")), 1: Cell(flag)})
        arc = Ref(Cell(notify))
        if self.kind == "iour":
            poll_fn = self.find("iour/mod.rs", "poll", "Driver")
            notifier = Struct({0: Cell(arc)})
            seeded = {}
            for idx, ty in self.field_types(poll_fn):
                if ty.endswith("Notifier"):
                    seeded[idx] = Cell(notifier)
        else:
            poll_fn = self.find("poll/mod.rs", "poll", "Driver")
            seeded = {}
            for idx, ty in self.field_types(poll_fn):
                if "Arc<" in ty and "Notify" in ty:
                    seeded[idx] = Cell(arc)
        if not seeded:
            raise Unsupported("cannot find the notifier field of Driver in the MIR of poll")
        return DriverObj(seeded), arc, flag

    @staticmethod
    def field_types(fn):
        out = set()
        for stmts in fn.blocks.values():
            for s in stmts:
                for m in re.finditer(r"\(\(\*_1\)\.(\d+): ([^()]+(?:\([^()]*\))?[^()]*)\)", s):
                    out.add((int(m.group(1)), m.group(2).strip()))
        return sorted(out)

    # ---- one schedule -----------------------------------------------------------------------
    def run_schedule(self, path, wakers, iterations, init_flag, mode):
        W = World()
        I = Interp(self.fns, self.consts, self.summaries(W, path), resolver=self.resolver)
        drv, arc, flag = self.mk_driver(init_flag)
        file_part = "iour/mod.rs" if self.kind == "iour" else "poll/mod.rs"
        poll_fn = self.find(file_part, "poll", "Driver")
        flush_fn = self.find(file_part, "flush", "Driver")
        if self.kind == "iour":
            wake_fn = self.find("iour/notify.rs", "wake_by_ref")
        else:
            wake_fn = self.find("poll/mod.rs", "wake_by_ref")
        drv_ref = Ref(Cell(drv))

        def waker(i):
            yield ("step", "publish")
            W.work += 1
            yield from I.call_fn(wake_fn, [Ref(Cell(arc))], path)
            yield ("done", "waker%d" % i)

        def runtime():
            for it in range(iterations):
                yield ("step", "service")
                W.serviced += W.work
                W.work = 0
                if mode == "poll":
                    yield from I.call_fn(poll_fn, [drv_ref, EnumV(0)], path)
                else:
                    # external event loop: flush(); if it reports "not notified", wait on the driver fd
                    notified = yield from I.call_fn(flush_fn, [drv_ref], path)
                    if not path.decide(notified):
                        yield ("block", lambda: W.eventfd > 0)
                    yield from I.call_fn(poll_fn, [drv_ref, EnumV(1, [Cell(("opaque", "ZERO"))])], path)
            yield ("done", "runtime")

        threads = {"D": runtime()}
        for i in range(wakers):
            threads["W%d" % (i + 1)] = waker(i + 1)
        blocked = {}
        alive = set(threads)
        verdict = "ok"
        steps = 0
        last_run = None
        preemptions = 0
        while alive:
            runnable = [t for t in sorted(alive) if t not in blocked or blocked[t]()]
            if not runnable:
                # everything that is left is parked
                if "D" in alive and W.work > 0:
                    verdict = "lost"
                break
            pb = getattr(self, "preempt_bound", None)
            if pb is not None and last_run in runnable and preemptions >= pb:
                t = last_run                     # context bound reached: the running thread keeps the CPU
            else:
                i = path.choose(len(runnable), "sched")
                t = runnable[i]
                if last_run in runnable and t != last_run:
                    preemptions += 1
            last_run = t
            blocked.pop(t, None)
            try:
                ev = next(threads[t])
            except StopIteration:
                alive.discard(t)
                continue
            steps += 1
            path.trace.append((t, ev[0], ev[1] if ev[0] != "block" else "park in kernel wait"))
            if ev[0] == "block":
                blocked[t] = ev[1]
            if ev[0] == "done":
                alive.discard(t)
        self.encoded |= I.called
        return verdict, steps


def explore_schedules(wk, wakers, iterations, init_flag, mode, seed=0, max_paths=400000, full_havoc=True, preempt_bound=None):
    """DFS over all decision vectors (scheduler choices, summary nondeterminism, symbolic branches)."""
    from explore import _expand
    stack = [[]]
    npaths = steps = queries = 0
    lost = None
    wk.full_havoc = full_havoc
    wk.preempt_bound = preempt_bound
    while stack:
        dec = stack.pop()
        p = Path(dec, seed)
        try:
            verdict, st = wk.run_schedule(p, wakers, iterations, init_flag, mode)
        except Infeasible:
            _expand(stack, dec, p, upto=p.pos)
            continue
        npaths += 1
        steps += st
        queries += p.queries
        if npaths > max_paths:
            raise Unsupported("schedule bound exceeded")
        _expand(stack, dec, p, upto=len(p.decisions))
        if verdict == "lost" and lost is None:
            lost = list(p.trace)
            break
    return npaths, steps, queries, lost
