"""C03 layer 2 — executor cross-thread queue: a remote wake always leads to another poll of the task.

Interpreted from the MIR of compio-executor: Remote::schedule, Remote::header, Shared::drain_sync,
State::{start_scheduling, finish_scheduling, unschedule, load}, Snapshot::is_*.
Summaries: ArrayQueue<TaskId> = bounded FIFO (capacity 1 or 2) whose push/pop are single atomic
steps; TaskQueue::make_hot = insertion into the hot set; shared.waker.wake_by_ref() = the driver
wake-up of layer 1 (sets WOKEN, which un-parks the executor thread); yield_now/spin = a scheduling
point that waits for the queue to have room.

Threads: R1..Rk on other threads: {publish work for task i; Remote::schedule(task i)};
E = the runtime thread: loop {drain_sync; run every hot task: State::unschedule, poll (consumes the
published work); if nothing is hot and no wake-up is pending: park until the driver waker fires}.
The initial task state word (flags + reference count) is symbolic, constrained to the states in
which a remote wake can legitimately happen.  Checked on every interleaving:
  * never `pending < queue length`, never a wrapped `pending` (the consumer's fetch_sub cannot underflow);
  * the driver waker is invoked only after the id is in the queue (push happens-before wake);
  * no lost wake-up: E never stays parked while published work of a returned waker is unpolled.
"""
import re

import z3

from interp import Interp, Struct, EnumV, Ref, Cell, UNIT, Unsupported, Infeasible, MirPanic, load, Path

SUMMARY_TEXT = [
    "crossbeam ArrayQueue<TaskId> = bounded FIFO, push/pop atomic (its internals are trusted)",
    "TaskQueue::make_hot(id) = id joins the hot set; the executor runs every hot task once per tick",
    "shared.waker = Some(driver waker); wake_by_ref = one step that un-parks the executor thread (layer 1)",
    "yield_now() = scheduling point, the spinning waker continues once the queue has room",
    "atomics sequentially consistent (orderings in the source: Acquire/Release/AcqRel)",
    "Task::run is represented by its first effect State::unschedule (interpreted) followed by an abstract poll that "
    "consumes the published work",
]

SCHEDULED, SCHEDULING, NOT_SETTING_WAKER, HAS_WAKER, COMPLETED, HAS_RESULT, NOT_CANCELLED = (1 << i for i in range(7))


class Lazy:
    def __init__(self, seeded, name):
        self.cells = dict(seeded)
        self.name = name

    def field_cell(self, idx):
        return self.cells.setdefault(idx, Cell(("opaque", "%s-field-%d" % (self.name, idx))))


class FifoQ:
    def __init__(self, cap):
        self.cap = cap
        self.items = []


class Exec:
    def __init__(self, mir_path):
        self.fns, self.consts = load(mir_path)
        self.encoded = set()

    def find(self, file_part, method, arg_ty=None):
        c = [f for k, f in self.fns.items() if file_part in k and k.endswith("::" + method)
             and (arg_ty is None or arg_ty in f.sig)]
        if len(c) != 1:
            raise Unsupported("cannot locate %s in %s (%d candidates)" % (method, file_part, len(c)))
        return c[0]

    def resolver(self, callee):
        clean = re.sub(r"::<[^>]*>", "", callee)
        parts = clean.split("::")
        if len(parts) < 2:
            return None
        ty, meth = parts[-2], parts[-1]
        if ty == "Shared" and meth == "drain_sync":
            return self.find("src/lib.rs", "drain_sync")
        where = {"State": "task/state.rs", "Snapshot": "task/state.rs", "Remote": "task/remote.rs", "Local": "task/local.rs"}
        if ty in where:
            c = [f for k, f in self.fns.items() if where[ty] in k and k.endswith("::" + meth)
                 and re.search(r"_1: &(?:mut )?" + ty, f.sig)]
            if len(c) == 1:
                return c[0]
            raise Unsupported("ambiguous %s::%s (%d)" % (ty, meth, len(c)))
        return None

    @staticmethod
    def field_index(fn, local_ty_part, ty_part):
        """index of the field of type containing `ty_part` in projections of this function"""
        for stmts in fn.blocks.values():
            for s in stmts:
                for m in re.finditer(r"\(\(\*_\d+\)\.(\d+): ([^()]+(?:\([^()]*\))?[^()]*)\)", s):
                    if re.fullmatch(ty_part, m.group(2).strip()):
                        return int(m.group(1))
        raise Unsupported("no field of type %s in %s" % (ty_part, fn.name))

    def summaries(self, W):
        def atomic(I, a, path, callee):
            cell = a[0].cell
            op = re.search(r"::(\w+)$", callee).group(1)
            if "*mut Shared" not in callee:
                # the task's `shared` pointer only changes in Task::drop (not part of this model)
                yield ("atomic", op)
            old = cell.v
            if op == "store":
                cell.v = a[1]
                return UNIT
            if op == "load":
                return old
            if op == "fetch_or":
                cell.v = old | a[1]
            elif op == "fetch_and":
                cell.v = old & a[1]
            elif op == "fetch_add":
                cell.v = old + a[1]
                if cell is W.pending:
                    W.check_pending(path, "after fetch_add")
            elif op == "fetch_sub":
                if cell is W.pending:
                    if path.decide(z3.ULT(old, a[1])):
                        W.violation = "pending counter underflow: fetch_sub(%s) on %s" % (a[1], old)
                cell.v = old - a[1]
            elif op == "swap":
                cell.v = a[1]
            else:
                raise Unsupported("atomic op " + op)
            return old

        def nn_as_ref(I, a, path, callee):
            v = a[0]
            if isinstance(v, Ref) and isinstance(v.cell.v, Ref):
                return v.cell.v
            return v

        def ptr_as_ref(I, a, path, callee):
            v = a[0]
            if isinstance(v, tuple) and v[0] == "null":
                return EnumV(0)
            return EnumV(1, [Cell(v)])

        def ptr_is_null(I, a, path, callee):
            v = a[0]
            return z3.BoolVal(isinstance(v, tuple) and v[0] == "null")

        def q_push(I, a, path, callee):
            q = a[0].cell.v
            yield ("atomic", "queue.push")
            if len(q.items) < q.cap:
                q.items.append(a[1])
                W.check_pending(path, "after push")
                return EnumV(0, [Cell(UNIT)])
            return EnumV(1, [Cell(a[1])])

        def q_pop(I, a, path, callee):
            q = a[0].cell.v
            yield ("atomic", "queue.pop")
            if q.items:
                return EnumV(1, [Cell(q.items.pop(0))])
            return EnumV(0)

        def is_err(I, a, path, callee):
            return z3.BoolVal(a[0].cell.v.variant == 1)

        def make_hot(I, a, path, callee):
            W.hot.append(a[1])
            return UNIT

        def wake_driver(I, a, path, callee):
            yield ("step", "driver-waker.wake_by_ref")
            # the id must already be visible to the consumer, or the waker must keep trying
            W.wakes.append(list(W.queue.items))
            W.woken = True
            return UNIT

        def yield_now(I, a, path, callee):
            yield ("block", lambda: len(W.queue.items) < W.queue.cap)
            return UNIT

        def guard(I, a, path, callee):
            return ("opaque", "panic-guard")

        return [
            (r"^Atomic::<.*>::", atomic),
            (r"NonNull::<.*>::as_ref", nn_as_ref), (r"<impl \*mut Shared>::as_ref", ptr_as_ref),
            (r"<impl \*mut Shared>::is_null", ptr_is_null),
            (r"ArrayQueue::<TaskId>::push$", q_push), (r"ArrayQueue::<TaskId>::pop$", q_pop),
            (r"Result::<\(\), TaskId>::is_err$", is_err),
            (r"TaskQueue::make_hot$", make_hot),
            (r"SendWrapper::<TaskQueue>::get_unchecked$", lambda I, a, path, callee: ("opaque", "task-queue")),
            (r"^Waker::wake_by_ref$", wake_driver),
            (r"^yield_now$|hint::spin_loop$", yield_now),
            (r"AbortOnPanic", guard),
        ]

    def run_schedule(self, path, n_remote, cap, iterations, same_task, preempt_bound=None, n_local=0):
        W = type("W", (), {})()
        W.violation = None
        W.hot = []
        W.woken = False
        W.wakes = []
        W.queue = FifoQ(cap)
        W.pending = Cell(z3.BitVecVal(0, 64))

        def check_pending(p, when):
            if p.decide(z3.ULT(W.pending.v, z3.BitVecVal(len(W.queue.items), 64))):
                W.violation = "pending counter below the number of queued ids %s" % when
        W.check_pending = check_pending

        I = Interp(self.fns, self.consts, self.summaries(W), resolver=self.resolver)
        sched_fn = self.find("task/remote.rs", "schedule", "Remote")
        drain_fn = self.find("src/lib.rs", "drain_sync")
        unsched_fn = self.find("task/state.rs", "unschedule")
        # objects (field indices are read off the MIR, robust to field reordering)
        i_state = self.field_index(sched_fn, "Header", r"task::state::State")
        i_shared = self.field_index(sched_fn, "Header", r".*Atomic<\*mut Shared>")
        i_id = self.field_index(sched_fn, "Header", r"queue::TaskId")
        i_waker = self.field_index(sched_fn, "Shared", r".*Option<std::task::Waker>")
        i_sync = self.field_index(sched_fn, "Shared", r".*ArrayQueue<.*>")
        i_pending = self.field_index(sched_fn, "Shared", r".*Atomic<usize>")
        shared = Lazy({i_waker: Cell(EnumV(1, [Cell(("waker", "driver"))])), i_sync: Cell(W.queue),
                       i_pending: W.pending}, "Shared")
        shared_ref = Ref(Cell(shared))
        n_tasks = 1 if same_task else n_remote
        tasks = []
        for t in range(n_tasks):
            # arbitrary state in which the task sits cold and a waker exists: not scheduled / scheduling,
            # not completed, not cancelled; other flags and the reference count are free
            st = z3.BitVec("state%d" % t, 64)
            path.assume(st & (SCHEDULED | SCHEDULING | COMPLETED | HAS_RESULT) == 0)
            path.assume(st & NOT_CANCELLED != 0)
            path.assume(z3.UGE(z3.LShR(st, 7), 2))
            state = Struct({0: Cell(st)})
            header = Lazy({i_state: Cell(state), i_shared: Cell(shared_ref), i_id: Cell(("task", t))}, "Header")
            tasks.append(dict(header=header, state=state, work=False, polls_after_publish=0, published=0))

        def remote(i, t):
            path.trace.append(("R%d" % i, "step", "publish work for task %d" % t))
            tasks[t]["work"] = True
            tasks[t]["published"] += 1
            rem = Struct({0: Cell(Ref(Cell(tasks[t]["header"])))})
            yield from I.call_fn(sched_fn, [Ref(Cell(rem))], path)
            tasks[t]["returned"] = True

        W.e_parked = False
        local_sched_fn = self.find("task/local.rs", "schedule", "Local") if n_local else None

        def local(t):
            # external-loop mode (compio-compat, custom loops on the driver fd): while compio waits for its fd, the foreign
            # loop runs other code on the *same* thread, which wakes a compio task through its (local) waker
            yield ("block", lambda: W.e_parked)
            path.trace.append(("F", "step", "publish work for task %d (same thread, foreign loop)" % t))
            tasks[t]["work"] = True
            tasks[t]["published"] += 1
            loc = Struct({0: Cell(Ref(Cell(tasks[t]["header"])))})
            yield from I.call_fn(local_sched_fn, [Ref(Cell(loc))], path)
            tasks[t]["returned"] = True

        def executor():
            for it in range(iterations):
                yield from I.call_fn(drain_fn, [shared_ref, ("opaque", "task-queue")], path)
                while W.hot:
                    tid = W.hot.pop(0)
                    t = tid[1]
                    yield from I.call_fn(unsched_fn, [Ref(Cell(tasks[t]["state"]))], path)
                    yield ("step", "poll task %d" % t)
                    tasks[t]["work"] = False
                # nothing hot: park unless a wake-up is pending
                if not W.woken:
                    W.e_parked = True
                    yield ("block", lambda: W.woken)
                    W.e_parked = False
                W.woken = False

        threads = {"E": executor()}
        for i in range(n_remote):
            threads["R%d" % (i + 1)] = remote(i + 1, 0 if same_task else i)
        if n_local:
            threads["F"] = local(0)
        blocked = {}
        alive = set(threads)
        verdict = "ok"
        steps = 0
        last_run = None
        preemptions = 0
        while alive:
            if W.violation:
                verdict = W.violation
                break
            runnable = [t for t in sorted(alive) if t not in blocked or blocked[t]()]
            if not runnable:
                if "E" in alive and any(t["work"] for t in tasks):
                    verdict = "lost wake-up: executor parked, published work of a returned waker never polled"
                elif any(k.startswith("R") for k in alive):
                    verdict = "remote waker spins forever on a full queue while the executor is parked"
                break
            if preempt_bound is not None and last_run in runnable and preemptions >= preempt_bound:
                th = last_run                      # context bound reached: the running thread keeps the CPU
            else:
                i = path.choose(len(runnable), "sched")
                th = runnable[i]
                if last_run in runnable and th != last_run:
                    preemptions += 1
            last_run = th
            blocked.pop(th, None)
            try:
                ev = next(threads[th])
            except StopIteration:
                alive.discard(th)
                continue
            steps += 1
            path.trace.append((th, ev[0], ev[1] if ev[0] != "block" else "park/spin"))
            if ev[0] == "block":
                blocked[th] = ev[1]
            if ev[0] == "done":
                alive.discard(th)
        if verdict == "ok" and W.violation:
            verdict = W.violation
        self.encoded |= I.called
        return verdict, steps


def explore_schedules(ex, n_remote, cap, iterations, same_task, seed=0, max_paths=400000, preempt_bound=None, n_local=0):
    from explore import _expand
    stack = [[]]
    npaths = steps = queries = 0
    bad = None
    while stack:
        dec = stack.pop()
        p = Path(dec, seed)
        try:
            verdict, st = ex.run_schedule(p, n_remote, cap, iterations, same_task, preempt_bound, n_local)
        except Infeasible:
            _expand(stack, dec, p, upto=p.pos)
            continue
        npaths += 1
        steps += st
        queries += p.queries
        if npaths > max_paths:
            raise Unsupported("schedule bound exceeded")
        _expand(stack, dec, p, upto=len(p.decisions))
        if verdict != "ok" and bad is None:
            bad = (verdict, list(p.trace))
            break
    return npaths, steps, queries, bad
