"""Replay-based DFS over decision vectors + proof obligations at the end of each path."""
import os
import subprocess
import time

import z3

from interp import Path, Infeasible, MirPanic, Unsupported


class Failure:
    def __init__(self, check, label, model, trace, decisions, kind="obligation"):
        self.check = check
        self.label = label
        self.model = model      # dict name -> value (python int / bool / str)
        self.trace = trace
        self.decisions = decisions
        self.kind = kind

    def key(self):
        return "%s | %s" % (self.check, self.label)


class Stats:
    def __init__(self):
        self.paths = 0
        self.infeasible = 0
        self.queries = 0
        self.obligations = 0
        self.discharged = 0
        self.solver_s = 0.0
        self.steps = 0
        self.smt2 = []     # (label, text) for cross-checking with a second solver


def model_dict(m):
    out = {}
    for d in m.decls():
        v = m[d]
        try:
            if z3.is_bv_value(v):
                out[d.name()] = v.as_long()
            elif z3.is_true(v) or z3.is_false(v):
                out[d.name()] = bool(z3.is_true(v))
            else:
                out[d.name()] = str(v)
        except Exception:
            out[d.name()] = str(v)
    return out


def explore(check_name, body, seed=0, max_paths=20000, keep_smt2=False, stop_at_first=False):
    """body(path) -> list of (label, z3 Bool) that must hold on that path.
    A reachable MIR panic inside body is itself a failure.  Returns (Stats, [Failure])."""
    st = Stats()
    fails = []
    stack = [[]]
    seen_fail = set()
    while stack:
        dec = stack.pop()
        p = Path(dec, seed)
        panic = None
        try:
            obligations = body(p)
        except Infeasible:
            st.infeasible += 1
            st.queries += p.queries
            st.solver_s += p.solver_s
            # alternatives of the decisions this run added (including the infeasible one itself:
            # its other branch is feasible) still need exploring
            _expand(stack, dec, p, upto=p.pos)
            continue
        except MirPanic as e:
            panic = str(e)
            obligations = []
        st.paths += 1
        if st.paths > max_paths:
            raise Unsupported("path bound exceeded in " + check_name)
        st.queries += p.queries
        st.solver_s += p.solver_s
        _expand(stack, dec, p, upto=len(p.decisions))
        if panic is not None:
            t0 = time.time()
            r = p.solver.check()
            st.solver_s += time.time() - t0
            st.queries += 1
            if r == z3.sat:
                f = Failure(check_name, "panic: " + panic, model_dict(p.solver.model()), list(p.trace),
                            list(p.decisions), kind="panic")
                if f.key() not in seen_fail:
                    seen_fail.add(f.key())
                    fails.append(f)
            continue
        for lab, ob in obligations:
            st.obligations += 1
            if isinstance(ob, bool):
                ob = z3.BoolVal(ob)
            p.solver.push()
            p.solver.add(z3.Not(ob))
            text = p.solver.to_smt2() if keep_smt2 else None
            t0 = time.time()
            r = p.solver.check()
            st.solver_s += time.time() - t0
            st.queries += 1
            if r == z3.unsat:
                st.discharged += 1
                if keep_smt2 and len(st.smt2) < 600:
                    # only discharged obligations go to the second solver (a failing one is reported as such, not re-asked)
                    st.smt2.append((check_name + ": " + lab, text))
            elif r == z3.sat:
                f = Failure(check_name, lab, model_dict(p.solver.model()), list(p.trace), list(p.decisions))
                if f.key() not in seen_fail:
                    seen_fail.add(f.key())
                    fails.append(f)
            else:
                raise Unsupported("solver returned unknown for obligation " + lab)
            p.solver.pop()
        if stop_at_first and fails:
            break
    return st, fails


def _expand(stack, prefix, p, upto):
    """Push the unexplored alternatives of the decisions this run *added* beyond `prefix`."""
    for i in range(len(prefix), min(upto, len(p.decisions))):
        cur = p.decisions[i]
        if cur is True:
            stack.append(p.decisions[:i] + [False])
        elif isinstance(cur, tuple) and cur[0] == "c":
            _, k, n = cur
            for alt in range(k + 1, n):
                stack.append(p.decisions[:i] + [("c", alt, n)])


def cross_check(smt2_items, solver="cvc5", limit=None, timeout_s=60):
    """Re-run obligation queries (expected unsat) on a second solver. Returns (checked, disagreements, errors)."""
    checked = dis = errs = 0
    items = smt2_items if limit is None else smt2_items[:limit]
    for lab, text in items:
        if solver == "cvc5":
            cmd = ["cvc5", "--lang", "smt2", "--tlimit=%d" % (timeout_s * 1000)]
        else:
            cmd = ["/usr/bin/z3", "-in", "-T:%d" % timeout_s]
        body = text
        if "(check-sat)" not in body:
            body += "\n(check-sat)\n"
        try:
            r = subprocess.run(cmd, input=body, stdout=subprocess.PIPE, stderr=subprocess.STDOUT, text=True,
                               timeout=timeout_s + 10)
        except subprocess.TimeoutExpired:
            errs += 1
            continue
        out = r.stdout.strip().splitlines()
        if any("(error" in l for l in out):
            errs += 1
            continue
        verdict = out[-1].strip() if out else ""
        checked += 1
        if verdict != "unsat":
            dis += 1
    return checked, dis, errs
