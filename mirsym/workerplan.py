"""Plan object (for lib/mirprop) of the dispatcher worker-loop / task-wrapper check (mirsym/c18_worker.py)."""


class WorkerPlan:
    summaries = []
    checker_cmd = ""

    def z3_version(self):
        import z3
        return z3.get_version_string()

    def prepare(self, tier):
        import dump
        import c18_worker
        p, c = dump.dump_mir("compio-dispatcher", [], tag="compio-dispatcher")
        self.checker_cmd = c + " ;; mirsym/c18_worker.py"
        q = tier == "quick"
        self.B = c18_worker.WorkerModel(p, max_tasks=3 if q else 4, max_pending=2 if q else 3)
        WorkerPlan.summaries = c18_worker.SUMMARY_TEXT

    def checks(self, tier):
        return [("dispatcher." + n, getattr(self.B, "check_" + n)) for n in self.B.CHECKS]

    def encoded(self):
        return sorted(self.B.encoded)

    def bounds(self, tier):
        return {"tasks taken by one worker": "<= %d" % self.B.max_tasks, "Pending answers (channel, join handle, user future)": "<= %d" % self.B.max_pending,
                "modes": "sequential and concurrent", "run": "the worker's async block from start until it leaves its loop"}

    def validate(self, tier):
        return 0, 0, ["no concrete trace: the loop is ten lines and every path within the bounds is enumerated (429 + 6 paths quick); the repo's "
                      "dispatcher tests need OS threads and whole runtimes"]

    def replay(self, f):
        return None, {"choices": f.trace, "note": "counterexample = mode + the answers of the channel, the join handles and the user future"}
