"""C04, the JoinHandle wrapper above the task layer: `JoinHandle::{poll, detach}` and its `Drop`, interpreted from MIR with
`Task::poll` / `Task::cancel` summarised by what c04_task.py checks about them (poll answers Pending, Ready(Some(Ok(v))),
Ready(Some(Err(panic))) or Ready(None); cancel(drop_result) is recorded) and the drop of a `Task` value counted.

Obligations: a Pending poll keeps the task; a Ready poll maps Some(Ok(v)) -> Ok(v), Some(Err(p)) -> Err(Panicked(p)),
None -> Err(Cancelled), clears the handle and releases its task reference exactly once; dropping a handle that still
holds its task cancels it with drop_result = true, exactly once, and a handle that already completed cancels nothing;
detach cancels nothing and releases the reference exactly once.
"""
import re

import z3

from interp import Interp, Struct, EnumV, Ref, Cell, UNIT, Unsupported, MirPanic, load, Path

SUMMARY_TEXT = [
    "Task::poll = Pending | Ready(Some(Ok(v))) | Ready(Some(Err(p))) | Ready(None) (its own guarantees: c04_task.py); "
    "Task::cancel(drop_result) recorded; drop of a Task value = release of one reference, counted",
]


class HandleModel:
    def __init__(self, mir_path):
        self.fns, self.consts = load(mir_path)
        self.encoded = set()

    def F(self, name, sig_pat):
        c = [f for k, f in self.fns.items() if k.startswith("join_handle::") and k.endswith("::" + name) and re.search(sig_pat, f.sig)]
        if len(c) != 1:
            raise Unsupported("cannot locate JoinHandle::%s (%d candidates)" % (name, len(c)))
        return c[0]

    def world(self, p):
        W = type("W", (), {})()
        W.cancels, W.task_drops, W.task_polls = [], 0, 0
        W.answer = None

        def is_task_opt(v):
            return isinstance(v, EnumV) and v.variant == 1 and v.fields and v.fields[0].v == ("task",)

        def s_task_poll(I, a, pth, c):
            W.task_polls += 1
            k = pth.choose(4, "Task::poll answer")
            W.answer = k
            if k == 0:
                return EnumV(1)
            if k == 1:
                return EnumV(0, [Cell(EnumV(1, [Cell(EnumV(0, [Cell(("output",))]))]))])
            if k == 2:
                return EnumV(0, [Cell(EnumV(1, [Cell(EnumV(1, [Cell(("panic-payload",))]))]))])
            return EnumV(0, [Cell(EnumV(0))])

        def s_cancel(I, a, pth, c):
            W.cancels.append(a[1])
            return UNIT

        def s_as_ref(I, a, pth, c):
            ev = a[0].cell.v
            return EnumV(1, [Cell(Ref(ev.fields[0]))]) if ev.variant == 1 else EnumV(0)

        def s_expect(I, a, pth, c):
            ev = a[0]
            if ev.variant == 0:
                raise MirPanic("expect on None: " + str(a[1]))
            return ev.fields[0].v

        def s_pin_get(I, a, pth, c):
            v = a[0].cell.v if isinstance(a[0], Ref) else a[0]
            return v.f[0].v

        def s_identity(I, a, pth, c):
            return a[0]

        def s_drop_in_place(I, a, pth, c):
            v = a[0].cell.v if isinstance(a[0], Ref) else a[0]
            if is_task_opt(v):
                W.task_drops += 1
                a[0].cell.v = EnumV(0)
            return UNIT

        def s_mdrop_deref(I, a, pth, c):
            v = a[0]
            return v if isinstance(v.cell.v, Struct) else Ref(Cell(v.cell.v))

        def s_manually_new(I, a, pth, c):
            return a[0]

        S = [
            (r"^Task::poll::<", s_task_poll), (r"^Task::cancel$", s_cancel),
            (r"^Option::<Task>::as_ref$", s_as_ref), (r"^Option::<&Task>::expect$", s_expect),
            (r"^<Pin<.*> as Deref(?:Mut)?>::deref(?:_mut)?$", s_pin_get),
            (r"^ManuallyDrop::<.*>::new$", s_manually_new),
            (r"^<ManuallyDrop<.*> as Deref(?:Mut)?>::deref(?:_mut)?$", s_mdrop_deref), (r"^drop_in_place::<Option<Task>>$", s_drop_in_place),
        ]
        I = Interp(self.fns, self.consts, S)

        def drop_hook(I_, v, pth, ty):
            if is_task_opt(v) or v == ("task",):
                W.task_drops += 1
            return None
        I.drop_hook = drop_hook
        I.enums = dict(I.enums)
        I.enums["JoinError"] = {"Cancelled": 0, "Panicked": 1}
        return W, I

    def handle(self, has_task=True):
        return Struct({0: Cell(EnumV(1, [Cell(("task",))]) if has_task else EnumV(0)), 1: Cell(("phantom",))})

    def check_poll(self, p):
        W, I = self.world(p)
        h = self.handle()
        pinned = Struct({0: Cell(Ref(Cell(h)))})
        r = I.run_to_end(I.call_fn(self.F("poll", r"_1: Pin<&mut join_handle::JoinHandle<T>>"), [pinned, Ref(Cell(("ctx",)))], p))
        self.encoded |= I.called
        obs = [("the task is polled exactly once per poll of the handle", z3.BoolVal(W.task_polls == 1)),
               ("polling never cancels", z3.BoolVal(W.cancels == []))]
        held = h.f[0].v.variant == 1
        if W.answer == 0:
            obs += [("Pending: the handle stays Pending and keeps its task", z3.BoolVal(r.variant == 1 and held and W.task_drops == 0))]
        else:
            obs.append(("Ready: the handle lets go of its task reference exactly once and holds nothing afterwards",
                        z3.BoolVal(r.variant == 0 and not held and W.task_drops == 1)))
            if r.variant == 0:
                res = r.fields[0].v
                if W.answer == 1:
                    obs.append(("the task's output is delivered as Ok(output)", z3.BoolVal(res.variant == 0 and res.fields[0].v == ("output",))))
                elif W.answer == 2:
                    ok = res.variant == 1 and res.fields[0].v.variant == 1 and res.fields[0].v.fields[0].v == ("panic-payload",)
                    obs.append(("a panic is delivered as Err(Panicked(payload))", z3.BoolVal(bool(ok))))
                else:
                    obs.append(("a cancelled task is reported as Err(Cancelled)", z3.BoolVal(res.variant == 1 and res.fields[0].v.variant == 0)))
        return obs

    def check_drop(self, p):
        W, I = self.world(p)
        has = p.choose(2, "handle still holds its task?") == 1
        h = self.handle(has)
        I.run_to_end(I.call_fn(self.F("drop", r"_1: &mut join_handle::JoinHandle<T>"), [Ref(Cell(h))], p))
        self.encoded |= I.called
        if has:
            return [("dropping a live handle cancels its task, asking for the result to be dropped, exactly once",
                     z3.BoolVal(len(W.cancels) == 1 and z3.is_true(z3.simplify(W.cancels[0]))))]
        return [("dropping a completed handle cancels nothing", z3.BoolVal(W.cancels == []))]

    def check_detach(self, p):
        W, I = self.world(p)
        h = self.handle()
        I.run_to_end(I.call_fn(self.F("detach", r"_1: join_handle::JoinHandle<T>"), [h], p))
        self.encoded |= I.called
        return [("detach cancels nothing", z3.BoolVal(W.cancels == [])),
                ("detach releases the handle's task reference exactly once", z3.BoolVal(W.task_drops == 1))]

    CHECKS = ["poll", "drop", "detach"]
