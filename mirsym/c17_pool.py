"""C17 — the blocking pool is bounded and loses nothing.

Interpreted from the MIR of compio-driver/src/asyncify.rs: AsyncifyPool::dispatch, worker,
worker::{closure#0}, <CounterGuard as Drop>::drop.
Summaries: flume's rendezvous channel (`bounded(0)`): try_send succeeds iff a receiver is parked in
recv_timeout; send parks until a receiver takes the value; recv_timeout takes a waiting sender's
value, else parks until a value arrives or the timeout fires (any time); thread::spawn = a new
logical thread running the closure's MIR; Box / Arc plumbing = identity; `dyn Dispatchable::run` =
the job body: marks the job as running for one visible step.

Threads: 1-2 dispatching threads (two runtimes sharing a pool), each submitting jobs through
`dispatch` with the driver's retry loop shape (`while let Err(e) = dispatch(job) { job = e.0;
yield }`, bounded retries), plus every worker that gets spawned.  All interleavings by DFS.
Checked: jobs running at once <= thread_limit; every job whose dispatch returned Ok runs exactly
once; a rejected job is handed back intact and never runs on its own; no dispatcher is stuck; a job
dispatched after all workers retired still runs.
"""
import re

import z3

from interp import strip_generics, MirUnwind, Interp, Struct, EnumV, Ref, Cell, UNIT, Unsupported, Infeasible, MirPanic, load, Path

SUMMARY_TEXT = [
    "flume bounded(0) channel: try_send Ok iff a receiver is parked; send blocks until taken; recv_timeout parks until a "
    "value arrives or its timeout fires (nondeterministic)",
    "std::thread::spawn(closure) = new logical thread interpreting worker::{closure#0}",
    "Box::new / into_raw / cast / from_raw, Arc::clone / deref, Receiver::clone = identity plumbing",
    "<dyn Dispatchable>::run(job) = job body: one visible step during which the job counts as running",
    "atomics sequentially consistent",
]


class Lazy:
    def __init__(self, seeded, name):
        self.cells = dict(seeded)
        self.name = name

    def field_cell(self, idx):
        return self.cells.setdefault(idx, Cell(("opaque", "%s-field-%d" % (self.name, idx))))


class Pool:
    def __init__(self, mir_path):
        self.fns, self.consts = load(mir_path)
        self.encoded = set()

    def find(self, suffix, sig_part=None):
        c = [f for k, f in self.fns.items() if "asyncify" in k + f.sig and k.endswith(suffix)
             and (sig_part is None or sig_part in f.sig)]
        if len(c) != 1:
            c2 = [f for k, f in self.fns.items() if k == suffix.lstrip(":")]
            if len(c2) == 1:
                return c2[0]
            raise Unsupported("cannot locate %s (%d candidates)" % (suffix, len(c)))
        return c[0]

    def resolver(self, callee):
        if callee == "worker":
            return self.fns.get("worker")
        return None

    @staticmethod
    def field_index(fn, ty_regex):
        for stmts in fn.blocks.values():
            for s in stmts:
                for m in re.finditer(r"\(\(\*_1\)\.(\d+): ((?:[^()]|\([^()]*\))+)\)", s):
                    if re.fullmatch(ty_regex, m.group(2).strip()):
                        return int(m.group(1))
        raise Unsupported("no field of type %s in %s" % (ty_regex, fn.name))

    def run_schedule(self, path, limit, plan, short_timeouts=False, panics=False):
        """plan: list of per-dispatcher job counts, e.g. [1, 1] or [2]."""
        W = type("W", (), {})()
        W.counter = Cell(z3.BitVecVal(0, 64))
        W.parked = []            # worker ids parked in recv_timeout
        W.mailbox = {}           # worker id -> job handed over
        W.pending = []           # blocked senders: [job, taken?]
        W.running = 0
        W.inflight = 0
        W.violation = None
        W.jobs = {}
        W.threads = {}
        W.new_threads = []
        W.worker_seq = [0]
        dispatch_fn = self.find("::dispatch", "AsyncifyPool")
        closure_fn = self.fns.get("worker::{closure#0}")
        try:
            guard_drop = self.find("::drop", "CounterGuard")
        except Unsupported:
            guard_drop = None          # a tree without the drop guard: nothing runs on the worker's way out
        if closure_fn is None:
            raise Unsupported("worker::{closure#0} not in the MIR dump")
        i_sender = self.field_index(dispatch_fn, r"flume::Sender<.*>")
        i_recv = self.field_index(dispatch_fn, r"flume::Receiver<.*>")
        i_counter = self.field_index(dispatch_fn, r".*Arc<.*Atomic<usize>>")
        i_limit = self.field_index(dispatch_fn, r"usize")
        pool = Lazy({i_sender: Cell(("chan", "tx")), i_recv: Cell(("chan", "rx")),
                     i_counter: Cell(Ref(W.counter)), i_limit: Cell(z3.BitVecVal(limit, 64))}, "AsyncifyPool")
        pool_ref = Ref(Cell(pool))
        me = self

        def current():
            return W.current

        def atomic(I, a, p, callee):
            cell = a[0].cell if isinstance(a[0], Ref) else a[0]
            op = re.search(r"::(\w+)$", strip_generics(callee)).group(1)
            yield ("atomic", "counter." + op)
            old = cell.v
            if op == "load":
                return old
            if op == "fetch_add":
                cell.v = old + a[1]
                if str(W.current).startswith("D"):
                    W.inflight += 1         # a dispatcher reserved a slot for a worker it is about to spawn
            elif op == "fetch_sub":
                cell.v = old - a[1]
            elif op == "store":
                cell.v = a[1]
                return UNIT
            elif op == "fetch_update":
                # CAS loop: its effect is that of the one successful compare-exchange (or none): a single atomic step
                clo = a[3] if len(a) > 3 else a[-1]
                r = yield from I.call_closure(clo, [old], p)
                if r.variant == 1:
                    cell.v = r.fields[0].v
                    if str(W.current).startswith("D"):
                        W.inflight += 1
                    return EnumV(0, [Cell(old)])
                return EnumV(1, [Cell(old)])
            elif op in ("compare_exchange", "compare_exchange_weak"):
                if p.decide(old == a[1]):
                    cell.v = a[2]
                    return EnumV(0, [Cell(old)])
                return EnumV(1, [Cell(old)])
            else:
                raise Unsupported("atomic " + op)
            return old

        def box_new(I, a, p, callee):
            return Struct({0: Cell(Struct({0: Cell(Ref(Cell(a[0])))}))})

        def ident(I, a, p, callee):
            return a[0]

        def deref(I, a, p, callee):
            v = a[0].cell.v
            return v if isinstance(v, Ref) else a[0]

        def clone(I, a, p, callee):
            return a[0].cell.v

        def try_send(I, a, p, callee):
            yield ("atomic", "try_send")
            if W.parked:
                wid = W.parked.pop(0)
                W.mailbox[wid] = a[1]
                return EnumV(0, [Cell(UNIT)])
            return EnumV(1, [Cell(EnumV(0, [Cell(a[1])]))])      # Err(TrySendError::Full(job))

        def send(I, a, p, callee):
            yield ("atomic", "send")
            if W.parked:
                wid = W.parked.pop(0)
                W.mailbox[wid] = a[1]
                return EnumV(0, [Cell(UNIT)])
            slot = [a[1], False]
            W.pending.append(slot)
            yield ("block", lambda: slot[1])
            return EnumV(0, [Cell(UNIT)])

        def recv_timeout(I, a, p, callee):
            wid = current()
            yield ("atomic", "recv")
            if W.pending:
                slot = W.pending.pop(0)
                slot[1] = True
                return EnumV(0, [Cell(slot[0])])
            W.parked.append(wid)
            yield ("park", "recv_timeout")
            if wid in W.mailbox:
                return EnumV(0, [Cell(W.mailbox.pop(wid))])
            # scheduled without a message: the timeout fired
            if wid in W.parked:
                W.parked.remove(wid)
            return EnumV(1, [Cell(("opaque", "Timeout"))])

        def expect(I, a, p, callee):
            r = a[0]
            if r.variant != 0:
                raise MirPanic("expect() on Err: " + str(a[1]))
            return r.fields[0].v if r.fields else UNIT

        def spawn(I, a, p, callee):
            wid = "K%d" % (len([t for t in W.threads if t.startswith("K")]) + len(W.new_threads) + 1)
            W.new_threads.append((wid, a[0]))
            if W.inflight > 0:
                W.inflight -= 1
            return ("opaque", "JoinHandle")

        def run_job(I, a, p, callee):
            job = a[0]
            # unwrap Box<dyn Dispatchable>
            tok = job
            while isinstance(tok, Struct):
                tok = tok.f[0].v
            if isinstance(tok, Ref):
                tok = tok.cell.v
            W.running += 1
            if W.running > limit and W.violation is None:
                W.violation = "%d jobs running at once with thread_limit %d" % (W.running, limit)
            yield ("step", "job %s running" % (tok[1] if isinstance(tok, tuple) else tok))
            W.running -= 1
            W.jobs[tok[1]]["runs"] += 1
            if panics and tok[1].endswith(".j0"):
                # a job handed to the pool directly is not wrapped in catch_unwind: its panic unwinds the worker
                raise MirUnwind("job %s panicked" % tok[1])
            return UNIT

        def panic_call(I, a, p, callee):
            raise MirPanic("panic: %s" % (a[0] if a else callee))

        def noop(I, a, p, callee):
            return UNIT

        def drop_hook(I, v, p, ty):
            if ty and "CounterGuard" in ty and guard_drop is not None:
                return I.call_fn(guard_drop, [Ref(Cell(v))], p)
            return None

        S = [
            (r"^Atomic::<usize>::", atomic),
            (r"^Box::<D>::new$", box_new),
            (r"^Box::<.*>::(?:into_raw|from_raw)$|<impl \*mut dyn .*>::cast::<D>$", ident),
            (r"<Box<D> as Drop>::drop$", noop),
            (r"as Deref>::deref$", deref), (r"as Clone>::clone$", clone),
            (r"flume::Sender::<.*>::try_send$", try_send), (r"flume::Sender::<.*>::send$", send),
            (r"flume::Receiver::<.*>::recv_timeout$", recv_timeout),
            (r"^Result::<.*>::expect$", expect),
            (r"^spawn::<", spawn),
            (r"as asyncify::Dispatchable>::run$", run_job),
            (r"Arguments::<'_>::from_str", ident), (r"panic_fmt$", panic_call),
        ]
        I = Interp(self.fns, self.consts, S, resolver=self.resolver)
        I.drop_hook = drop_hook

        def dispatcher(d, njobs):
            for j in range(njobs):
                name = "D%d.j%d" % (d, j)
                W.jobs[name] = dict(runs=0, accepted=False, returned=0)
                job = ("job", name)
                tries = 0
                while True:
                    r = yield from I.call_fn(dispatch_fn, [pool_ref, job], path)
                    if r.variant == 0:
                        W.jobs[name]["accepted"] = True
                        break
                    # Err(DispatchError(job)): must be the same job, intact
                    back = r.fields[0].v
                    tok = back.f[0].v if isinstance(back, Struct) else back
                    if tok != job:
                        W.violation = "saturated dispatch handed back something else than the submitted job"
                    live = len([t for t in alive if t.startswith("K")]) + len(W.new_threads) + W.inflight
                    if live < limit and W.violation is None:
                        W.violation = ("submission rejected as 'all threads are busy' while only %d of %d worker slots "
                                       "are held by live workers (slot leaked)" % (live, limit))
                    W.jobs[name]["returned"] += 1
                    tries += 1
                    if tries >= 2:
                        break
                    yield ("block", lambda: W.running == 0)      # the driver's retry loop: yield_now until a worker frees up
            return

        def worker_thread(wid, closure):
            try:
                yield from I.call_fn(closure_fn, [closure], path)
            except MirUnwind:
                return      # the worker thread died of the job's panic (its locals were dropped on the way out)

        threads = W.threads
        for d, n in enumerate(plan):
            threads["D%d" % (d + 1)] = dispatcher(d + 1, n)
        blocked = {}
        parked = set()
        alive = set(threads)
        steps = 0
        verdict = "ok"
        while alive:
            if W.violation:
                verdict = W.violation
                break
            runnable = []
            dispatchers_active = any(t.startswith("D") for t in alive)
            for t in sorted(alive):
                if t in blocked:
                    if blocked[t]():
                        runnable.append(t)
                elif t in parked:
                    # a parked worker runs when it has a message; its idle timeout may fire at any time in the
                    # short-timeout regime, and only once every dispatcher is done in the long-timeout regime
                    if t in W.mailbox or short_timeouts or not dispatchers_active:
                        runnable.append(t)
                else:
                    runnable.append(t)
            if not runnable:
                stuck = [t for t in alive if t.startswith("D")]
                if stuck:
                    verdict = "dispatcher %s stuck forever (no worker takes its job)" % stuck
                break
            # a parked worker with no message may only time out when no dispatcher can make progress towards it
            i = path.choose(len(runnable), "sched")
            th = runnable[i]
            blocked.pop(th, None)
            parked.discard(th)
            W.current = th
            try:
                ev = next(threads[th])
            except StopIteration:
                alive.discard(th)
                for wid, clo in W.new_threads:       # threads spawned in the thread's last step
                    threads[wid] = worker_thread(wid, clo)
                    alive.add(wid)
                W.new_threads = []
                continue
            except MirPanic as e:
                verdict = "panic in %s: %s" % (th, e)
                break
            steps += 1
            path.trace.append((th, ev[0], ev[1] if ev[0] != "block" else "blocked"))
            if ev[0] == "block":
                blocked[th] = ev[1]
            elif ev[0] == "park":
                parked.add(th)
            for wid, clo in W.new_threads:
                threads[wid] = worker_thread(wid, clo)
                alive.add(wid)
            W.new_threads = []
            if steps > 400:
                raise Unsupported("step bound exceeded")
        if verdict == "ok":
            if W.violation:
                verdict = W.violation
            else:
                for name, j in W.jobs.items():
                    if j["accepted"] and j["runs"] != 1:
                        verdict = "job %s accepted by dispatch but ran %d times" % (name, j["runs"])
                    if not j["accepted"] and j["runs"] != 0:
                        verdict = "job %s handed back as rejected but ran %d times" % (name, j["runs"])
        self.encoded |= I.called
        return verdict, steps


def explore_schedules(pool, limit, plan, seed=0, max_paths=300000, short_timeouts=False, panics=False):
    from explore import _expand
    stack = [[]]
    npaths = steps = queries = 0
    bad = None
    while stack:
        dec = stack.pop()
        p = Path(dec, seed)
        try:
            verdict, st = pool.run_schedule(p, limit, plan, short_timeouts, panics)
        except Infeasible:
            _expand(stack, dec, p, upto=p.pos)
            continue
        npaths += 1
        steps += st
        queries += p.queries
        if npaths > max_paths:
            raise Unsupported("schedule bound exceeded")
        _expand(stack, dec, p, upto=len(p.decisions))
        if verdict != "ok" and bad is None:
            bad = (verdict, list(p.trace))
            break
    return npaths, steps, queries, bad
