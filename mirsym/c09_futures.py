"""C09, second layer — the timer futures on top of the wheel: Sleep, TimerFuture (create / poll / drop),
Timeout::poll and the Interval::tick state machine (coroutine MIR), interpreted from rustc's MIR.

The wheel underneath is the same bounded map as in c09_timers (arbitrary valid state, N slots), so each
check is again one step from every reachable situation:

  sleep.new      Sleep::new -> TimerFuture::try_new -> Runtime::with_current closure -> TimerRuntime::insert
  sleep.poll     Sleep::poll -> TimerFuture::poll -> TimerRuntime::poll_timer
  timer.drop     <TimerFuture as Drop>::drop -> TimerRuntime::cancel           (a dropped timer leaves nothing behind)
  timeout.poll   Timeout::<F>::poll with an abstract inner future               (inner result wins iff it finished first)
  interval.tick  the async-fn state machine of Interval::tick, polled to completion (<= 2 polls), the wheel
                 optionally firing the timer in between                          (ticks aligned to start + k * period)

Extra summaries (assumptions): Pin = transparent wrapper; Rc<RefCell<T>> = shared cell with a dynamic borrow
flag (a second borrow_mut while one is alive is reported as the BorrowMutError panic it would be);
Runtime::with_current(f) = f(&runtime) with the current runtime's timer wheel; the inner future of Timeout
= an arbitrary future whose poll returns Ready(v) or Pending and does not touch the wheel; Try/FromResidual
for Option; u128 `%` in Interval::tick = an abstraction (fresh remainder r < divisor, dividend = multiple + r)
because the alignment obligation over the exact 128-bit remainder is nonlinear and z3 does not decide it.
"""
import re

import z3

from interp import Interp, Struct, EnumV, Ref, Cell, UNIT, Unsupported, MirPanic, Coroutine
from c09_timers import Timers, World, OMap, RtObj, BV, keq, key_of, make_summaries

SPAN_FUT = "time/future.rs"


class RcV:
    """Rc<RefCell<T>>: shared cell + RefCell borrow flag."""

    def __init__(self, cell):
        self.cell = cell
        self.borrowed = False
        self.strong = 1

    def on_drop(self, interp, path):
        self.strong -= 1


class RefMutV:
    def __init__(self, rc):
        self.rc = rc

    def on_drop(self, interp, path):
        self.rc.borrowed = False


class RuntimeObj:
    """The current Runtime as seen by the closure of TimerFuture::try_new: every field it touches is the
    Rc<RefCell<TimerRuntime>> (the only field that closure reads)."""

    def __init__(self, rc):
        self.c = Cell(rc)

    def field_cell(self, idx):
        return self.c


def pin(r):
    return Struct({0: Cell(r)})


def unpin(v):
    if isinstance(v, Ref):
        v = v.cell.v
    return v.f[0].v


SUMMARY_TEXT = [
    "Pin::{new,new_unchecked,get_unchecked_mut,deref,deref_mut} = transparent wrapper around the reference",
    "Rc<RefCell<TimerRuntime>>::{deref,clone}, RefCell::borrow_mut, RefMut::deref_mut/drop = shared cell with a dynamic "
    "borrow flag; borrow_mut while borrowed panics (BorrowMutError)",
    "Runtime::with_current(f) = f(&rt) where rt.timer_runtime is the wheel under test",
    "<Option<T> as Try>::branch / FromResidual::from_residual = the `?` operator on Option",
    "Option::<TimerFuture>::as_mut = Option<&mut TimerFuture>; <Sleep as IntoFuture>::into_future = identity",
    "<F as Future>::poll (Timeout's inner future) = arbitrary: returns Ready(v) or Pending, does not touch the wheel",
    "u128 Rem in Interval::tick = fresh r with r < divisor and dividend = m + r (m an abstract multiple of the divisor); "
    "the alignment obligation is then linear: next - start = m + period",
]


class Futures(Timers):
    def __init__(self, mir_path, n_slots):
        Timers.__init__(self, mir_path, n_slots)

    # ------------------------------------------------------------------ locating functions
    def G(self, suffix, sig_pat):
        c = [f for k, f in self.fns.items() if (SPAN_FUT in k or k.startswith("time::")) and k.endswith(suffix)
             and re.search(sig_pat, f.sig)]
        if len(c) != 1:
            raise Unsupported("cannot locate %s / %s in the MIR dump (%d candidates)" % (suffix, sig_pat, len(c)))
        return c[0]

    def resolver(self, callee):
        f = Timers.resolver(self, callee)
        if f is not None:
            return f
        table = [
            (r"^TimerFuture::try_new$", ("::try_new", r"-> Option<TimerFuture>")),
            (r"^Sleep::new$", ("::new", r"-> Sleep \{")),
            (r"^<TimerFuture as .*Future>::poll$", ("::poll", r"_1: Pin<&mut TimerFuture>")),
            (r"^<Sleep as .*Future>::poll$", ("::poll", r"_1: Pin<&mut Sleep>")),
            (r"^time::sleep_until$", ("sleep_until", r"-> Sleep \{")),
            (r"Timeout<F>>::project$", ("::project", r"_1: Pin<&mut time::future::Timeout<F>>")),
        ]
        for pat, (suf, sig) in table:
            if re.search(pat, callee):
                return self.G(suf, sig)
        return None

    # ------------------------------------------------------------------ world
    def mkf(self, p, tag="s", wakers=False, free_slot=False):
        W = World(p)
        m = OMap.symbolic(p, tag, self.N, concretize_wakers=wakers)
        gen = BV(tag + "_gen")
        for i, s in enumerate(m.slots):
            p.assume(z3.Implies(s["p"], z3.ULT(s["g"], gen)))
            for t in m.slots[i + 1:]:
                p.assume(z3.Implies(z3.And(s["p"], t["p"]), z3.Not(keq((s["d"], s["g"]), (t["d"], t["g"])))))
        if free_slot:
            p.assume(z3.Not(m.slots[-1]["p"]))
        rt = RtObj(self.i_gen, gen, self.i_wheel, m, tag)
        rc = RcV(Cell(rt))
        W.inner_polls = 0
        W.inner_result = None
        W.rems = []
        W.order = []

        def s_pin_new(I, a, pth, c):
            return pin(a[0])

        def s_pin_get(I, a, pth, c):
            return unpin(a[0])

        def s_rc_deref(I, a, pth, c):
            v = a[0].cell.v
            if not isinstance(v, RcV):
                raise Unsupported("Rc::deref of %r" % (v,))
            return Ref(Cell(v))          # &RefCell<T>: a reference that still knows its Rc

        def s_rc_clone(I, a, pth, c):
            v = a[0].cell.v
            v.strong += 1
            return v

        def s_borrow_mut(I, a, pth, c):
            v = a[0].cell.v
            if v.borrowed:
                raise MirPanic("RefCell already borrowed (BorrowMutError)")
            v.borrowed = True
            return RefMutV(v)

        def s_refmut_deref(I, a, pth, c):
            return Ref(a[0].cell.v.rc.cell)

        def s_with_current(I, a, pth, c):
            r = yield from I.call_closure(a[0], [Ref(Cell(RuntimeObj(rc)))], pth)
            return r

        def s_try_branch(I, a, pth, c):
            ev = a[0]
            return EnumV(0, [Cell(ev.fields[0].v)]) if ev.variant == 1 else EnumV(1, [Cell(EnumV(0))])

        def s_from_residual(I, a, pth, c):
            return EnumV(0)

        def s_as_mut(I, a, pth, c):
            ev = a[0].cell.v
            return EnumV(1, [Cell(Ref(ev.fields[0]))]) if ev.variant == 1 else EnumV(0)

        def s_identity(I, a, pth, c):
            return a[0]

        W.driver_polls = []

        def s_driver_poll(I, a, pth, c):
            # the driver's wait: records the timeout it was given; returns after an arbitrary while with
            # Ok, or with the two errors the runtime treats as "nothing happened" (other errors panic by design)
            W.driver_polls.append(a[1])
            W.order.append("driver.poll")
            k = pth.choose(3, "driver.poll result")
            if k == 0:
                return EnumV(0, [Cell(UNIT)])
            return EnumV(1, [Cell(("io-error", 22 if k == 1 else 35))])

        def s_err_kind(I, a, pth, c):
            e = a[0].cell.v if isinstance(a[0], Ref) else a[0]
            return EnumV(e[1])

        def s_inner_poll(I, a, pth, c):
            W.inner_polls += 1
            W.order.append("inner")
            if pth.choose(2, "inner future ready?") == 0:
                W.inner_result = BV("inner_out")
                return EnumV(0, [Cell(W.inner_result)])
            return EnumV(1)

        extra = [
            (r"^Pin::<.*>::new(?:_unchecked)?$", s_pin_new), (r"^Pin::<.*>::get_unchecked_mut$", s_pin_get),
            (r"^<Pin<.*> as Deref(?:Mut)?>::deref(?:_mut)?$", s_pin_get),
            (r"^<Rc<RefCell<\w+>> as Deref>::deref$", s_rc_deref),
            (r"^<Rc<RefCell<\w+>> as Clone>::clone$", s_rc_clone),
            (r"^RefCell::<\w+>::borrow(?:_mut)?$", s_borrow_mut),
            (r"^<Ref(?:Mut)?<'_, \w+> as Deref(?:Mut)?>::deref(?:_mut)?$", s_refmut_deref),
            (r"^Proactor::poll$", s_driver_poll), (r"^std::io::Error::kind$", s_err_kind),
            (r"^Runtime::with_current::<", s_with_current),
            (r"^<Option<TimerKey> as Try>::branch$", s_try_branch),
            (r"as FromResidual<Option<Infallible>>>::from_residual$", s_from_residual),
            (r"^Option::<TimerFuture>::as_mut$", s_as_mut),
            (r"^<Sleep as (?:std::future::)?IntoFuture>::into_future$", s_identity),
            (r"^<F as .*Future>::poll$", s_inner_poll),
        ]
        I = Interp(self.fns, self.consts, extra + make_summaries(W, self.N, self.fns), resolver=self.resolver)
        I.drop_hook = self.drop_hook
        return I, W, rt, m, gen, rc

    def drop_hook(self, I, v, path, ty):
        """Drop glue for values holding a TimerFuture: runs the MIR of <TimerFuture as Drop>::drop, then its fields."""
        for tf in self.timer_futures(v):
            yield from I.call_fn(self.G("::drop", r"_1: &mut TimerFuture"), [Ref(Cell(tf))], path)
            tf.f[1].v.on_drop(I, path)
        return None

    def timer_futures(self, v, depth=0):
        out = []
        if depth > 4 or v is None:
            return out
        if isinstance(v, Struct):
            if 1 in v.f and isinstance(v.f[1].v, RcV) and not getattr(v, "dropped", False):
                v.dropped = True
                return [v]
            for c in v.f.values():
                out += self.timer_futures(c.v, depth + 1)
        elif isinstance(v, EnumV):
            for c in v.fields:
                out += self.timer_futures(c.v, depth + 1)
        return out

    def sleep_value(self, p, rc, tag="sl"):
        """An arbitrary Sleep: Sleep(None) (deadline had passed at creation) or Sleep(Some(TimerFuture{key, rt}))."""
        if p.choose(2, "sleep has a timer?") == 0:
            return Struct({0: Cell(EnumV(0))}), None
        k = (BV(tag + "_kd"), BV(tag + "_kg"))
        rc.strong += 1
        tf = Struct({0: Cell(Struct({0: Cell(k[0]), 1: Cell(k[1])})), 1: Cell(rc)})
        return Struct({0: Cell(EnumV(1, [Cell(tf)]))}), k

    def unchanged(self, before, after, what, except_key=None, new_key=None):
        """Every other timer is kept; nothing appears except `new_key`."""
        obs = []
        for i, b in enumerate(before):
            cond = b["p"] if except_key is None else z3.And(b["p"], z3.Not(keq((b["d"], b["g"]), except_key)))
            obs.append(("%s keeps timer %d" % (what, i), z3.Implies(cond, after.contains((b["d"], b["g"])))))
        for i, s in enumerate(after.slots):
            was = z3.Or(*[z3.And(b["p"], keq((b["d"], b["g"]), (s["d"], s["g"]))) for b in before])
            if new_key is not None:
                was = z3.Or(was, keq((s["d"], s["g"]), new_key))
            obs.append(("%s adds no foreign timer (slot %d)" % (what, i), z3.Implies(s["p"], was)))
        return obs

    # ------------------------------------------------------------------ checks
    def check_sleep_new(self, p):
        I, W, rt, m, gen, rc = self.mkf(p, free_slot=True)
        before = m.snapshot()
        d = BV("dl")
        p.assume(z3.ULT(gen, z3.BitVecVal(2 ** 64 - 1, 64)))
        r = I.run_to_end(I.call_fn(self.G("::new", r"-> Sleep \{"), [d], p))
        self.done(I)
        now = W.first_now()
        opt = r.f[0].v
        after = rt.f[1].v
        obs = [("Sleep::new holds no timer iff deadline <= now (ready at once, never early)",
                z3.BoolVal(opt.variant == 0) == z3.ULE(d, now)),
               ("RefCell borrow released", z3.BoolVal(not rc.borrowed))]
        nk = None
        if opt.variant == 1:
            tf = opt.fields[0].v
            k = key_of(tf.f[0].v)
            nk = k
            obs.append(("the timer's key carries the requested deadline", k[0] == d))
            obs.append(("the timer is pending in the current runtime's wheel", after.contains(k)))
            obs.append(("the future holds the runtime's wheel", z3.BoolVal(tf.f[1].v is rc)))
        obs += self.unchanged(before, after, "Sleep::new", new_key=nk)
        obs += self.invariant(rt)
        return obs

    def check_sleep_poll(self, p):
        I, W, rt, m, gen, rc = self.mkf(p, wakers=True)
        before = m.snapshot()
        sl, k = self.sleep_value(p, rc)
        cxw = ("waker", BV("cx_wid"))
        pending_before = m.contains(k) if k is not None else z3.BoolVal(False)
        r = I.run_to_end(I.call_fn(self.G("::poll", r"_1: Pin<&mut Sleep>"), [pin(Ref(Cell(sl))), Ref(Cell(cxw))], p))
        self.done(I)
        after = rt.f[1].v
        obs = [("Sleep is Ready iff it holds no timer or its timer is no longer pending",
                z3.BoolVal(r.variant == 0) == z3.Not(pending_before)),
               ("RefCell borrow released", z3.BoolVal(not rc.borrowed))]
        if r.variant == 1 and k is not None:
            obs += self.waker_registered(after, k, cxw)
        obs += self.unchanged(before, after, "Sleep::poll")
        return obs

    def waker_registered(self, after, k, cxw):
        obs = []
        for i, s in enumerate(after.slots):
            hit = z3.And(s["p"], keq((s["d"], s["g"]), k))
            w = s["w"].v
            if isinstance(w, EnumV) and w.variant == 1:
                obs.append(("Pending poll registered the task's waker (slot %d)" % i, z3.Implies(hit, w.fields[0].v[1] == cxw[1])))
            else:
                obs.append(("Pending poll registered the task's waker (slot %d)" % i, z3.Not(hit)))
        return obs

    def check_timer_drop(self, p):
        I, W, rt, m, gen, rc = self.mkf(p)
        before = m.snapshot()
        sl, k = self.sleep_value(p, rc)
        strong0 = rc.strong
        r = self.drop_hook(I, sl, p, None)
        if hasattr(r, "__next__"):
            I.run_to_end(r)
        self.done(I)
        after = rt.f[1].v
        obs = [("RefCell borrow released", z3.BoolVal(not rc.borrowed))]
        if k is not None:
            obs.append(("a dropped timer leaves nothing behind", z3.Not(after.contains(k))))
            obs.append(("the future's hold on the wheel is released once", z3.BoolVal(rc.strong == strong0 - 1)))
        obs += self.unchanged(before, after, "drop", except_key=k)
        obs += self.invariant(rt)
        return obs

    def check_timeout_poll(self, p):
        I, W, rt, m, gen, rc = self.mkf(p, wakers=True)
        before = m.snapshot()
        sl, k = self.sleep_value(p, rc)
        to = Struct({0: Cell(("inner-future",)), 1: Cell(sl)})
        cxw = ("waker", BV("cx_wid"))
        pending_before = m.contains(k) if k is not None else z3.BoolVal(False)
        hooked = []
        orig = self.G("::poll", r"_1: Pin<&mut Sleep>")
        r = I.run_to_end(I.call_fn(self.G("::poll", r"_1: Pin<&mut time::future::Timeout<F>>"),
                                   [pin(Ref(Cell(to))), Ref(Cell(cxw))], p))
        self.done(I)
        after = rt.f[1].v
        obs = [("the inner future is polled exactly once per poll", z3.BoolVal(W.inner_polls == 1)),
               ("RefCell borrow released", z3.BoolVal(not rc.borrowed))]
        inner_ready = W.inner_result is not None
        if inner_ready:
            ok = r.variant == 0 and r.fields[0].v.variant == 0
            obs.append(("inner future finished: the timeout yields its output, whatever the timer says", z3.BoolVal(ok)))
            if ok:
                obs.append(("the output is the inner future's", r.fields[0].v.fields[0].v == W.inner_result))
        else:
            elapsed = r.variant == 0 and r.fields[0].v.variant == 1
            obs.append(("inner pending: Elapsed iff the deadline's timer is no longer pending (never early)",
                        z3.BoolVal(elapsed) == z3.Not(pending_before)))
            obs.append(("inner pending: otherwise the timeout is Pending", z3.BoolVal(elapsed or r.variant == 1)))
            if r.variant == 1 and k is not None:
                obs += self.waker_registered(after, k, cxw)
        obs += self.unchanged(before, after, "Timeout::poll")
        return obs

    def check_interval_tick(self, p):
        I, W, rt, m, gen, rc = self.mkf(p, wakers=True, free_slot=True)
        p.assume(z3.ULT(gen, z3.BitVecVal(2 ** 64 - 1, 64)))
        first_ticked = z3.Bool("iv_first_ticked")
        start, period = BV("iv_start"), BV("iv_period")
        # bounds of this check: instants and periods below 2^62 ns (146 years) so that Instant/Duration
        # arithmetic (which panics on overflow in std) stays in range; period > 0 (interval() asserts it)
        lim = z3.BitVecVal(1 << 62, 64)
        p.assume(z3.ULT(start, lim))
        p.assume(z3.ULT(period, lim))
        p.assume(period != 0)
        iv = Struct({0: Cell(first_ticked), 1: Cell(start), 2: Cell(period)})
        co = Coroutine({0: Ref(Cell(iv))})
        co.up[0] = Cell(Ref(Cell(iv)))
        iv_cell = co.up[0].v.cell

        def rem_hook(a, b):
            if a.size() != 128:
                return None
            # both operands are Duration::as_nanos() of u64-nanosecond durations: work on the low halves
            hi = lambda x: z3.simplify(z3.Extract(127, 64, x))
            if not (z3.is_bv_value(hi(a)) and hi(a).as_long() == 0 and z3.is_bv_value(hi(b)) and hi(b).as_long() == 0):
                return None
            a64, b64 = z3.simplify(z3.Extract(63, 0, a)), z3.simplify(z3.Extract(63, 0, b))
            k = len(W.rems)
            r, mul = BV("rem%d_r" % k), BV("rem%d_m" % k)
            p.assume(a64 == mul + r)
            p.assume(z3.ULT(r, b64))
            p.assume(z3.ULE(mul, a64))
            W.rems.append((a64, b64, mul, r))
            return z3.ZeroExt(64, r)
        I.rem_hook = rem_hook
        cxw = ("waker", BV("cx_wid"))
        fn = self.G("::tick::{closure#0}", r"-> std::task::Poll<Instant>")
        ticked0 = p.decide(first_ticked)
        r = I.run_to_end(I.call_fn(fn, [pin(Ref(Cell(co))), Ref(Cell(cxw))], p))
        for t in W.nows:
            p.assume(z3.ULT(t, lim))
        obs = []
        # the Sleep the state machine is parked on (if any) and the deadline it was created for
        sleeps = [c.v for (var, i), c in co.saved.items() if isinstance(c.v, Struct) and 0 in c.v.f and isinstance(c.v.f[0].v, EnumV)]
        after = rt.f[1].v
        now0 = W.nows[0] if W.nows else None
        if not ticked0:
            target = start
            obs.append(("first tick reads no clock of its own before arming", z3.BoolVal(True)))
        else:
            now = W.nows[0]
            p.assume(z3.UGE(now, start))      # after the first tick completed at `start`
            mults = [(a, b, mul, rr) for (a, b, mul, rr) in W.rems]
            obs.append(("tick computes exactly one remainder by the period", z3.BoolVal(len(mults) == 1)))
            nxts = [c.v for (var, i), c in co.saved.items() if z3.is_bv(c.v)] if co.state not in (1,) else []
            target = None
            if r.variant == 0:
                target = r.fields[0].v
            elif nxts:
                target = nxts[0]
            if target is None:
                raise Unsupported("cannot find the computed next instant in the coroutine state")
            obs.append(("next tick lies after now", z3.UGT(target, now)))
            obs.append(("next tick is at most one period away", z3.ULE(target, now + period)))
            if mults:
                a, b, mul, rr = mults[0]
                obs.append(("the remainder is taken by the period", b == period))
                obs.append(("the remainder is taken of the time since start", a == now - start))
                obs.append(("ticks stay aligned: next - start = (multiple of period) + period",
                            target - start == mul + period))
        if r.variant == 0:
            # completed within the first poll: only possible if the deadline had passed when the timer was armed
            armed_at = W.nows[-1]
            obs.append(("tick completes at once only if its instant has passed (never early)", z3.ULE(target, armed_at)))
            obs.append(("tick returns its instant", r.fields[0].v == target))
            obs.append(("first_ticked is set after the first tick", iv_cell.v.f[0].v == z3.BoolVal(True)) if not ticked0 else
                       ("first_ticked stays set", iv_cell.v.f[0].v == first_ticked))
            obs.append(("state machine finished", z3.BoolVal(co.state == 1)))
        else:
            obs.append(("a pending tick is parked on exactly one Sleep", z3.BoolVal(len(sleeps) == 1)))
            if len(sleeps) == 1:
                opt = sleeps[0].f[0].v
                obs.append(("a pending tick holds a timer", z3.BoolVal(opt.variant == 1)))
                if opt.variant == 1:
                    k = key_of(opt.fields[0].v.f[0].v)
                    obs.append(("the timer is armed for the tick's instant", k[0] == target))
                    obs.append(("the timer is pending in the wheel", after.contains(k)))
                    obs += self.waker_registered(after, k, cxw)
                    # second poll: the wheel either fired the timer (wake() removed the key) or not
                    fired = p.choose(2, "timer fired before the second poll?") == 0
                    if fired:
                        for s in after.slots:
                            s["p"] = z3.And(s["p"], z3.Not(keq((s["d"], s["g"]), k)))
                    r2 = I.run_to_end(I.call_fn(fn, [pin(Ref(Cell(co))), Ref(Cell(cxw))], p))
                    obs.append(("second poll: Ready iff the timer fired", z3.BoolVal((r2.variant == 0) == fired)))
                    if r2.variant == 0:
                        obs.append(("second poll returns the tick's instant", r2.fields[0].v == target))
                        obs.append(("first_ticked set once a tick completed", iv_cell.v.f[0].v == z3.BoolVal(True)))
                        obs.append(("state machine finished", z3.BoolVal(co.state == 1)))
                        obs.append(("a completed tick leaves no timer behind", z3.Not(rt.f[1].v.contains(k))))
            obs.append(("first_ticked not set by a pending first tick", z3.BoolVal(True)))
        obs.append(("RefCell borrow released", z3.BoolVal(not rc.borrowed)))
        obs.append(("start and period are never modified",
                    z3.And(iv_cell.v.f[1].v == start, iv_cell.v.f[2].v == period)))
        self.done(I)
        obs += self.invariant(rt)
        return obs

    def check_runtime_poll(self, p):
        """Runtime::poll = current_timeout() -> min_timeout(); poll_with(timeout): driver.poll(timeout), then wake()"""
        I, W, rt, m, gen, rc = self.mkf(p, wakers=True)
        before = m.snapshot()
        poll_fn = [f for k, f in self.fns.items() if "compio-runtime/src/lib.rs" in k and k.endswith("::poll")
                   and re.search(r"\(_1: &Runtime\) -> \(\)", f.sig)]
        pw = [f for k, f in self.fns.items() if "compio-runtime/src/lib.rs" in k and k.endswith("::poll_with")]
        if len(poll_fn) != 1 or len(pw) != 1:
            raise Unsupported("cannot locate Runtime::poll / poll_with")
        # Runtime fields by type, from poll_with's own projections
        idx = {}
        rt_fns = [f for k, f in self.fns.items() if "compio-runtime/src/lib.rs" in k and re.search(r"_1: &Runtime\b", f.sig)]
        for stmts in [b for f in rt_fns for b in f.blocks.values()]:
            for st in stmts:
                for mm in re.finditer(r"\(\(\*_1\)\.(\d+): ((?:[^()]|\([^()]*\))+)\)", st):
                    if "Proactor" in mm.group(2):
                        idx["driver"] = int(mm.group(1))
                    if "TimerRuntime" in mm.group(2):
                        idx["timers"] = int(mm.group(1))
        if set(idx) != {"driver", "timers"}:
            raise Unsupported("cannot locate Runtime.driver / Runtime.timer_runtime")
        drv_rc = RcV(Cell(("proactor",)))

        class RT:
            def field_cell(self_, i):
                if i == idx["driver"]:
                    return Cell(drv_rc)
                if i == idx["timers"]:
                    return Cell(rc)
                return Cell(("opaque", "Runtime-field-%d" % i))
        I.run_to_end(I.call_fn(poll_fn[0], [Ref(Cell(RT()))], p))
        self.done(I)
        after = rt.f[1].v
        obs = [("the driver is polled exactly once per Runtime::poll", z3.BoolVal(len(W.driver_polls) == 1)),
               ("RefCell borrows released", z3.BoolVal(not rc.borrowed and not drv_rc.borrowed))]
        if len(W.driver_polls) != 1:
            return obs
        t = W.driver_polls[0]
        anyp = z3.Or(*[b["p"] for b in before])
        obs.append(("an idle runtime waits without limit iff no timer is pending", z3.BoolVal(t.variant == 0) == z3.Not(anyp)))
        now0 = W.nows[0] if W.nows else None
        if t.variant == 1 and now0 is not None:
            d = t.fields[0].v
            dist = [z3.If(z3.UGT(b["d"], now0), b["d"] - now0, z3.BitVecVal(0, 64)) for b in before]
            for i, b in enumerate(before):
                obs.append(("idle sleep not longer than the distance to timer %d" % i, z3.Implies(b["p"], z3.ULE(d, dist[i]))))
        # after the driver returned (Ok, TimedOut or Interrupted alike) the wheel is processed
        woke = [e for e in W.events if e[0] == "wake"]
        if z3.is_true(z3.simplify(anyp)) or len(W.nows) >= 2:
            now1 = W.nows[-1]
            for i, b in enumerate(before):
                k = (b["d"], b["g"])
                obs.append(("after the wait, timer %d is still pending iff its deadline lies in the future" % i,
                            z3.Implies(b["p"], after.contains(k) == z3.UGT(b["d"], now1))))
        obs.append(("the wheel is processed after the wait whenever a timer was pending",
                    z3.Implies(anyp, z3.BoolVal(len(W.nows) >= 2))))
        obs += self.invariant(rt)
        return obs

    FCHECKS = ["sleep_new", "sleep_poll", "timer_drop", "timeout_poll", "interval_tick", "runtime_poll"]
