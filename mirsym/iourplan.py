"""Plan object (for lib/mirprop) of the io_uring driver-layer check of C01 (mirsym/c01_iour.py)."""


class IourPlan:
    summaries = []
    checker_cmd = ""

    def z3_version(self):
        import z3
        return z3.get_version_string()

    def prepare(self, tier):
        import dump
        import c01_iour
        p, c = dump.dump_mir("compio-driver", [], tag="compio-driver-iour")
        self.checker_cmd = c + " ;; mirsym/c01_iour.py"
        self.D = c01_iour.IourDriver(p)
        self.mod = c01_iour
        self.n = (2, 3) if tier == "quick" else (2, 4)
        IourPlan.summaries = c01_iour.SUMMARY_TEXT

    def checks(self, tier):
        nk, ne = self.n
        return [("iour.poll_entries", lambda p: self.D.check_poll_entries(p, nk, ne)),
                ("iour.drop", lambda p: self.D.check_drop(p, nk, ne)),
                ("iour.push", lambda p: self.D.check_push(p, 1, 2)),
                ("iour.blocking", self.D.check_blocking)]

    def encoded(self):
        return sorted(self.D.encoded)

    def bounds(self, tier):
        return {"operations_in_flight": self.n[0], "queued_completions": "<= %d, every contract-abiding sequence" % self.n[1]}

    def validate(self, tier):
        return 0, 0, ["the completion-queue contract (any number of IORING_CQE_F_MORE entries, then at most one final entry per "
                      "operation) is the kernel's documented behaviour; the counterexample found on the pinned tree was "
                      "reproduced natively (findings/F21_iour_drop_multishot_double_release_demo.rs)"]

    def replay(self, f):
        return None, {"choices": f.trace, "note": "queue contents are the explorer's choices; see findings/F21 for the native shape"}
