"""C07 — managed buffer pool (fallback pool): exclusive ownership and conservation.

Interpreted from the MIR of compio-driver (polling build): BufferPool::{pop, take, reset, shared,
with}, Shared::{with, take, reset, len, alloc} and their closures, BufferRef::{drop, set_capacity,
set_len, as_uninit, deref}, sys::buffer_pool::BufControl::{pop, reset} and the fallback
BufControl::{pop, reset}.  Summaries: Rc/Weak (pool liveness flag), UnsafeCell::get, Vec<Slot>
(bounded slot array), VecDeque<u16> (bounded FIFO), Option/Result plumbing, io::Error (opaque).

One inductive step per operation from an arbitrary well-formed pool of N slots:
  invariant  slot[i] is Some(ptr_i)  <=>  i is in the free queue exactly once  <=>  no live handle holds i
  ghost      the set of live BufferRef handles (one per empty slot), each with its own pointer
Checked per step: two live handles never share a buffer; pop hands out exactly the queue's front
buffer with len 0 and cap = full capacity, or reports an error when the queue is empty (never a
panic, never a wait); dropping a handle returns exactly its buffer to its slot and its id to the
queue once; after the pool is gone a handle frees its own memory exactly once; conservation:
present slots + live handles = N after every step; len <= cap <= full_cap under set_capacity /
set_len with symbolic arguments; as_uninit exposes cap bytes, deref len bytes.
"""
import itertools
import re

import z3

from interp import (Interp, Struct, EnumV, Ref, Cell, UNIT, Unsupported, Infeasible, MirPanic, Closure, load, Path,
                    strip_generics)

SUMMARY_TEXT = [
    "Rc<Shared>/Weak<Shared> = a liveness flag: upgrade() is Some iff the pool root is alive",
    "UnsafeCell::get, Vec<Slot> deref / get_mut / mem::take / into_iter().flatten() = a bounded slot array of N entries",
    "VecDeque<u16> = bounded FIFO (pop_front / push_back)",
    "Option/Result `?` plumbing, ok_or_else, expect (None = reachable panic = violation) by definition; io::Error = opaque",
    "allocator = records deallocate(ptr, len) calls",
]


class Slots:
    def __init__(self, n):
        self.cells = [Cell(EnumV(0)) for _ in range(n)]


class Fifo:
    def __init__(self, items):
        self.items = list(items)


class Pool:
    def __init__(self, mir_path, n):
        self.fns, self.consts = load(mir_path)
        self.N = n
        self.encoded = set()

    # ------------------------------------------------------------------ lookup
    def F(self, file_part, method, first_param=None):
        c = [f for k, f in self.fns.items() if file_part in k and k.endswith("::" + method)
             and "{closure" not in k.rsplit("::", 1)[0][-12:]
             and (first_param is None or re.search(r"\(_1: &?(?:mut )?(?:[\w:]*::)?" + first_param + r"\b", f.sig))]
        if len(c) != 1:
            raise Unsupported("cannot locate %s::%s in %s (%d candidates)" % (first_param, method, file_part, len(c)))
        return c[0]

    def resolver(self, callee):
        clean = strip_generics(callee)
        parts = clean.split("::")
        if len(parts) < 2:
            return None
        ty, meth = parts[-2], parts[-1]
        try:
            if ty == "BufferPool":
                return self.F("src/buffer_pool.rs", meth, "BufferPool")
            if ty == "Shared":
                return self.F("src/buffer_pool.rs", meth, "Shared")
            if ty == "BufferRef":
                return self.F("src/buffer_pool.rs", meth, "BufferRef")
            if ty == "BufControl":
                if "fallback" in clean:
                    return self.F("buffer_pool/fallback.rs", meth)
                return self.F("sys/buffer_pool/mod.rs", meth)
        except Unsupported:
            return None
        return None

    def field_map(self, fn, base_pat=r"\(\*_\d+\)"):
        out = {}
        for stmts in fn.blocks.values():
            for s in stmts:
                for m in re.finditer(r"\(" + base_pat + r"\.(\d+): ((?:[^()]|\([^()]*\))+)\)", s):
                    out[int(m.group(1))] = m.group(2).strip()
        return out

    # ------------------------------------------------------------------ world + summaries
    def mk_world(self, path):
        W = type("W", (), {})()
        W.alive = True
        W.deallocs = []
        W.size = z3.BitVecVal(16, 32)
        return W

    def summaries(self, W):
        def upgrade(I, a, p, c):
            return EnumV(1, [Cell(Ref(W.shared_cell))]) if W.alive else EnumV(0)

        def rc_deref(I, a, p, c):
            v = a[0].cell.v
            return v if isinstance(v, Ref) else a[0]

        def downgrade(I, a, p, c):
            return ("weak", "pool")

        def cell_get(I, a, p, c):
            # &UnsafeCell<Inner> -> *mut Inner
            v = a[0].cell.v
            return Ref(v.f[0]) if isinstance(v, Struct) and 0 in v.f else a[0]

        def vec_deref(I, a, p, c):
            return a[0]          # &mut Vec<Slot> stands for the slot array

        def get_mut(I, a, p, c):
            slots = a[0].cell.v
            idx = z3.simplify(a[1])
            if not z3.is_bv_value(idx):
                raise Unsupported("symbolic slot index")
            i = idx.as_long()
            if i < len(slots.cells):
                return EnumV(1, [Cell(Ref(slots.cells[i]))])
            return EnumV(0)

        def opt_take(I, a, p, c):
            cell = a[0].cell
            old = cell.v
            cell.v = EnumV(0)
            return old

        def pop_front(I, a, p, c):
            q = a[0].cell.v
            if q.items:
                return EnumV(1, [Cell(q.items.pop(0))])
            return EnumV(0)

        def push_back(I, a, p, c):
            a[0].cell.v.items.append(a[1])
            return UNIT

        def try_branch(I, a, p, c):
            r = a[0]
            if c.startswith("<Option"):
                if r.variant == 1:
                    return EnumV(0, [Cell(r.fields[0].v)])
                return EnumV(1, [Cell(EnumV(0))])
            if r.variant == 0:
                return EnumV(0, [Cell(r.fields[0].v if r.fields else UNIT)])
            return EnumV(1, [Cell(EnumV(1, r.fields))])

        def from_residual(I, a, p, c):
            if c.startswith("<Option"):
                return EnumV(0)
            return EnumV(1, a[0].fields)

        def expect(I, a, p, c):
            ev = a[0]
            if ev.variant == 0:
                raise MirPanic("Option::expect(None): %s" % (a[1],))
            return ev.fields[0].v

        def io_error(I, a, p, c):
            return ("io-error", c.split("::")[-1])

        def mem_take(I, a, p, c):
            cell = a[0].cell
            old = cell.v
            cell.v = Slots(0)
            return old

        def into_iter(I, a, p, c):
            v = a[0]
            if isinstance(v, Slots):
                return ["slot-iter", v, 0]
            return v

        def flatten(I, a, p, c):
            return a[0]

        def iter_next(I, a, p, c):
            it = a[0].cell.v
            slots, i = it[1], it[2]
            while i < len(slots.cells):
                v = slots.cells[i].v
                i += 1
                if isinstance(v, EnumV) and v.variant == 1:
                    it[2] = i
                    return EnumV(1, [Cell(v.fields[0].v)])
            it[2] = i
            return EnumV(0)

        def iter_mut(I, a, p, c):
            v = a[0].cell.v if isinstance(a[0], Ref) else a[0]
            if isinstance(v, Slots):
                return ["slot-iter-mut", v, 0]
            raise Unsupported("iter_mut over %r" % (v,))

        def filter_map(I, a, p, c):
            return ["filter-map", a[0], a[1]]

        def filter_map_next(I, a, p, c):
            it = a[0].cell.v
            inner, f = it[1], it[2]
            while inner[2] < len(inner[1].cells):
                cell = inner[1].cells[inner[2]]
                inner[2] += 1
                if isinstance(f, tuple) and f[0] == "opaque" and re.search(r"Option::<.*>::take$", f[1]):
                    r = opt_take(I, [Ref(cell)], p, f[1])
                else:
                    r = yield from I.call_closure(f, [Ref(cell)], p)
                if isinstance(r, EnumV) and r.variant == 1:
                    return EnumV(1, [Cell(r.fields[0].v)])
            return EnumV(0)

        def min_u32(I, a, p, c):
            x, y = a[0], a[1]
            return z3.If(z3.ULE(x, y), x, y)

        def from_raw_parts(I, a, p, c):
            return Struct({0: Cell(a[0]), 1: Cell(a[1])})       # (ptr, len) = a slice

        def ident(I, a, p, c):
            return a[0]

        def noop(I, a, p, c):
            return UNIT

        return [
            (r"^std::rc::Weak::<.*>::upgrade$", upgrade), (r"<Rc<.*> as Deref>::deref$", rc_deref),
            (r"^Rc::<.*>::downgrade$|^std::rc::Rc::<.*>::downgrade$", downgrade),
            (r"UnsafeCell::<.*>::get$", cell_get),
            (r"<Vec<.*> as DerefMut>::deref_mut$|<Vec<.*> as Deref>::deref$", vec_deref),
            (r"slice::<impl \[.*\]>::get_mut::<usize>$|Vec::<.*>::get_mut", get_mut),
            (r"^Option::<NonNull<.*>>::take$", opt_take),
            (r"^VecDeque::<u16>::pop_front$", pop_front), (r"^VecDeque::<u16>::push_back$", push_back),
            (r" as Try>::branch$", try_branch), (r" as FromResidual<.*>>::from_residual$", from_residual),
            (r"^Option::<.*>::expect$", expect),
            (r"^std::io::Error::(?:new|other)", io_error),
            (r"^std::mem::take::<", mem_take),
            (r" as IntoIterator>::into_iter$", into_iter), (r" as Iterator>::flatten$|Iterator>::flatten$", flatten),
            (r"Flatten<.*> as Iterator>::next$", iter_next),
            (r"slice::<impl \[.*\]>::iter_mut$|Vec::<.*>::iter_mut$", iter_mut),
            (r" as Iterator>::filter_map::<", filter_map), (r"FilterMap<.*> as Iterator>::next$", filter_map_next),
            (r"<u32 as Ord>::min$|^core::cmp::Ord::min|::min$", min_u32),
            (r"^std::slice::from_raw_parts(?:_mut)?::<", from_raw_parts),
            (r"NonNull::<.*>::as_ptr$|NonNull::<.*>::cast::<|ptr::.*::cast::<", ident),
        ]

    # ------------------------------------------------------------------ state construction
    def mk_state(self, path, tag="s"):
        """Arbitrary well-formed pool: presence pattern and queue order chosen by the explorer."""
        W = self.mk_world(path)
        n = self.N
        present = [path.decide(z3.Bool("%s_present%d" % (tag, i))) for i in range(n)]
        ids = [i for i in range(n) if present[i]]
        perms = list(itertools.permutations(ids))
        order = perms[path.choose(len(perms), "queue order")] if len(perms) > 1 else (perms[0] if perms else ())
        slots = Slots(n)
        for i in range(n):
            if present[i]:
                slots.cells[i].v = EnumV(1, [Cell(("ptr", i))])
        queue = Fifo([z3.BitVecVal(i, 16) for i in order])
        # Inner { alloc, ctrl, size, bufs } -- indices read off the MIR of Shared::reset's closure
        reset_clo = [f for k, f in self.fns.items() if "src/buffer_pool.rs" in k and k.endswith("::reset::{closure#0}")]
        if len(reset_clo) != 1:
            raise Unsupported("Shared::reset closure not found")
        fm = self.field_map(reset_clo[0], r"\(\*_2\)")
        idx = {}
        for i, ty in fm.items():
            if "Vec<" in ty:
                idx["bufs"] = i
            elif "BufControl" in ty:
                idx["ctrl"] = i
            elif ty == "u32":
                idx["size"] = i
            elif "BufferAlloc" in ty:
                idx["alloc"] = i
        for k in ("bufs", "ctrl", "size", "alloc"):
            if k not in idx:
                raise Unsupported("Inner.%s not located (%r)" % (k, fm))

        def dealloc(I, a, p, c):
            W.deallocs.append((a[0], a[1]))
            return UNIT

        alloc = Struct({0: Cell(("fn", "allocate")), 1: Cell(dealloc)})
        fallback_ctrl = Struct({0: Cell(queue)})
        ctrl = Struct({0: Cell(fallback_ctrl)})
        inner = Struct({idx["alloc"]: Cell(alloc), idx["ctrl"]: Cell(ctrl), idx["size"]: Cell(W.size),
                        idx["bufs"]: Cell(slots)})
        shared = Struct({0: Cell(Struct({0: Cell(inner)}))})      # Shared { inner: UnsafeCell<Inner> }
        W.shared_cell = Cell(shared)
        W.slots, W.queue, W.alloc, W.present0 = slots, queue, alloc, list(present)
        pool = Struct({0: Cell(("weak", "pool"))})
        # live handles for the empty slots
        take_fn = self.F("src/buffer_pool.rs", "take", "BufferPool")
        W.handles = {}
        for i in range(n):
            if not present[i]:
                ln = z3.BitVec("%s_len%d" % (tag, i), 32)
                cp = z3.BitVec("%s_cap%d" % (tag, i), 32)
                path.assume(z3.And(z3.ULE(ln, cp), z3.ULE(cp, W.size), z3.UGE(cp, 1)))
                W.handles[i] = self.mk_handle(W, alloc, ln, cp, W.size, ("ptr", i), i)
        return W, pool

    def handle_layout(self):
        """field index of each BufferRef field, from the aggregate in BufferPool::take"""
        take_fn = self.F("src/buffer_pool.rs", "take", "BufferPool")
        for stmts in take_fn.blocks.values():
            for s in stmts:
                m = re.search(r"= buffer_pool::BufferRef \{ (.*) \};?$", s)
                if m:
                    names = [p.split(":")[0].strip() for p in Interp.split_top(m.group(1))]
                    return {nme: i for i, nme in enumerate(names)}
        raise Unsupported("BufferRef aggregate not found in BufferPool::take")

    def mk_handle(self, W, alloc, ln, cp, full, ptr, bid):
        L = self.handle_layout()
        f = {L["alloc"]: Cell(alloc), L["len"]: Cell(ln), L["cap"]: Cell(cp), L["full_cap"]: Cell(full),
             L["shared"]: Cell(("weak", "pool")), L["ptr"]: Cell(ptr), L["buffer_id"]: Cell(z3.BitVecVal(bid, 16))}
        return Struct(f)

    def interp(self, W):
        I = Interp(self.fns, self.consts, self.summaries(W), resolver=self.resolver)
        return I

    def done(self, I):
        self.encoded |= I.called

    # ------------------------------------------------------------------ helpers for obligations
    def snapshot(self, W):
        pres = [isinstance(c.v, EnumV) and c.v.variant == 1 for c in W.slots.cells]
        ptrs = [c.v.fields[0].v if p else None for c, p in zip(W.slots.cells, pres)]
        q = [z3.simplify(x).as_long() for x in W.queue.items]
        return pres, ptrs, q

    def well_formed(self, W, live_ids):
        pres, ptrs, q = self.snapshot(W)
        obs = []
        n = len(pres)
        obs.append(("queue holds every free buffer id exactly once", sorted(q) == [i for i in range(n) if pres[i]]))
        obs.append(("a buffer is either in its slot or held by exactly one live handle (conservation)",
                    all(pres[i] != (i in live_ids) for i in range(n))))
        obs.append(("each slot holds its own buffer", all(ptrs[i] == ("ptr", i) for i in range(n) if pres[i])))
        return obs

    # ------------------------------------------------------------------ checks
    def check_pop(self, p):
        W, pool = self.mk_state(p)
        I = self.interp(W)
        pres0, ptrs0, q0 = self.snapshot(W)
        L = self.handle_layout()
        r = I.run_to_end(I.call_fn(self.F("src/buffer_pool.rs", "pop", "BufferPool"), [Ref(Cell(pool))], p))
        self.done(I)
        live = set(W.handles)
        obs = []
        if r.variant == 0:
            h = r.fields[0].v
            bid = z3.simplify(h.f[L["buffer_id"]].v).as_long()
            obs.append(("pop succeeds only when a buffer is free", len(q0) > 0))
            obs.append(("pop hands out the buffer at the front of the free queue", len(q0) > 0 and bid == q0[0]))
            obs.append(("the handle points at that buffer's memory", h.f[L["ptr"]].v == ("ptr", bid)))
            obs.append(("no other live handle holds the same buffer (exclusive ownership)", bid not in live))
            obs.append(("a fresh handle has len 0", h.f[L["len"]].v == 0))
            obs.append(("a fresh handle has cap = full capacity = buffer size",
                        z3.And(h.f[L["cap"]].v == W.size, h.f[L["full_cap"]].v == W.size)))
            live = live | {bid}
        else:
            obs.append(("pop reports exhaustion exactly when no buffer is free", len(q0) == 0))
        obs += self.well_formed(W, live)
        return obs

    def check_drop(self, p):
        """drop of a live handle (pool alive or already gone)"""
        W, pool = self.mk_state(p)
        if not W.handles:
            raise Infeasible()
        ids = sorted(W.handles)
        bid = ids[p.choose(len(ids), "which handle")]
        W.alive = p.choose(2, "pool alive") == 0
        I = self.interp(W)
        pres0, ptrs0, q0 = self.snapshot(W)
        h = W.handles.pop(bid)
        I.run_to_end(I.call_fn(self.F("src/buffer_pool.rs", "drop", "BufferRef"), [Ref(Cell(h))], p))
        self.done(I)
        pres, ptrs, q = self.snapshot(W)
        obs = []
        if W.alive:
            obs.append(("dropping a handle puts its buffer back into its own slot", pres[bid] and ptrs[bid] == ("ptr", bid)))
            obs.append(("its id returns to the free queue exactly once, at the back", q == q0 + [bid]))
            obs.append(("nothing is deallocated while the pool lives", len(W.deallocs) == 0))
            obs += self.well_formed(W, set(W.handles))
        else:
            obs.append(("a handle outliving the pool frees its own memory exactly once",
                        len(W.deallocs) == 1 and W.deallocs[0][0] == ("ptr", bid)))
            obs.append(("... with the full buffer length", len(W.deallocs) == 1 and z3.simplify(W.deallocs[0][1] == W.size)))
            obs.append(("and touches nothing else", (pres, q) == (pres0, q0)))
        return obs

    def check_release(self, p):
        """BufferPoolRoot::release (what Proactor drop runs before it drops the in-flight operations)"""
        W, pool = self.mk_state(p)
        I = self.interp(W)
        pres0, ptrs0, q0 = self.snapshot(W)
        root = Struct({0: Cell(Ref(W.shared_cell))})
        r = I.run_to_end(I.call_fn(self.F("src/buffer_pool.rs", "release", "BufferPoolRoot"),
                                   [Ref(Cell(root)), Ref(Cell(("driver",)))], p))
        self.done(I)
        inner_bufs = None
        shared = W.shared_cell.v
        inner = shared.f[0].v.f[0].v
        for c in inner.f.values():
            if isinstance(c.v, Slots):
                inner_bufs = c.v
        freed = [d[0] for d in W.deallocs]
        obs = [("release succeeds on the fallback pool", isinstance(r, EnumV) and r.variant == 0)]
        for i in range(self.N):
            if pres0[i]:
                obs.append(("release frees pooled buffer %d exactly once" % i, freed.count(("ptr", i)) == 1))
            else:
                obs.append(("release leaves buffer %d, held by a live handle, alone" % i, freed.count(("ptr", i)) == 0))
        obs.append(("every deallocation uses the full buffer length", all(z3.is_true(z3.simplify(d[1] == W.size)) for d in W.deallocs)))
        obs.append(("after release the pool has no slot that could take a buffer back (handles released later free "
                    "their own memory)", inner_bufs is not None and len(inner_bufs.cells) == 0))
        return obs

    def check_drop_released(self, p):
        """drop of a handle after BufferPoolRoot::release, while the root object itself still exists"""
        W, pool = self.mk_state(p)
        if not W.handles:
            raise Infeasible()
        ids = sorted(W.handles)
        bid = ids[p.choose(len(ids), "which handle")]
        # the released state: slot table gone, pooled buffers already freed
        shared = W.shared_cell.v
        inner = shared.f[0].v.f[0].v
        for c in inner.f.values():
            if isinstance(c.v, Slots):
                c.v = Slots(0)
        I = self.interp(W)
        h = W.handles.pop(bid)
        I.run_to_end(I.call_fn(self.F("src/buffer_pool.rs", "drop", "BufferRef"), [Ref(Cell(h))], p))
        self.done(I)
        return [("a handle dropped after the pool was released frees its own memory exactly once",
                 len(W.deallocs) == 1 and W.deallocs[0][0] == ("ptr", bid)),
                ("... with the full buffer length", len(W.deallocs) == 1 and z3.is_true(z3.simplify(W.deallocs[0][1] == W.size)))]

    def check_geometry(self, p):
        """set_capacity / set_len with symbolic arguments keep len <= cap <= full_cap; views match"""
        W, pool = self.mk_state(p)
        if not W.handles:
            raise Infeasible()
        bid = sorted(W.handles)[0]
        h = W.handles[bid]
        L = self.handle_layout()
        I = self.interp(W)
        which = p.choose(2, "op")
        arg = z3.BitVec("arg", 64)
        p.assume(z3.ULE(arg, z3.BitVecVal(2 ** 32 - 1, 64)))
        if which == 0:
            I.run_to_end(I.call_fn(self.F("src/buffer_pool.rs", "set_capacity", "BufferRef"), [Ref(Cell(h)), arg], p))
        else:
            I.run_to_end(I.call_fn(self.F("src/buffer_pool.rs", "set_len", "BufferRef"), [Ref(Cell(h)), arg], p))
        ln, cp, fc = h.f[L["len"]].v, h.f[L["cap"]].v, h.f[L["full_cap"]].v
        obs = [("len <= cap after set_capacity/set_len", z3.ULE(ln, cp)), ("cap <= full_cap", z3.ULE(cp, fc)),
               ("full_cap unchanged", fc == W.size)]
        u = I.run_to_end(I.call_fn(self.F("src/buffer_pool.rs", "as_uninit", "BufferRef"), [Ref(Cell(h))], p))
        d = I.run_to_end(I.call_fn(self.F("src/buffer_pool.rs", "deref", "BufferRef"), [Ref(Cell(h))], p))
        self.done(I)

        def plen(x):
            x = x.f[1].v
            return x if x.size() == 64 else z3.ZeroExt(64 - x.size(), x)
        obs.append(("as_uninit exposes exactly cap bytes of this handle's buffer",
                    z3.And(plen(u) == z3.ZeroExt(32, cp), z3.BoolVal(u.f[0].v == ("ptr", bid)))))
        obs.append(("deref exposes exactly len bytes", z3.And(plen(d) == z3.ZeroExt(32, ln), z3.BoolVal(d.f[0].v == ("ptr", bid)))))
        return obs

    def check_public_take(self, p):
        """BufferPool::take(id) as public API on the fallback pool (EXPECTED to break the invariant: known finding)"""
        W, pool = self.mk_state(p)
        bid = p.choose(self.N, "id")
        I = self.interp(W)
        pres0, _, q0 = self.snapshot(W)
        r = I.run_to_end(I.call_fn(self.F("src/buffer_pool.rs", "take", "BufferPool"),
                                   [Ref(Cell(pool)), z3.BitVecVal(bid, 16)], p))
        self.done(I)
        live = set(W.handles)
        obs = []
        opt = r.fields[0].v
        obs.append(("take(id) yields a handle iff the buffer is free", (opt.variant == 1) == pres0[bid]))
        if opt.variant == 1:
            live = live | {bid}
        obs += self.well_formed(W, live)
        return obs

    def check_public_reset(self, p):
        """BufferPool::reset(id) on a free buffer (EXPECTED to duplicate the id in the queue: known finding)"""
        W, pool = self.mk_state(p)
        bid = p.choose(self.N, "id")
        I = self.interp(W)
        I.run_to_end(I.call_fn(self.F("src/buffer_pool.rs", "reset", "BufferPool"),
                               [Ref(Cell(pool)), z3.BitVecVal(bid, 16)], p))
        self.done(I)
        return self.well_formed(W, set(W.handles))

    CHECKS = ["pop", "drop", "release", "drop_released", "geometry"]
    KF_CHECKS = ["public_take", "public_reset"]
