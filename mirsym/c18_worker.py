"""C18 (what the dispatcher's own code contributes) — the worker loop and the task wrapper of compio-dispatcher/src/lib.rs, from MIR.

  * the `async move` block every worker runs inside `block_on_at` (new_impl's innermost closure):
        while let Ok(Spawning { task, meta }) = receiver.recv_async().await {
            let task = Runtime::with_current(|rt| task.spawn(rt, meta));
            if concurrent { task.detach() } else { task.await.ok(); }
        }
  * `<Concrete<F, R> as Spawnable>::spawn` and the `async move` block it spawns (call the closure once, await it, send the result on
    the task's own oneshot sender).

The MPMC channel (flume), the runtime's spawn / JoinHandle and the oneshot channel are abstract: `recv_async()` answers Pending, a
task, or "closed and drained"; a JoinHandle answers Pending or finished; the user future answers Pending or its value.  That each
message of the channel reaches exactly one worker, and everything about threads, is the third-party channel's / the OS's and is NOT
part of this check.
"""
import re

import z3

from interp import Interp, Struct, EnumV, Ref, Cell, UNIT, Unsupported, Infeasible, MirPanic, Coroutine, Closure, load, Path

SUMMARY_TEXT = [
    "flume Receiver::recv_async = a future whose poll answers Pending | Ready(Ok(task k)) | Ready(Err) (closed and drained); "
    "Runtime::with_current(f) = f(runtime); <dyn Spawnable>::spawn = records the spawn, returns the task's JoinHandle token; "
    "JoinHandle::poll = Pending | Ready(Ok) | Ready(Err); JoinHandle::detach recorded",
    "Runtime::spawn_at = returns the future it was given (so the wrapper's async block can be driven here); the user closure and its "
    "future are tokens (call recorded; poll = Pending | Ready(value)); oneshot::Sender::send recorded (may fail: receiver gone)",
    "Pin::new_unchecked, IntoFuture, Result::ok, Box<_> deref / drop by definition",
]


def deref(x):
    while isinstance(x, Ref):
        x = x.cell.v
    return x


class WorkerModel:
    def __init__(self, mir_path, max_tasks=3, max_pending=2):
        self.fns, self.consts = load(mir_path)
        self.max_tasks, self.max_pending = max_tasks, max_pending
        self.encoded = set()

    def loop_fn(self):
        """poll fn of the worker's async block: the only coroutine that calls recv_async"""
        c = [f for k, f in self.fns.items() if "_1: Pin<&mut {async block@" in f.sig
             and any("recv_async" in s for st in f.blocks.values() for s in st)]
        if len(c) != 1:
            raise Unsupported("cannot locate the worker loop (%d candidates)" % len(c))
        return c[0]

    def spawn_fn(self):
        c = [f for k, f in self.fns.items() if k.endswith("::spawn") and "_1: Box<Concrete<F, R>>" in f.sig]
        if len(c) != 1:
            raise Unsupported("cannot locate <Concrete as Spawnable>::spawn (%d)" % len(c))
        return c[0]

    def task_block_fn(self):
        c = [f for k, f in self.fns.items() if "_1: Pin<&mut {async block@" in f.sig
             and any("oneshot::Sender" in s for st in f.blocks.values() for s in st)]
        if len(c) != 1:
            raise Unsupported("cannot locate the task wrapper's async block (%d)" % len(c))
        return c[0]

    def resolver(self, callee):
        return None

    def world(self, p):
        W = type("W", (), {})()
        W.events = []         # ("recv-poll",) ("recv", k) ("closed",) ("spawn", k) ("detach", k) ("join-poll", k, answer)
        W.received = 0
        W.pendings = 0
        me = self

        def pin(v):
            return Struct({0: Cell(v)})

        def s_recv_async(I, a, pth, c):
            return ("recv-future",)

        def s_recv_poll(I, a, pth, c):
            W.events.append(("recv-poll",))
            opts = ["closed"]
            if W.received < me.max_tasks:
                opts.append("task")
            if W.pendings < me.max_pending:
                opts.append("pending")
            k = opts[pth.choose(len(opts), "channel: " + " / ".join(opts))]
            if k == "pending":
                W.pendings += 1
                return EnumV(1)
            if k == "closed":
                W.events.append(("closed",))
                return EnumV(0, [Cell(EnumV(1, [Cell(("recv-error",))]))])
            W.received += 1
            W.events.append(("recv", W.received))
            sp = Struct({0: Cell(("task", W.received)), 1: Cell(("meta", W.received))})
            return EnumV(0, [Cell(EnumV(0, [Cell(sp)]))])

        def s_with_current(I, a, pth, c):
            return (yield from I.call_closure(a[0], [Ref(Cell(("runtime",)))], pth))

        def s_dyn_spawn(I, a, pth, c):
            t = deref(a[0])
            W.events.append(("spawn", t[1]))
            return ("join-handle", t[1])

        def s_detach(I, a, pth, c):
            W.events.append(("detach", deref(a[0])[1]))
            return UNIT

        def s_join_poll(I, a, pth, c):
            h = deref(a[0])
            if isinstance(h, Struct):
                h = deref(h.f[0].v)
            opts = ["finished", "panicked"]
            if W.pendings < me.max_pending:
                opts.append("pending")
            k = opts[pth.choose(len(opts), "task %s: " % h[1] + " / ".join(opts))]
            W.events.append(("join-poll", h[1], k))
            if k == "pending":
                W.pendings += 1
                return EnumV(1)
            return EnumV(0, [Cell(EnumV(0 if k == "finished" else 1, [Cell(UNIT if k == "finished" else ("join-error",))]))])

        # ---- iterator plumbing a batching variant of the loop would use (std::iter::once / chain / map / collect over the channel's
        # try_iter): evaluated eagerly at collect(); try_iter hands out 0..2 more queued tasks by choice
        def s_once(I, a, pth, c):
            return ("it-once", a[0])

        def s_try_iter(I, a, pth, c):
            return ("it-try",)

        def s_chain(I, a, pth, c):
            return ("it-chain", a[0], a[1])

        def s_map(I, a, pth, c):
            return ("it-map", a[0], a[1])

        def items_of(it, pth):
            if it[0] == "it-once":
                return [it[1]]
            if it[0] == "it-try":
                room = max(0, me.max_tasks - W.received)
                n = pth.choose(min(2, room) + 1, "tasks already queued (try_iter)")
                out = []
                for _ in range(n):
                    W.received += 1
                    W.events.append(("recv", W.received))
                    out.append(Struct({0: Cell(("task", W.received)), 1: Cell(("meta", W.received))}))
                return out
            if it[0] == "it-chain":
                return items_of(it[1], pth) + items_of(it[2], pth)
            raise Unsupported("iterator %r" % (it[0],))

        def s_collect(I, a, pth, c):
            it = a[0]
            if it[0] != "it-map":
                raise Unsupported("collect of %r" % (it[0],))
            out = []
            for x in items_of(it[1], pth):
                out.append((yield from I.call_closure(it[2], [x], pth)))
            return ("vec", out)

        def s_vec_into_iter(I, a, pth, c):
            return ("vec-iter", list(a[0][1]))

        def s_vec_next(I, a, pth, c):
            it = deref(a[0])
            return EnumV(1, [Cell(it[1].pop(0))]) if it[1] else EnumV(0)

        # ---- the task wrapper
        def s_spawn_at(I, a, pth, c):
            W.spawned_future = a[1]
            return ("join-handle", "wrapper")

        def s_call_user(I, a, pth, c):
            W.events.append(("user-call",))
            return ("user-future",)

        def s_user_poll(I, a, pth, c):
            if W.pendings < me.max_pending and pth.choose(2, "user future: ready / pending") == 1:
                W.pendings += 1
                return EnumV(1)
            W.events.append(("user-ready",))
            return EnumV(0, [Cell(("result",))])

        def s_send(I, a, pth, c):
            ok = pth.choose(2, "receiver: alive / gone") == 0
            W.events.append(("send", deref(a[0]), a[1], ok))
            return EnumV(0, [Cell(UNIT)]) if ok else EnumV(1, [Cell(a[1])])

        def s_result_ok(I, a, pth, c):
            r = a[0]
            return EnumV(1, [Cell(r.fields[0].v if r.fields else UNIT)]) if r.variant == 0 else EnumV(0)

        def s_identity(I, a, pth, c):
            return a[0]

        S = [
            (r"recv_async$", s_recv_async),
            (r"^<RecvFut<'_, Spawning> as (?:std::future::)?Future>::poll$", s_recv_poll),
            (r"^Runtime::with_current::<", s_with_current),
            (r"^<dyn Spawnable \+ (?:std::marker::)?Send as Spawnable>::spawn$", s_dyn_spawn),
            (r"^compio_runtime::JoinHandle::<\(\)>::detach$", s_detach),
            (r"^<compio_runtime::JoinHandle<\(\)> as (?:std::future::)?Future>::poll$", s_join_poll),
            (r"^(?:std::iter::)?once::<Spawning>$", s_once), (r"^flume::Receiver::<Spawning>::try_iter$", s_try_iter),
            (r"^<.* as Iterator>::chain::<", s_chain), (r"^<.* as Iterator>::map::<", s_map),
            (r"^<Map<.*> as Iterator>::collect::<Vec<", s_collect),
            (r"^<Vec<compio_runtime::JoinHandle<\(\)>> as IntoIterator>::into_iter$", s_vec_into_iter),
            (r"^<std::vec::IntoIter<compio_runtime::JoinHandle<\(\)>> as Iterator>::next$", s_vec_next),
            (r"^Runtime::spawn_at::<", s_spawn_at),
            (r"^<F as FnOnce<\(\)>>::call_once$", s_call_user),
            (r"^<Fut as (?:std::future::)?Future>::poll$", s_user_poll),
            (r"^futures_channel::oneshot::Sender::<R>::send$", s_send),
            (r"^Result::<.*>::ok$", s_result_ok),
            (r" as (?:std::future::)?IntoFuture>::into_future$", s_identity),
            (r"^Pin::<.*>::new_unchecked$", lambda I, a, pth, c: pin(a[0])),
            (r"^<Box<Concrete<F, R>> as Drop>::drop$", lambda I, a, pth, c: UNIT),
        ]
        I = Interp(self.fns, self.consts, S, resolver=self.resolver)
        I.drop_hook = lambda *a: None
        return W, I

    # ------------------------------------------------------------------ the worker loop
    def check_worker(self, p):
        W, I = self.world(p)
        concurrent = p.choose(2, "mode: sequential / concurrent") == 1
        # upvars of the async block, by name (order read from the MIR of the closure that builds it)
        fn = self.loop_fn()
        up = self.upvar_order(fn)
        vals = {"receiver": ("receiver",), "concurrent": z3.BoolVal(concurrent)}
        co = Coroutine({i: Cell(vals[n]) for i, n in enumerate(up)})
        cx = Ref(Cell(("ctx",)))
        r = None
        for _ in range(self.max_tasks * 2 + self.max_pending + 2):
            r = I.run_to_end(I.call_fn(fn, [Struct({0: Cell(Ref(Cell(co)))}), cx], p))
            if r.variant == 0:
                break
        self.encoded |= I.called
        if r.variant != 0:
            raise Infeasible()
        ev = W.events
        recvs = [e[1] for e in ev if e[0] == "recv"]
        spawns = [e[1] for e in ev if e[0] == "spawn"]
        obs = [("every task taken from the channel is started exactly once, in the order taken", z3.BoolVal(spawns == recvs)),
               ("the worker leaves its loop exactly when the channel reports closed and drained (join waits for that)",
                z3.BoolVal(bool(ev) and ev[-1] == ("closed",) and sum(1 for e in ev if e == ("closed",)) == 1))]
        if concurrent:
            det = [e[1] for e in ev if e[0] == "detach"]
            obs.append(("concurrent mode: each task is detached right after it was started, never awaited",
                        z3.BoolVal(det == recvs and not [e for e in ev if e[0] == "join-poll"])))
        else:
            okseq = True
            running = None
            for e in ev:
                if e[0] == "recv-poll" and running is not None:
                    okseq = False          # asked the channel for the next task while one was still running
                if e[0] == "spawn":
                    if running is not None:
                        okseq = False
                    running = e[1]
                if e[0] == "join-poll" and e[2] != "pending":
                    if running != e[1]:
                        okseq = False
                    running = None
            obs.append(("sequential mode: the channel is not asked for the next task, and no task is started, while the previous one has "
                        "not finished (a worker never overlaps two tasks)", z3.BoolVal(okseq)))
            obs.append(("sequential mode: when the worker leaves its loop every task it started has finished; nothing is detached",
                        z3.BoolVal(running is None and not [e for e in ev if e[0] == "detach"])))
        return obs

    def upvar_order(self, poll_fn):
        """field order of the coroutine = order of the upvars in the aggregate that builds it"""
        m = re.search(r"\{async block@([^}]*)\}", poll_fn.sig)
        span = m.group(1)
        for f in self.fns.values():
            for stmts in f.blocks.values():
                for st in stmts:
                    mm = re.search(r"\{coroutine@" + re.escape(span) + r"(?: \(#\d+\))?\} \{ (.*) \}", st)
                    if mm:
                        return [x.split(":")[0].strip() for x in mm.group(1).split(",")]
        raise Unsupported("cannot find where the coroutine %s is built" % span)

    # ------------------------------------------------------------------ the task wrapper
    def check_task(self, p):
        W, I = self.world(p)
        concrete = Struct({0: Cell(("callback",)), 1: Cell(("user-closure",))})
        # Box<T> as MIR sees it: Box { 0: Unique { 0: NonNull(pointer) } }; the Transmute to *const T keeps the pointer
        boxed = Struct({0: Cell(Struct({0: Cell(Ref(Cell(concrete)))}))})
        h = I.run_to_end(I.call_fn(self.spawn_fn(), [boxed, Ref(Cell(("runtime",))), ("meta",)], p))
        fut = W.spawned_future
        if not isinstance(fut, Coroutine):
            raise Unsupported("spawn did not hand the runtime an async block: %r" % (fut,))
        fn = self.task_block_fn()
        cx = Ref(Cell(("ctx",)))
        r = None
        for _ in range(self.max_pending + 2):
            r = I.run_to_end(I.call_fn(fn, [Struct({0: Cell(Ref(Cell(fut)))}), cx], p))
            if r.variant == 0:
                break
        self.encoded |= I.called
        if r.variant != 0:
            raise Infeasible()
        ev = W.events
        calls = [e for e in ev if e[0] == "user-call"]
        sends = [e for e in ev if e[0] == "send"]
        return [("the dispatched closure is called exactly once", z3.BoolVal(len(calls) == 1)),
                ("its result is sent exactly once, on the task's own sender, after the future completed",
                 z3.BoolVal(len(sends) == 1 and sends[0][1] == ("callback",) and sends[0][2] == ("result",)
                            and ev.index(("user-ready",)) < ev.index(sends[0]))),
                ("a receiver that is gone does not make the task fail (the result is dropped)", z3.BoolVal(r.variant == 0))]

    CHECKS = ["worker", "task"]
