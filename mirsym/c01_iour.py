"""C01, driver layer (io_uring) — the reference the driver leaks to the kernel for every accepted submission comes
back exactly once.

`kani/driver-stub` checks everything *above* the drivers under the contract "one reference per accepted submission,
returned by exactly one final completion".  This module checks that contract for the io_uring driver's own
completion handling, interpreted from MIR: `Driver::poll_entries` (with `create_entry`, `more`) and
`<Driver as Drop>::drop`, against an adversarial but contract-abiding kernel:

  * K operations in flight (their raw keys are in `in_flight`, one leaked reference each);
  * the completion queue holds a solver-chosen sequence of entries: for every operation any number of
    intermediate completions (IORING_CQE_F_MORE: multishot results, the result half of a zero-copy send) followed by
    at most one final completion; plus CANCEL / NOTIFY bookkeeping entries.

Ghost state: per operation the number of leaked references not yet re-materialised.  `ErasedKey::from_raw`
re-materialises one (never more than were leaked: that is the double free), dropping an `ErasedKey` / `Entry::notify`
releases it.  Obligations: after `poll_entries` an operation is still in `in_flight` with its reference leaked iff
no final completion was seen; after `Driver::drop` every reference has come back exactly once, whatever was queued.
"""
import re

import z3

from interp import Interp, Struct, EnumV, Ref, Cell, UNIT, Unsupported, Infeasible, MirPanic, load, Path, strip_generics

SUMMARY_TEXT = [
    "io_uring::IoUring::completion() / CompletionQueue::{is_empty,sync,into_iter,next} / cqueue::Entry::{user_data,flags,result} = "
    "an adversarial queue: per in-flight operation any number of IORING_CQE_F_MORE entries then at most one final entry, plus "
    "CANCEL / NOTIFY entries",
    "HashSet<usize> in_flight = a set (insert / remove / drain)",
    "ErasedKey::from_raw = re-materialise one leaked reference (ghost count, must not go below zero); drop of an ErasedKey, "
    "Entry::notify (consumes the entry's key) = release of that reference; BorrowedKey::from_raw / borrow / push_multishot / "
    "wake_by_ref = no ownership effect",
    "notifier, DriverFlags, Extra, create_result, ManuallyDrop<IoUring>::drop (ring close) = no-ops on the ghost state",
]

CQE_F_MORE = 2


class Lazy:
    def __init__(self, seeded, name):
        self.cells = dict(seeded)
        self.name = name

    def field_cell(self, idx):
        return self.cells.setdefault(idx, Cell(("opaque", "%s-field-%d" % (self.name, idx))))


class IourDriver:
    def __init__(self, mir_path):
        self.fns, self.consts = load(mir_path)
        self.encoded = set()

    def F(self, suffix, sig_part=None):
        c = [f for k, f in self.fns.items() if "driver/iour/mod.rs" in (k + f.sig) and k.endswith(suffix)
             and (sig_part is None or sig_part in f.sig)]
        if len(c) != 1:
            c = [f for k, f in self.fns.items() if k == suffix.lstrip(":")]
        if len(c) != 1:
            raise Unsupported("cannot locate %s (%d candidates)" % (suffix, len(c)))
        return c[0]

    def resolver(self, callee):
        clean = strip_generics(callee)
        m = re.match(r"^(?:driver::iour::)?Driver::(push_raw|poll_entries)$", clean)
        if m:
            return self.F("::" + m.group(1))
        if clean in ("more", "create_entry", "create_result"):
            c = [f for k, f in self.fns.items() if k == clean or k.endswith("iour::" + clean)]
            if len(c) == 1:
                return c[0]
        return None

    def field_index(self, fn, ty_regex):
        for stmts in fn.blocks.values():
            for s in stmts:
                for m in re.finditer(r"\(\(\*_1\)\.(\d+): ((?:[^()]|\([^()]*\))+)\)", s):
                    if re.fullmatch(ty_regex, m.group(2).strip()):
                        return int(m.group(1))
        raise Unsupported("no field of type %s in %s" % (ty_regex, fn.name))

    def world(self, path, nkeys, max_entries):
        """in-flight keys + an adversarial completion queue chosen by the explorer"""
        W = type("W", (), {})()
        W.keys = [0x1000 * (i + 1) for i in range(nkeys)]
        W.leaked = {k: 1 for k in W.keys}
        W.in_flight = set(W.keys)
        W.violation = None
        W.final_seen = {k: False for k in W.keys}
        W.ring_closed = False
        # queue: sequence of (user_data, flags)
        q = []
        finals = set()
        n = path.choose(max_entries + 1, "queue length")
        for _ in range(n):
            kinds = [("more", k) for k in W.keys if k not in finals] + [("final", k) for k in W.keys if k not in finals] + \
                    [("cancel", None), ("notify", None)]
            kind, k = kinds[path.choose(len(kinds), "entry")]
            if kind == "more":
                q.append((k, CQE_F_MORE))
            elif kind == "final":
                q.append((k, 0))
                finals.add(k)
            elif kind == "cancel":
                q.append(("CANCEL", 0))
            else:
                q.append(("NOTIFY", 0))
        W.queue = q
        W.finals = finals
        return W

    def interp(self, W, fn_for_fields):
        me = self

        def viol(msg):
            if W.violation is None:
                W.violation = msg

        CANCEL = self.const_value("CANCEL")
        NOTIFY = self.const_value("NOTIFY")

        def ud(entry):
            k = entry[0]
            return z3.BitVecVal(CANCEL if k == "CANCEL" else NOTIFY if k == "NOTIFY" else k, 64)

        def s_completion(I, a, p, c):
            return ["cq", 0]

        def s_is_empty(I, a, p, c):
            return z3.BoolVal(W.cq_pos >= len(W.queue))

        def s_unit(I, a, p, c):
            return UNIT

        def s_identity(I, a, p, c):
            return a[0]

        W.cq_pos = 0          # the completion queue is consumed: an entry is seen once, whoever iterates

        def s_next(I, a, p, c):
            if W.cq_pos < len(W.queue):
                e = W.queue[W.cq_pos]
                W.cq_pos += 1
                return EnumV(1, [Cell(("cqe", e))])
            return EnumV(0)

        def ent(x):
            v = x.cell.v if isinstance(x, Ref) else x
            return v[1]

        def s_user_data(I, a, p, c):
            return ud(ent(a[0]))

        def s_flags(I, a, p, c):
            return z3.BitVecVal(ent(a[0])[1], 32)

        def s_result(I, a, p, c):
            return z3.BitVecVal(1, 32)

        def key_of(v):
            v = z3.simplify(v)
            if not z3.is_bv_value(v):
                raise Unsupported("symbolic raw key")
            return v.as_long()

        def s_from_raw(I, a, p, c):
            k = key_of(a[0])
            if k not in W.leaked:
                viol("ErasedKey::from_raw on %#x, which is not a key the driver leaked" % k)
                return ("key", k)
            W.leaked[k] -= 1
            if W.leaked[k] < 0:
                viol("the kernel's reference to operation %#x is re-materialised a second time (double free of the operation "
                     "while its submitter may still hold it)" % k)
            return ("key", k)

        def s_borrowed_from_raw(I, a, p, c):
            return ("borrowed", key_of(a[0]))

        def s_drop_key(I, a, p, c):
            return UNIT

        def s_entry_new(I, a, p, c):
            return Struct({0: Cell(a[0]), 1: Cell(a[1]), 2: Cell(z3.BitVecVal(0, 32))})

        def s_notify(I, a, p, c):
            return UNIT

        def s_set_remove(I, a, p, c):
            k = key_of(a[1].cell.v if isinstance(a[1], Ref) else a[1])
            had = k in W.in_flight
            W.in_flight.discard(k)
            return z3.BoolVal(had)

        def s_set_drain(I, a, p, c):
            items = sorted(W.in_flight)
            W.in_flight.clear()
            return ["drain", items, 0]

        def s_drain_next(I, a, p, c):
            it = a[0].cell.v
            if it[2] < len(it[1]):
                k = it[1][it[2]]
                it[2] += 1
                return EnumV(1, [Cell(z3.BitVecVal(k, 64))])
            return EnumV(0)

        def s_ring_close(I, a, p, c):
            W.ring_closed = True
            return UNIT

        def s_opaque(I, a, p, c):
            return Ref(Cell(Lazy({}, "borrowed-op")))      # an object whose fields may be projected but never inspected

        def s_ok_unit(I, a, p, c):
            return EnumV(0, [Cell(UNIT)])

        def s_more(I, a, p, c):
            # io_uring::cqueue::more(flags) = flags & IORING_CQE_F_MORE != 0 (kernel ABI: bit 1)
            return (a[0] & z3.BitVecVal(CQE_F_MORE, a[0].size())) != z3.BitVecVal(0, a[0].size())

        W.sq_pushes = 0
        W.sq_room_after = getattr(W, "sq_room_after", 0)
        W.new_key = getattr(W, "new_key", None)
        W.new_key_dropped = 0

        def s_as_raw(I, a, p, c):
            v = a[0].cell.v if isinstance(a[0], Ref) else a[0]
            return z3.BitVecVal(v[1], 64)

        def s_into_raw(I, a, p, c):
            v = a[0]
            k = v[1]
            W.leaked[k] = W.leaked.get(k, 0) + 1
            W.consumed_new_key = True
            return z3.BitVecVal(k, 64)

        def s_sq_push(I, a, p, c):
            # the submission queue has room after `sq_room_after` rounds of submit + reap (explorer's choice)
            W.sq_pushes += 1
            if W.sq_pushes > W.sq_room_after:
                return EnumV(0, [Cell(UNIT)])
            return EnumV(1, [Cell(("push-error",))])

        def s_submit_auto(I, a, p, c):
            k = p.choose(3, "submit_auto result")
            if k == 0:
                return EnumV(0, [Cell(UNIT)])
            if k == 1:
                return EnumV(1, [Cell(("io-error", 22))])       # TimedOut: treated as "go on"
            W.submit_failed = True
            return EnumV(1, [Cell(("io-error", 1))])            # a real error: push_raw gives up

        def s_err_kind(I, a, p, c):
            e = a[0].cell.v if isinstance(a[0], Ref) else a[0]
            return EnumV(e[1])

        def s_set_insert(I, a, p, c):
            k = key_of(a[1])
            new = k not in W.in_flight
            W.in_flight.add(k)
            return z3.BoolVal(new)

        def s_try_branch(I, a, p, c):
            r = a[0]
            return EnumV(0, [Cell(r.fields[0].v if r.fields else UNIT)]) if r.variant == 0 else EnumV(1, [Cell(r)])

        def s_from_residual(I, a, p, c):
            r = a[0]
            return EnumV(1, [Cell(r.fields[0].v)]) if isinstance(r, EnumV) and r.fields else EnumV(1, [Cell(("io-error", 1))])

        S = [
            (r"^ErasedKey::as_raw$", s_as_raw), (r"^ErasedKey::into_raw$", s_into_raw),
            (r"squeue::Entry::user_data$", s_identity), (r"^IoUring(?:::<.*>)?::submission$", s_completion),
            (r"^SubmissionQueue::<.*>::push$", s_sq_push), (r"^SubmissionQueue::<.*>::sync$", s_unit),
            (r"^std::mem::drop::<SubmissionQueue<.*>>$", s_unit),
            (r"^(?:driver::iour::)?Driver::submit_auto$", s_submit_auto), (r"^std::io::Error::kind$", s_err_kind),
            (r"^HashSet::<usize>::insert$", s_set_insert),
            (r" as Try>::branch$", s_try_branch), (r" as FromResidual<.*>>::from_residual$", s_from_residual),
            (r"^(?:io_uring::cqueue::)?more$", s_more),
            (r"ManuallyDrop<IoUring.*> as DerefMut>::deref_mut$", s_identity),
            (r"^IoUring(?:::<.*>)?::completion$", s_completion),
            (r"^CompletionQueue::<.*>::is_empty$", s_is_empty), (r"^CompletionQueue::<.*>::sync$", s_unit),
            (r"^<CompletionQueue<.*> as IntoIterator>::into_iter$", s_identity),
            (r"^<CompletionQueue<.*> as Iterator>::next$", s_next),
            (r"cqueue::Entry::user_data$", s_user_data), (r"cqueue::Entry::flags$", s_flags), (r"cqueue::Entry::result$", s_result),
            (r"^ErasedKey::from_raw$", s_from_raw), (r"^BorrowedKey::from_raw$", s_borrowed_from_raw),
            (r"^std::mem::drop::<ErasedKey>$|^drop::<ErasedKey>$", s_drop_key),
            (r"^Entry::new$", s_entry_new), (r"^Entry::notify$", s_notify), (r"^Entry::set_flags$", s_unit),
            (r"^HashSet::<usize>::remove", s_set_remove), (r"^HashSet::<usize>::drain$", s_set_drain),
            (r"hash_set::Drain<.*> as IntoIterator>::into_iter$", s_identity), (r"hash_set::Drain<.*> as Iterator>::next$", s_drain_next),
            (r"ManuallyDrop::<IoUring.*>::drop$", s_ring_close),
            (r"DriverFlags>::insert$|Notifier::clear$|wake_by_ref$|push_multishot$|set_flags$", s_ok_unit),
            (r"<BorrowedKey as Deref>::deref$|ErasedKey::borrow$| as DerefMut>::deref_mut$|Extra::new$| as Into<.*>>::into$", s_opaque),
            (r"^create_result$", s_ok_unit),
        ]
        I = Interp(self.fns, self.consts, S, resolver=self.resolver)

        def drop_hook(I_, v, p, ty):
            if isinstance(v, tuple) and v and v[0] == "key" and W.new_key is not None and v[1] == W.new_key:
                W.new_key_dropped += 1
            return None
        I.drop_hook = drop_hook
        return I

    def const_value(self, name):
        I = Interp(self.fns, self.consts, [], resolver=self.resolver)
        for cand in ("driver::iour::Driver::" + name, "Driver::" + name, name):
            v = I.const(cand, Path([]))
            if z3.is_bv(v):
                return z3.simplify(v).as_long()
        raise Unsupported("cannot evaluate Driver::%s" % name)

    def driver_obj(self, W):
        return Lazy({}, "Driver")

    # ------------------------------------------------------------------ checks
    def check_poll_entries(self, p, nkeys=2, max_entries=3):
        W = self.world(p, nkeys, max_entries)
        fn = self.F("::poll_entries")
        I = self.interp(W, fn)
        I.run_to_end(I.call_fn(fn, [Ref(Cell(self.driver_obj(W)))], p))
        self.encoded |= I.called
        obs = [("no reference is re-materialised twice and only leaked keys are touched", z3.BoolVal(W.violation is None))]
        for k in W.keys:
            fin = k in W.finals
            obs.append(("operation %#x: its reference came back iff its final completion was queued" % k,
                        z3.BoolVal(W.leaked[k] == (0 if fin else 1))))
            obs.append(("operation %#x: it stays in in_flight iff no final completion was queued" % k,
                        z3.BoolVal((k in W.in_flight) == (not fin))))
        return obs

    def check_drop(self, p, nkeys=2, max_entries=3):
        W = self.world(p, nkeys, max_entries)
        fn = self.F("::drop", "_1: &mut driver::iour::Driver")
        I = self.interp(W, fn)
        I.run_to_end(I.call_fn(fn, [Ref(Cell(self.driver_obj(W)))], p))
        self.encoded |= I.called
        obs = [("no reference is re-materialised twice and only leaked keys are touched" + (": " + W.violation if W.violation else ""),
                z3.BoolVal(W.violation is None)),
               ("the ring is closed before the remaining keys are freed", z3.BoolVal(W.ring_closed))]
        for k in W.keys:
            obs.append(("operation %#x: the kernel's reference is released exactly once by Driver::drop" % k,
                        z3.BoolVal(W.leaked[k] == 0)))
        obs.append(("nothing is left in in_flight", z3.BoolVal(len(W.in_flight) == 0)))
        return obs

    def check_push(self, p, nkeys=1, max_entries=2):
        """push_raw_with_key: a new operation is handed to the ring; the queue may be full for a while (submit + reap in between)"""
        W = self.world(p, nkeys, max_entries)
        W.new_key = 0x9000
        W.sq_room_after = p.choose(3, "rounds until the submission queue has room")
        W.submit_failed = False
        W.consumed_new_key = False
        fn = self.F("::push_raw_with_key")
        I = self.interp(W, fn)
        r = I.run_to_end(I.call_fn(fn, [Ref(Cell(self.driver_obj(W))), ("sqe",), ("key", W.new_key)], p))
        self.encoded |= I.called
        ok = isinstance(r, EnumV) and r.variant == 0
        obs = [("nothing is re-materialised twice while the queue is reaped during the retry", z3.BoolVal(W.violation is None)),
               ("push fails only if a submit failed with a real error", z3.BoolVal(ok or W.submit_failed))]
        if ok:
            obs.append(("accepted: exactly one reference to the new operation is leaked to the kernel", z3.BoolVal(W.leaked.get(W.new_key, 0) == 1)))
            obs.append(("accepted: the operation is recorded as in flight", z3.BoolVal(W.new_key in W.in_flight)))
            obs.append(("accepted: the caller's key was consumed, not dropped", z3.BoolVal(W.consumed_new_key and W.new_key_dropped == 0)))
        else:
            obs.append(("rejected: no reference is leaked", z3.BoolVal(W.leaked.get(W.new_key, 0) == 0)))
            obs.append(("rejected: the operation is not recorded as in flight", z3.BoolVal(W.new_key not in W.in_flight)))
        # the retry path reaps completions: the older operations obey the same rule as in poll_entries
        reaped = W.sq_room_after > 0
        for k in W.keys:
            fin = k in W.finals
            if reaped:
                obs.append(("older operation %#x: reference back iff its final completion was reaped (or nothing reaped yet)" % k,
                            z3.BoolVal(W.leaked[k] in ((0, 1) if fin else (1,)))))
            else:
                obs.append(("older operation %#x untouched when the queue had room at once" % k, z3.BoolVal(W.leaked[k] == 1 and k in W.in_flight)))
        return obs

    def check_blocking(self, p):
        """push_blocking + the job it hands to the thread pool + poll_blocking: the fallback path of operations the ring cannot
        run (and of every Asyncify operation)."""
        W = self.world(p, 0, 0)
        key = ("key", 0x7000)
        W.rejections = p.choose(3, "times the pool answers 'all threads are busy' first")
        W.dispatched, W.sent, W.channel, W.wakes, W.notified, W.frozen, W.calls = [], [], [], 0, [], 0, 0
        W.job_panics = p.choose(2, "the blocking call panics?") == 1
        closures = []

        def s_waker(I, a, pth, c):
            return ("driver-waker",)

        def s_clone_sender(I, a, pth, c):
            return ("completed-tx",)

        def s_freeze(I, a, pth, c):
            W.frozen += 1
            return ("frozen", a[0])

        def s_dispatch(I, a, pth, c):
            clo = a[1]
            closures.append(clo)
            if len(closures) <= W.rejections:
                return EnumV(1, [Cell(Struct({0: Cell(clo)}))])      # Err(DispatchError(closure)): handed back intact
            W.dispatched.append(clo)
            return EnumV(0, [Cell(UNIT)])

        def s_yield(I, a, pth, c):
            return UNIT

        def s_catch_unwind_io(I, a, pth, c):
            W.calls += 1
            if W.job_panics:
                return EnumV(1, [Cell(("io-error", "panic payload"))])     # a panic comes back as an io::Error carrying the payload
            clo = a[0]
            while isinstance(clo, Struct) and not hasattr(clo, "span"):      # AssertUnwindSafe(closure)
                clo = clo.f[0].v
            r = yield from I.call_closure(clo, [], pth)
            return r

        def s_as_mut(I, a, pth, c):
            return Ref(Cell(Lazy({}, "frozen-op")))

        def s_call_blocking(I, a, pth, c):
            return EnumV(0, [Cell(z3.BitVecVal(7, 64))])

        def s_into_inner(I, a, pth, c):
            v = a[0]
            return v[1] if isinstance(v, tuple) and v[0] == "frozen" else v

        def s_entry_new2(I, a, pth, c):
            return Struct({0: Cell(a[0]), 1: Cell(a[1])})

        def s_send(I, a, pth, c):
            W.sent.append(a[1])
            W.channel.append(a[1])
            return EnumV(0, [Cell(UNIT)])

        def s_wake(I, a, pth, c):
            W.wakes += 1
            W.wake_after_send = len(W.sent)
            return UNIT

        def s_try_recv(I, a, pth, c):
            if W.channel:
                return EnumV(0, [Cell(W.channel.pop(0))])
            return EnumV(1, [Cell(("empty",))])

        def s_notify2(I, a, pth, c):
            W.notified.append(a[0])
            return UNIT

        extra = [
            (r"^(?:driver::iour::)?Driver::waker$", s_waker), (r"^<flume::Sender<Entry> as Clone>::clone$", s_clone_sender),
            (r"^ErasedKey::freeze$", s_freeze), (r"AsyncifyPool::dispatch::<", s_dispatch), (r"^yield_now$", s_yield),
            (r"^catch_unwind_io::<", s_catch_unwind_io), (r"^FrozenKey::as_mut$", s_as_mut), (r"Carry>::call_blocking$", s_call_blocking),
            (r"^FrozenKey::into_inner$", s_into_inner), (r"^Entry::new$", s_entry_new2), (r"^flume::Sender::<Entry>::send$", s_send),
            (r"^std::task::Waker::wake$|^Waker::wake$", s_wake), (r"^flume::Receiver::<Entry>::try_recv$", s_try_recv),
            (r"^Entry::notify$", s_notify2),
        ]
        fn = self.F("::push_blocking")
        I = self.interp(W, fn)
        import re as _re
        I.summ = [(_re.compile(pat), f) for pat, f in extra] + I.summ
        drv = self.driver_obj(W)
        I.run_to_end(I.call_fn(fn, [Ref(Cell(drv)), key], p))
        obs = [("the key is frozen exactly once for the pool thread", z3.BoolVal(W.frozen == 1)),
               ("a job the pool hands back is offered again until it is accepted: never dropped, accepted exactly once",
                z3.BoolVal(len(W.dispatched) == 1 and len(closures) == W.rejections + 1)),
               ("every offer is the same job", z3.BoolVal(all(c is closures[0] for c in closures)))]
        # the pool thread runs the accepted job
        if W.dispatched:
            I.run_to_end(I.call_closure(W.dispatched[0], [], p))
            obs.append(("the job runs the blocking call exactly once", z3.BoolVal(W.calls == 1)))
            obs.append(("the job reports exactly one completion, for this operation's key", z3.BoolVal(
                len(W.sent) == 1 and isinstance(W.sent[0], Struct) and W.sent[0].f[0].v == key)))
            if W.sent:
                res = W.sent[0].f[1].v
                if W.job_panics:
                    obs.append(("a panicking call is reported as an error carrying the panic, not lost",
                                z3.BoolVal(isinstance(res, EnumV) and res.variant == 1)))
                else:
                    obs.append(("the call's result is reported unchanged", z3.BoolVal(isinstance(res, EnumV) and res.variant == 0)))
            obs.append(("the driver is woken after the completion was sent", z3.BoolVal(W.wakes == 1 and getattr(W, "wake_after_send", 0) == 1)))
            # the runtime thread reaps it
            I.run_to_end(I.call_fn(self.F("::poll_blocking"), [Ref(Cell(drv))], p))
            obs.append(("poll_blocking notifies every received completion exactly once and leaves the channel empty",
                        z3.BoolVal(len(W.notified) == 1 and isinstance(W.notified[0], Struct) and W.notified[0].f[0].v == key and not W.channel)))
        self.encoded |= I.called
        return obs

    CHECKS = ["poll_entries", "drop", "push", "blocking"]
