"""C19 (one clause) — process-group routing: `ProcessGroup::{send, join}`, `Membership::drop`, `Strategy::select`
(compio-actor/src/process_group/{mod,strategy}.rs), interpreted from MIR.

"a process group routes each message to exactly one live, non-full member or hands it back": `send` walks the member list
under the group's mutex starting at `cursor % len`, skips members whose mailbox is full, evicts members whose mailbox is closed,
and gives the message back when nobody took it.  The list is a bounded sequence of N members (every N up to the bound), the
round-robin cursor is a symbolic usize, every member's broker answers Ok / Full / Closed by adversarial choice (each member is
asked at most once, so one answer per member is all a call can observe).

Obligations of one `send`: no panic (index, remainder by zero, overflow); every member is asked at most once and the first one
asked is member `cursor % N`; Ok <=> exactly one member accepted, and that was the last one asked; the message is handed back
(the same message) exactly when nobody accepted, and then every member present at the start was asked; the error is Full iff
some member answered Full, Closed otherwise; afterwards the list is the initial list without exactly the members that answered
Closed (each remaining member exactly once); the cursor advanced by one (unchanged for an empty group).
`join` appends a member whose id was never issued before (invariant: every id issued so far is below next_id); dropping a `Membership` removes exactly the member with its id (if
the group is still alive and the member still listed) and nothing else.
"""
import re

import z3

from interp import Interp, Struct, EnumV, Ref, Cell, UNIT, Unsupported, Infeasible, MirPanic, Closure, load, Path

SUMMARY_TEXT = [
    "Arc deref / downgrade, Weak::upgrade (alive or gone), Mutex::lock + unwrap (never poisoned), MutexGuard deref(_mut) by "
    "definition; Vec<Member<M>> = bounded python list: len, is_empty, index (panics out of range), remove (panics out of range), "
    "push, iter().position(closure)",
    "NonZero::<usize>::{new, get}, u64::wrapping_add by definition",
    "Broker::<M>::send = Ok(()) | Err(Full(message)) | Err(Closed(message)) by adversarial choice, one answer per member",
]


def deref(x):
    while isinstance(x, Ref):
        x = x.cell.v
    return x


class MemberList:
    def __init__(self, cells):
        self.cells = list(cells)


class NameMap:
    """HashMap<Name, Option<ErasedMailbox>> with names as tokens"""

    def __init__(self):
        self.d = {}


class GroupModel:
    def __init__(self, mir_path, max_members=3):
        self.fns, self.consts = load(mir_path)
        self.max_members = max_members
        self.encoded = set()

    def F(self, meth, sig_pat):
        c = [f for k, f in self.fns.items() if k.startswith("process_group::") and k.endswith("::" + meth) and re.search(sig_pat, f.sig)]
        if len(c) != 1:
            raise Unsupported("cannot locate process_group %s (%d)" % (meth, len(c)))
        return c[0]

    def resolver(self, callee):
        if re.search(r"(?:^|::)Strategy::select$", callee):
            c = [f for k, f in self.fns.items() if "strategy::<impl" in k and k.endswith("::select")]
            return c[0] if len(c) == 1 else None
        return None

    def world(self, p, alive=True):
        W = type("W", (), {})()
        W.asked = []          # (member id value, answer)
        W.alive = alive

        def lst(a):
            v = deref(a)
            if not isinstance(v, MemberList):
                raise Unsupported("Vec<Member> method on %r" % (v,))
            return v

        def concrete_index(idx, n, pth, what):
            for i in range(n):
                if pth.decide(idx == z3.BitVecVal(i, 64)):
                    return i
            raise MirPanic("%s: index out of bounds (len %d)" % (what, n))

        def s_arc_deref(I, a, pth, c):
            v = a[0]
            return v.cell.v if isinstance(v, Ref) and isinstance(v.cell.v, Ref) else v

        def s_identity_ref(I, a, pth, c):
            return a[0].cell.v if isinstance(a[0].cell.v, Ref) else a[0]

        def s_lock(I, a, pth, c):
            return EnumV(0, [Cell(Struct({0: Cell(a[0])}))])        # Ok(guard { &Mutex })

        def s_unwrap(I, a, pth, c):
            r = a[0]
            if r.variant != 0:
                raise MirPanic("unwrap on Err")
            return r.fields[0].v

        def s_guard_deref(I, a, pth, c):
            g = deref(a[0])                # guard struct
            m = deref(g.f[0].v)            # the Mutex<GroupState> value = Struct {0: state}
            return Ref(m.f[0])

        def s_len(I, a, pth, c):
            return z3.BitVecVal(len(lst(a[0]).cells), 64)

        def s_is_empty(I, a, pth, c):
            return z3.BoolVal(len(lst(a[0]).cells) == 0)

        def s_index(I, a, pth, c):
            L = lst(a[0])
            i = concrete_index(a[1], len(L.cells), pth, "Vec index")
            return Ref(L.cells[i])

        def s_remove(I, a, pth, c):
            L = lst(a[0])
            i = concrete_index(a[1], len(L.cells), pth, "Vec::remove")
            return L.cells.pop(i).v

        def s_swap_remove(I, a, pth, c):
            L = lst(a[0])
            i = concrete_index(a[1], len(L.cells), pth, "Vec::swap_remove")
            out = L.cells[i].v
            last = L.cells.pop()
            if i < len(L.cells):
                L.cells[i] = last
            return out

        def s_push(I, a, pth, c):
            lst(a[0]).cells.append(Cell(a[1]))
            return UNIT

        def s_vec_deref(I, a, pth, c):
            return a[0]

        def s_iter(I, a, pth, c):
            return ("iter", lst(a[0]))

        def s_position(I, a, pth, c):
            L = deref(a[0])[1]
            for i, cell in enumerate(L.cells):
                r = yield from I.call_closure(a[1], [Ref(cell)], pth)
                if pth.decide(r):
                    return EnumV(1, [Cell(z3.BitVecVal(i, 64))])
            return EnumV(0)

        def s_nonzero_new(I, a, pth, c):
            if pth.decide(a[0] == z3.BitVecVal(0, 64)):
                return EnumV(0)
            return EnumV(1, [Cell(Struct({0: Cell(a[0])}))])

        def s_nonzero_get(I, a, pth, c):
            return deref(a[0]).f[0].v

        def s_wrapping_add(I, a, pth, c):
            return a[0] + a[1]

        def s_broker_send(I, a, pth, c):
            b = deref(a[0])
            k = pth.choose(3, "member %s: accepts / full / closed" % (b[1],))
            W.asked.append((b[1], k))
            if k == 0:
                return EnumV(0, [Cell(UNIT)])
            return EnumV(1, [Cell(EnumV(0 if k == 1 else 1, [Cell(a[1])]))])       # DeliverError::{Full = 0, Closed = 1}

        def s_upgrade(I, a, pth, c):
            if not W.alive:
                return EnumV(0)
            return EnumV(1, [Cell(deref(a[0]))])

        def s_downgrade(I, a, pth, c):
            return deref(a[0])

        S = [
            (r"^<Arc<GroupInner<M>> as Deref>::deref$", s_arc_deref),
            (r"^std::sync::Mutex::<GroupState<M>>::lock$", s_lock),
            (r"^Result::<std::sync::MutexGuard<.*>::unwrap$", s_unwrap),
            (r"^<std::sync::MutexGuard<'_, GroupState<M>> as Deref(?:Mut)?>::deref(?:_mut)?$", s_guard_deref),
            (r"^Vec::<Member<M>>::len$", s_len), (r"^Vec::<Member<M>>::is_empty$", s_is_empty),
            (r"^<Vec<Member<M>> as Index<usize>>::index$", s_index), (r"^Vec::<Member<M>>::remove$", s_remove),
            (r"^Vec::<Member<M>>::swap_remove$", s_swap_remove), (r"^Vec::<Member<M>>::push$", s_push), (r"^<Vec<Member<M>> as Deref>::deref$", s_vec_deref),
            (r"^core::slice::<impl \[Member<M>\]>::iter$", s_iter),
            (r"^<std::slice::Iter<'_, Member<M>> as Iterator>::position::<", s_position),
            (r"^NonZero::<usize>::new$", s_nonzero_new), (r"^NonZero::<usize>::get$", s_nonzero_get),
            (r"^core::num::<impl u(?:64|size)>::wrapping_add$", s_wrapping_add),
            (r"^Broker::<M>::send$", s_broker_send),
            (r"^std::sync::Weak::<GroupInner<M>>::upgrade$", s_upgrade), (r"^Arc::<GroupInner<M>>::downgrade$", s_downgrade),
        ]
        I = Interp(self.fns, self.consts, S, resolver=self.resolver)
        I.drop_hook = lambda *a: None
        I.enums = dict(I.enums)
        I.enums["DeliverError"] = {"Full": 0, "Closed": 1}
        I.enums["Strategy"] = {"RoundRobin": 0}
        return W, I

    def layout(self):
        """field indices of GroupState, read off the typed field projections in the MIR of send / join"""
        if hasattr(self, "_layout"):
            return self._layout
        out = {}
        for meth, sig in (("send", r"_1: &ProcessGroup<M>, _2: M"), ("join", r"_1: &ProcessGroup<M>, _2: Broker<M>")):
            f = self.F(meth, sig)
            for stmts in f.blocks.values():
                for st in stmts:
                    for m in re.finditer(r"\(\(\*_\d+\)\.(\d+): ([^()]+?)\)", st):
                        ty = m.group(2).strip()
                        if "Vec<" in ty and "Member" in ty:
                            out["members"] = int(m.group(1))
                        elif ty == "usize":
                            out["cursor"] = int(m.group(1))
                        elif ty == "u64":
                            out["next_id"] = int(m.group(1))
        for need in ("members", "cursor", "next_id"):
            if need not in out:
                raise Unsupported("GroupState has no `%s` field any more: the model of ids / cursor does not apply" % need)
        self._layout = out
        return out

    def group(self, p, n):
        L = self.layout()
        cursor, next_id = z3.BitVec("cursor0", 64), z3.BitVec("next_id0", 64)
        members = MemberList([Cell(Struct({0: Cell(z3.BitVecVal(100 + i, 64)), 1: Cell(("broker", i))})) for i in range(n)])
        p.assume(z3.And(*[next_id != z3.BitVecVal(100 + i, 64) for i in range(n)]) if n else z3.BoolVal(True))
        fields = {i: Cell(EnumV(0)) for i in range(4)}        # the remaining field is the (unit-variant) strategy
        fields[L["next_id"]], fields[L["cursor"]], fields[L["members"]] = Cell(next_id), Cell(cursor), Cell(members)
        state = Struct(fields)
        state.ix = L
        mutex = Struct({0: Cell(state)})
        inner = Struct({0: Cell(mutex)})                 # GroupInner { state: Mutex<..> }
        arc = Ref(Cell(inner))                           # Arc<GroupInner> = a reference to the inner value
        pg = Struct({0: Cell(arc)})                      # ProcessGroup { inner: Arc<..> }
        return pg, state, members, cursor, next_id, arc

    def check_send(self, p):
        n = p.choose(self.max_members + 1, "number of members")
        W, I = self.world(p)
        pg, state, members, cursor0, next_id0, arc = self.group(p, n)
        msg = ("message",)
        r = I.run_to_end(I.call_fn(self.F("send", r"_1: &ProcessGroup<M>, _2: M"), [Ref(Cell(pg)), msg], p))
        self.encoded |= I.called
        ids = [b for (b, k) in W.asked]
        accepted = [b for (b, k) in W.asked if k == 0]
        fulls = [b for (b, k) in W.asked if k == 1]
        closed = [b for (b, k) in W.asked if k == 2]
        left = [deref(c.v.f[1].v)[1] for c in members.cells]
        obs = [("every member is asked at most once", z3.BoolVal(len(ids) == len(set(ids)))),
               ("closed members are evicted, every other member stays (each exactly once)",
                z3.BoolVal(sorted(left) == [i for i in range(n) if i not in closed]))]
        if n:
            obs.append(("the first member asked is number cursor % N (round robin)",
                        z3.URem(cursor0, z3.BitVecVal(n, 64)) == z3.BitVecVal(ids[0], 64) if ids else z3.BoolVal(False)))
            obs.append(("the cursor advances by one", state.f[state.ix["cursor"]].v == cursor0 + 1))
        else:
            obs.append(("an empty group leaves the cursor alone and asks nobody", z3.And(state.f[state.ix["cursor"]].v == cursor0, z3.BoolVal(not ids))))
        if r.variant == 0:
            obs.append(("Ok: exactly one member accepted the message, and it was the last one asked",
                        z3.BoolVal(len(accepted) == 1 and W.asked[-1][1] == 0)))
        else:
            e = r.fields[0].v
            obs.append(("Err: nobody accepted, and the message handed back is the one that was sent",
                        z3.BoolVal(not accepted and e.fields[0].v is msg)))
            obs.append(("Err: every member of the group was asked (the message is handed back only when nobody can take it)",
                        z3.BoolVal(sorted(ids) == list(range(n)))))
            obs.append(("Err is Full iff some member's mailbox was full, Closed otherwise",
                        z3.BoolVal((e.variant == 0) == bool(fulls))))
        return obs

    def check_join(self, p):
        n = p.choose(self.max_members + 1, "number of members")
        W, I = self.world(p)
        pg, state, members, cursor0, next_id0, arc = self.group(p, n)
        # ids are symbolic here: the invariant of the group is "every id ever issued is below next_id" (no wrap: 2^64 joins are
        # out of reach), which covers current members and memberships that outlived their (evicted) member alike
        ids = [z3.BitVec("member_id_%d" % i, 64) for i in range(n)]
        for cell, mid in zip(members.cells, ids):
            cell.v.f[0].v = mid
            p.assume(z3.ULT(mid, next_id0))
        stale = z3.BitVec("stale_membership_id", 64)
        p.assume(z3.ULT(stale, next_id0))
        p.assume(next_id0 != z3.BitVecVal(2 ** 64 - 1, 64))
        r = I.run_to_end(I.call_fn(self.F("join", r"_1: &ProcessGroup<M>, _2: Broker<M>"), [Ref(Cell(pg)), ("broker", 99)], p))
        self.encoded |= I.called
        last = deref(members.cells[-1].v) if members.cells else None
        new_id = last.f[0].v
        nid1 = state.f[state.ix["next_id"]].v
        return [("join appends exactly one member, at the end", z3.BoolVal(len(members.cells) == n + 1 and last is not None and last.f[1].v == ("broker", 99))),
                ("the membership handed out carries the new member's id and refers to this group",
                 z3.And(r.f[0].v == new_id, z3.BoolVal(deref(r.f[1].v) is deref(arc)))),
                ("the new id is not the id of any current member", z3.And(*[new_id != m for m in ids]) if ids else z3.BoolVal(True)),
                ("the new id was never issued before (a membership that outlived its member cannot remove the newcomer)", new_id != stale),
                ("the id invariant is kept: every id issued so far, the new one included, is below next_id",
                 z3.And(z3.ULT(new_id, nid1), z3.ULT(stale, nid1), *[z3.ULT(m, nid1) for m in ids])),
                ("join leaves the cursor alone", state.f[state.ix["cursor"]].v == cursor0)]

    def check_leave(self, p):
        n = p.choose(self.max_members + 1, "number of members")
        alive = p.choose(2, "group still alive?") == 0
        W, I = self.world(p, alive=alive)
        pg, state, members, cursor0, next_id0, arc = self.group(p, n)
        mid = z3.BitVec("membership_id", 64)
        ms = Struct({0: Cell(mid), 1: Cell(arc)})
        before = [deref(c.v.f[1].v)[1] for c in members.cells]
        I.run_to_end(I.call_fn(self.F("drop", r"_1: &mut Membership<M>"), [Ref(Cell(ms))], p))
        self.encoded |= I.called
        after = [deref(c.v.f[1].v)[1] for c in members.cells]
        removed = [b for b in before if b not in after]
        obs = [("dropping a membership removes at most one member and keeps the order of the others",
                z3.BoolVal(len(removed) <= 1 and after == [b for b in before if b not in removed]))]
        if not alive:
            obs.append(("a membership outliving its group touches nothing", z3.BoolVal(after == before)))
        elif removed:
            obs.append(("the member removed is the one with the membership's id", mid == z3.BitVecVal(100 + removed[0], 64)))
        else:
            obs.append(("nothing is removed only if no member has the membership's id",
                        z3.And(*[mid != z3.BitVecVal(100 + b, 64) for b in before]) if before else z3.BoolVal(True)))
        return obs

    # ------------------------------------------------------------------ the name registry (cluster/registry.rs)
    def RF(self, meth, sig_pat):
        c = [f for k, f in self.fns.items() if "registry::<impl" in k and k.endswith("::" + meth) and re.search(sig_pat, f.sig)]
        if len(c) != 1:
            raise Unsupported("cannot locate registry %s (%d)" % (meth, len(c)))
        return c[0]

    def reg_world(self, p):
        """registry whose map holds, for the name under test, nothing / a reservation / an active mailbox, plus one unrelated
        active entry; the OnceLock is initialised or (only with an empty map) not yet"""
        W, I = self.world(p)
        NAME, OTHER = ("name", "N"), ("name", "other")
        k = p.choose(4, "entry for the name: not initialised / absent / reserved / active")
        m = NameMap()
        if k >= 1:
            m.d[OTHER] = Cell(EnumV(1, [Cell(("erased-mailbox", "other"))]))
        if k == 2:
            m.d[NAME] = Cell(EnumV(0))
        if k == 3:
            m.d[NAME] = Cell(EnumV(1, [Cell(("erased-mailbox", "old"))]))
        mutex = Struct({0: Cell(m)})
        rstate = Struct({0: Cell(mutex)})
        arc = Ref(Cell(rstate))
        once = Cell(EnumV(1, [Cell(arc)]) if k >= 1 else EnumV(0))
        registry = Struct({0: once})
        W.once, W.map, W.k = once, m, k

        def the_map():
            if once.v.variant != 1:
                return None
            return deref(deref(deref(once.v.fields[0].v).f[0].v).f[0].v)
        W.the_map = the_map
        extra = self.registry_summaries(W)
        I.summ = [(re.compile(pat), f) for pat, f in extra] + I.summ
        return W, I, registry, NAME, OTHER, arc

    def registry_summaries(self, W):
        def gmap(a):
            v = deref(a)
            if not isinstance(v, NameMap):
                raise Unsupported("HashMap method on %r" % (v,))
            return v

        def key(x):
            x = deref(x)
            return x if isinstance(x, tuple) else x

        def s_get_or_init(I, a, pth, c):
            cell = a[0].cell
            if cell.v.variant != 1:
                v = yield from I.call_closure(a[1], [], pth)
                cell.v = EnumV(1, [Cell(v)])
            return Ref(cell.v.fields[0])

        def s_once_get(I, a, pth, c):
            cell = a[0].cell
            return EnumV(1, [Cell(Ref(cell.v.fields[0]))]) if cell.v.variant == 1 else EnumV(0)

        def s_state_default(I, a, pth, c):
            return Struct({0: Cell(Struct({0: Cell(NameMap())}))})

        def s_arc_new(I, a, pth, c):
            return Ref(Cell(a[0]))

        def s_arc_deref(I, a, pth, c):
            v = a[0]
            while isinstance(v, Ref) and isinstance(v.cell.v, Ref):
                v = v.cell.v
            return v

        def s_arc_clone(I, a, pth, c):
            return deref_once(a[0])

        def deref_once(x):
            return x.cell.v if isinstance(x, Ref) and isinstance(x.cell.v, Ref) else x

        def s_lock(I, a, pth, c):
            return EnumV(0, [Cell(Struct({0: Cell(a[0])}))])

        def s_guard_deref(I, a, pth, c):
            g = deref(a[0])
            mtx = deref(g.f[0].v)
            return Ref(mtx.f[0])

        def s_contains(I, a, pth, c):
            return z3.BoolVal(key(a[1]) in gmap(a[0]).d)

        def s_insert(I, a, pth, c):
            m = gmap(a[0])
            old = m.d.get(key(a[1]))
            m.d[key(a[1])] = Cell(a[2])
            return EnumV(1, [Cell(old.v)]) if old is not None else EnumV(0)

        def s_get(I, a, pth, c):
            cell = gmap(a[0]).d.get(key(a[1]))
            return EnumV(1, [Cell(Ref(cell))]) if cell is not None else EnumV(0)

        def s_remove(I, a, pth, c):
            cell = gmap(a[0]).d.pop(key(a[1]), None)
            return EnumV(1, [Cell(cell.v)]) if cell is not None else EnumV(0)

        def s_and_then_clone(I, a, pth, c):
            o = a[0]
            if o.variant != 1:
                return EnumV(0)
            inner = deref(o.fields[0].v)           # &Option<Arc<..>> -> its clone
            return EnumV(inner.variant, [Cell(f.v) for f in inner.fields])

        def s_try_branch(I, a, pth, c):
            o = a[0]
            return EnumV(0, [Cell(o.fields[0].v)]) if o.variant == 1 else EnumV(1, [Cell(EnumV(0))])

        def s_from_residual(I, a, pth, c):
            return EnumV(0)

        def s_expect(I, a, pth, c):
            if a[0].variant != 1:
                raise MirPanic("Option::expect on None: actor registration disappeared before startup")
            return a[0].fields[0].v

        return [
            (r"^OnceLock::<Arc<RegistryState>>::get_or_init::<", s_get_or_init), (r"^OnceLock::<Arc<RegistryState>>::get$", s_once_get),
            (r"^<RegistryState as Default>::default$", s_state_default), (r"^Arc::<RegistryState>::new$", s_arc_new),
            (r"^<Arc<RegistryState> as Deref>::deref$", s_arc_deref), (r"^<Arc<RegistryState> as Clone>::clone$", s_arc_clone),
            (r"^std::sync::Mutex::<HashMap<.*>>::lock$", s_lock),
            (r"^<std::sync::MutexGuard<'_, HashMap<.*>> as Deref(?:Mut)?>::deref(?:_mut)?$", s_guard_deref),
            (r"^HashMap::<Name, .*>::contains_key::<", s_contains), (r"^HashMap::<Name, .*>::insert$", s_insert),
            (r"^HashMap::<Name, .*>::get(?:_mut)?::<", s_get), (r"^HashMap::<Name, .*>::remove::<", s_remove),
            (r"^Name::as_str$", lambda I, a, pth, c: deref(a[0])), (r"^<Name as Clone>::clone$", lambda I, a, pth, c: deref(a[0])),
            (r"^Option::<&Option<Arc<dyn .*>>>::and_then::<", s_and_then_clone),
            (r"^<Option<.*> as Try>::branch$", s_try_branch), (r"^<Option<Mailbox<A>> as FromResidual<.*>>::from_residual$", s_from_residual),
            (r"^Option::<&mut Option<Arc<dyn .*>>>::expect$", s_expect),
            (r"^Mailbox::<A>::from_erased$", lambda I, a, pth, c: EnumV(1, [Cell(("mailbox-of", a[0]))])),
            (r"^Mailbox::<A>::erase$", lambda I, a, pth, c: ("erased-mailbox", deref(a[0]))),
        ]

    @staticmethod
    def entry(m, name):
        """'absent' | 'reserved' | ('active', mailbox)"""
        if m is None or name not in m.d:
            return "absent"
        v = m.d[name].v
        return "reserved" if v.variant == 0 else ("active", v.fields[0].v)

    def check_registry_reserve(self, p):
        W, I, registry, NAME, OTHER, arc = self.reg_world(p)
        before = self.entry(W.the_map(), NAME)
        r = I.run_to_end(I.call_fn(self.RF("reserve", r"_1: &Registry, _2: Name"), [Ref(Cell(registry)), NAME], p))
        self.encoded |= I.called
        m = W.the_map()
        after = self.entry(m, NAME)
        obs = [("reserve never touches other names", z3.BoolVal(W.k == 0 or self.entry(m, OTHER) == ("active", ("erased-mailbox", "other"))))]
        if before == "absent":
            obs.append(("a free name is reserved: Ok(registration for that name), and the name stays invisible (no mailbox yet)",
                        z3.BoolVal(r.variant == 0 and after == "reserved" and r.fields[0].v.f[0].v == NAME)))
        else:
            obs.append(("a name that is reserved or active is refused (at most one live actor per name) and the entry is left alone",
                        z3.BoolVal(r.variant == 1 and r.fields[0].v == NAME and after == before)))
        return obs

    def check_registry_get(self, p):
        W, I, registry, NAME, OTHER, arc = self.reg_world(p)
        before = self.entry(W.the_map(), NAME)
        r = I.run_to_end(I.call_fn(self.RF("get", r"_1: &Registry, _2: &str"), [Ref(Cell(registry)), Ref(Cell(NAME))], p))
        self.encoded |= I.called
        obs = [("get changes nothing", z3.BoolVal(self.entry(W.the_map(), NAME) == before))]
        if isinstance(before, tuple):
            obs.append(("an active name resolves to its own mailbox", z3.BoolVal(r.variant == 1 and r.fields[0].v == ("mailbox-of", before[1]))))
        else:
            obs.append(("a name that is absent or only reserved (start-up not finished) is invisible", z3.BoolVal(r.variant == 0)))
        return obs

    def check_registry_activate_drop(self, p):
        W, I, registry, NAME, OTHER, arc = self.reg_world(p)
        before = self.entry(W.the_map(), NAME)
        if before == "absent":
            raise Infeasible()          # a Registration exists only while its entry does (reserve creates both, Drop removes both)
        reg = Struct({0: Cell(NAME), 1: Cell(arc)})
        obs = []
        if p.choose(2, "activate first?") == 1:
            I.run_to_end(I.call_fn(self.RF("activate", r"_1: &Registration"), [Ref(Cell(reg)), Ref(Cell(("mailbox", "new")))], p))
            obs.append(("activate makes the name resolve to the new actor's mailbox",
                        z3.BoolVal(self.entry(W.the_map(), NAME) == ("active", ("erased-mailbox", ("mailbox", "new"))))))
        I.run_to_end(I.call_fn(self.RF("drop", r"_1: &mut Registration"), [Ref(Cell(reg))], p))
        self.encoded |= I.called
        m = W.the_map()
        obs.append(("dropping the registration (exit or failed start) frees the name", z3.BoolVal(self.entry(m, NAME) == "absent")))
        obs.append(("and leaves other names alone", z3.BoolVal(self.entry(m, OTHER) == ("active", ("erased-mailbox", "other")))))
        return obs

    CHECKS = ["send", "join", "leave", "registry_reserve", "registry_get", "registry_activate_drop"]
