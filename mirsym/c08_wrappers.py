"""C08 / C14, layer 2 — the async wrappers above the op layer (compio-fs `File`, compio-net `Socket`, stream halves).

Each wrapper is a small generic `async fn`: build one operation from the caller's arguments, submit it, map the
driver's result back onto the caller's buffer.  Their coroutine MIR is interpreted (state machine polled to
completion, nested `async fn`s included) with *uninterpreted functions*: every value is a term of one z3 sort
`Val`; every callee without a body in the dump (other crates: compio-driver's op constructors, compio-runtime's
`submit`, the result-mapping extension traits, the buffer traits) is a z3 function symbol applied to its argument
terms; `submit(op)`'s future answers Pending or Ready(driver_result(op)).  Obligations, decided by z3 (QF_UF):

  * exactly one operation is constructed and submitted, of the kind the wrapper's documentation names, from
    exactly the caller's descriptor / buffer / offset / flags (no other operation, no second submission);
  * the value the wrapper returns equals the documented pipeline applied to the driver's result
    (reads: `into_inner` then `map_advanced` / `map_vec_advanced` exactly once; writes: `into_inner` only;
    shutdown of any stream or half: a `ShutdownSocket(fd, Write)`), whatever else the code calls;
  * a Pending submission leaves the wrapper Pending and re-polls the same submission.

What a mapping function *does* (e.g. `map_advanced` = `set_len(max(len, n))`) is the op layer's business and is
checked there; this layer pins down which one is applied to what.
"""
import re

import z3

from interp import (Interp, Struct, EnumV, Ref, Cell, UNIT, Unsupported, Infeasible, MirPanic, MirUnwind, Coroutine,
                    load, Path, strip_generics)

SUMMARY_TEXT = [
    "every callee without a MIR body in the crate's dump (op constructors, submit, IntoInner / BufResultExt / buffer traits, "
    "to_shared_fd, socket state bookkeeping) = an uninterpreted z3 function over one sort Val applied to its arguments",
    "<Submit<Op> as Future>::poll (and the with_extra variant) = Pending or Ready(driver_result(op)) (with_extra: a pair with "
    "extra(op)); Pin / IntoFuture = transparent",
    "bool-valued unknown callees (e.g. io::Error::kind() == NotConnected) = fresh propositional symbols: both outcomes explored",
]

Val = z3.DeclareSort("Val")
_FUN = {}


def fun(name, arity, ret=Val):
    k = (name, arity, str(ret))
    if k not in _FUN:
        _FUN[k] = z3.Function(re.sub(r"[^\w]", "_", name)[:60] + "_%d" % arity, *([Val] * arity + [ret]))
    return _FUN[k]


def tok(name):
    return z3.Const(name, Val)


class TObj:
    """An object known only as a term: its fields are the terms field_i(object) (projections are lazily created)."""

    def __init__(self, term):
        self.term = term
        self.cells = {}

    def field_cell(self, i):
        if i not in self.cells:
            self.cells[i] = Cell(TObj(fun("field_%d" % i, 1)(self.term)))
        return self.cells[i]

    def variant_cell(self, variant, i):
        k = (variant, i)
        if k not in self.cells:
            self.cells[k] = Cell(TObj(fun("as_%s_%d" % (variant, i), 1)(self.term)))
        return self.cells[k]

    def discriminant(self, path):
        if "disc" not in self.cells:
            TObj.N += 1
            self.cells["disc"] = z3.BitVec("disc_%d" % TObj.N, 64)
        return self.cells["disc"]

    N = 0


class Wrappers:
    def __init__(self, mir_path):
        self.fns, self.consts = load(mir_path)
        self.encoded = set()

    def closure_of(self, pat):
        """the poll function of the wrapper's `async fn`, located by the coroutine type its signature names"""
        c = [f for k, f in self.fns.items() if k.endswith("::{closure#0}")
             and re.search(r"_1: Pin<&mut \{async fn body of " + pat + r"\}>", f.sig)]
        if len(c) != 1:
            raise Unsupported("cannot locate wrapper %s (%d candidates)" % (pat, len(c)))
        return c[0]

    def closure_of_block(self, ctor_sig_pat):
        """poll function of the `async move { .. }` block returned by a plain fn (e.g. `close(self) -> impl Future`)"""
        ctors = [f for k, f in self.fns.items() if not k.endswith("{closure#0}") and re.search(ctor_sig_pat, f.sig)]
        if len(ctors) != 1:
            raise Unsupported("cannot locate the constructor %s (%d candidates)" % (ctor_sig_pat, len(ctors)))
        blk = re.search(r"-> (\{async block@[^}]*\})", ctors[0].sig).group(1)
        c = [f for k, f in self.fns.items() if k.endswith("::{closure#0}") and ("_1: Pin<&mut " + blk + ">") in f.sig]
        if len(c) != 1:
            raise Unsupported("cannot locate the body of %s" % blk)
        return c[0]

    def coroutine_fn(self, co):
        """poll function of an async fn body, by its source span"""
        span = co.span
        c = [f for k, f in self.fns.items() if k.endswith("::{closure#0}") and ("{async fn body" in f.sig or "{async block" in f.sig)
             and span.split(":")[0] in k]
        # match by the coroutine type named in the signature of the constructing function: fall back to span lines
        best = [f for f in c if getattr(f, "_span", None) == span]
        return best[0] if best else None

    def run(self, path, wrapper_pat, upvars, polls=2):
        """Poll the wrapper's coroutine until Ready (at most `polls` Pending answers of the submission)."""
        W = type("W", (), {})()
        W.ops = []           # (kind, [arg terms])
        W.submits = []       # op terms submitted
        W.calls = []         # (callee, args)
        W.pending_left = polls
        W.poll_log = []
        me = self

        bvfuns = {}

        def BV2VAL(x):
            f = bvfuns.setdefault(x.size(), z3.Function("of_bv%d" % x.size(), z3.BitVecSort(x.size()), Val))
            return f(x)

        def val(x):
            """python-level value -> Val term"""
            if z3.is_expr(x) and x.sort() == Val:
                return x
            if isinstance(x, TObj):
                return x.term
            if isinstance(x, Ref):
                return val(x.cell.v)
            if z3.is_expr(x):
                if z3.is_bool(x):
                    return z3.If(x, tok("true"), tok("false"))
                sx = z3.simplify(x)
                if z3.is_bv_value(sx):
                    return tok("lit_%d_u%d" % (sx.as_long(), sx.size()))
                return BV2VAL(x)
            if x is UNIT:
                return tok("unit")
            if isinstance(x, EnumV):
                return fun("variant%d" % x.variant, len(x.fields))(*[val(c.v) for c in x.fields])
            if isinstance(x, Struct):
                ks = sorted(x.f)
                return fun("struct%d" % len(ks), len(ks))(*[val(x.f[k].v) for k in ks])
            if isinstance(x, tuple):
                return tok("opaque_" + re.sub(r"[^\w]", "_", str(x))[:50])
            if x is None:
                return tok("uninit")
            raise Unsupported("cannot turn %r into a term" % (x,))

        OPS = ("ReadAt", "WriteAt", "ReadVectoredAt", "WriteVectoredAt", "Read", "Write", "ReadVectored", "WriteVectored",
               "Recv", "Send", "RecvVectored", "SendVectored", "RecvFrom", "SendTo", "RecvFromVectored", "SendToVectored",
               "ShutdownSocket", "Sync", "CloseSocket", "CloseFile", "Connect", "Accept", "RecvMsg", "SendMsg")

        def fallback(I, callee, args, p, fr):
            clean = strip_generics(callee)
            m = re.search(r"(?:^|::)(\w+)::new$", clean)
            a = [val(x) for x in args]
            dest_ty = (fr or {}).get("__dest_ty__") or ""
            if m and m.group(1) in OPS:
                W.ops.append((m.group(1), a))
                return TObj(fun("op_" + m.group(1), len(a))(*a))
            if re.search(r"(?:^|::)(?:set_recv_op|set_recv|set_send)$", clean):
                return UNIT          # socket state bookkeeping (readiness hints), irrelevant to what is submitted / returned
            W.calls.append((clean, a))
            if dest_ty.strip() == "bool":
                return z3.Bool("b_%s_%d" % (re.sub(r"[^\w]", "_", clean)[:40], len(W.calls)))
            if dest_ty.strip() == "()":
                return UNIT
            return TObj(fun(clean, len(a))(*a))

        def s_submit(I, a, p, c):
            t = val(a[0])
            W.submits.append(t)
            return Struct({0: Cell(("submit", t, False))})

        def s_with_extra(I, a, p, c):
            s = a[0]
            inner = s.f[0].v
            return Struct({0: Cell(("submit", inner[1], True))})

        def s_identity(I, a, p, c):
            return a[0]

        def s_pin(I, a, p, c):
            return Struct({0: Cell(a[0])})

        def s_submit_poll(I, a, p, c):
            sub = a[0].f[0].v.cell.v           # Pin -> &mut Submit -> Submit
            kind = sub.f[0].v
            W.poll_log.append(kind[1])
            if W.pending_left > 0 and p.choose(2, "submission ready?") == 1:
                W.pending_left -= 1
                return EnumV(1)
            res = TObj(fun("driver_result", 1)(kind[1]))
            if kind[2]:
                return EnumV(0, [Cell(Struct({0: Cell(res), 1: Cell(TObj(fun("extra", 1)(kind[1])))}))])
            return EnumV(0, [Cell(res)])

        def s_poll_nested(I, a, p, c):
            co = a[0].f[0].v.cell.v
            if not isinstance(co, Coroutine):
                # an `async` block of another crate (e.g. SharedFd::take): an uninterpreted future
                return (yield from s_poll_unknown(I, a, p, c))
            fn = me.poll_fn_for(co, c)
            r = yield from I.call_fn(fn, [a[0], a[1]], p)
            return r

        def s_poll_unknown(I, a, p, c):
            fut = a[0].f[0].v.cell.v
            if isinstance(fut, Coroutine):
                return (yield from s_poll_nested(I, a, p, c))
            t = val(fut)
            if W.pending_left > 0 and p.choose(2, "inner future ready?") == 1:
                W.pending_left -= 1
                return EnumV(1)
            return EnumV(0, [Cell(TObj(fun("await", 1)(t)))])

        def s_noop(I, a, p, c):
            return UNIT

        S = [
            (r"(?:^|::)(?:set_recv_op|set_recv|set_send)(?:::<.*>)?$", s_noop),
            (r"^submit::<", s_submit), (r"Submit::<.*>::with_extra$|Submit<.*>>::with_extra$", s_with_extra),
            (r" as (?:std::future::)?IntoFuture>::into_future$", s_identity),
            (r"^Pin::<.*>::new(?:_unchecked)?$", s_pin),
            (r"^<(?:compio_runtime::)?Submit(?:WithExtra)?<.*> as .*Future>::poll$", s_submit_poll),
            (r"^<\{async (?:fn body|block).*\} as .*Future>::poll$", s_poll_nested),
            (r"^<.* as .*Future>::poll$", s_poll_unknown),
        ]
        I = Interp(self.fns, self.consts, S, resolver=self.resolver)
        I.fallback = fallback
        I.drop_hook = lambda *a: None
        fn = self.closure_of_block(wrapper_pat[len("block:"):]) if wrapper_pat.startswith("block:") else self.closure_of(wrapper_pat)
        co = Coroutine({i: Cell(v) for i, v in enumerate(upvars)})
        cx = Ref(Cell(("ctx",)))
        out = None
        for _ in range(polls + 1):
            r = I.run_to_end(I.call_fn(fn, [Struct({0: Cell(Ref(Cell(co)))}), cx], path))
            if r.variant == 0:
                out = r.fields[0].v
                break
        self.encoded |= I.called
        W.result = out
        W.val = val
        return W

    def poll_fn_for(self, co, callee):
        m = re.match(r"^<(\{async (?:fn body|block).*\}) as ", callee)
        want = self.norm(m.group(1)[len("{async fn body of "):-1]) if m.group(1).startswith("{async fn body of ") else None
        c = []
        for k, f in self.fns.items():
            if not k.endswith("::{closure#0}"):
                continue
            mm = re.search(r"_1: Pin<&mut (\{async (?:fn body of |block@)(.+?)\})>, _2", f.sig)
            if not mm:
                continue
            if (want is not None and mm.group(1).startswith("{async fn body of ") and self.norm(mm.group(2)) == want) \
                    or mm.group(1) == m.group(1):
                c.append(f)
        if len(c) != 1:
            raise Unsupported("cannot locate the poll function of %s (%d)" % (want, len(c)))
        return c[0]

    @staticmethod
    def strip_turbofish(x):
        """remove `::<...>` generic argument lists, keep a leading `<T as Trait>` qualifier"""
        out, i = "", 0
        while i < len(x):
            if x.startswith("::<", i):
                depth, j = 0, i + 2
                while j < len(x):
                    if x[j] == "<":
                        depth += 1
                    elif x[j] == ">" and x[j - 1] != "-":
                        depth -= 1
                        if depth == 0:
                            break
                    j += 1
                i = j + 1
                continue
            out += x[i]
            i += 1
        return out

    @staticmethod
    def norm(x):
        x = re.sub(r"\b(?:[a-z_][a-z0-9_]*::)+(?=[A-Z&<])", "", x)       # drop module paths in front of type names
        x = re.sub(r"<[A-Z]\w*(?:, ?[A-Z]\w*)*>\(\)$|\(\)$", "", x)       # drop the generic parameter list and ()
        return x.replace("'_, ", "").replace(" ", "")

    def resolver(self, callee):
        """in-crate `async fn`s: the function that builds the coroutine, found by the coroutine type it returns"""
        if not hasattr(self, "_ctors"):
            self._ctors = {}
            for k, f in self.fns.items():
                m = re.search(r"-> \{async fn body of (.+)\} \{$", f.sig)
                if m and not k.endswith("{closure#0}"):
                    self._ctors.setdefault(self.norm(m.group(1)), []).append(f)
        c = self._ctors.get(self.norm(self.strip_turbofish(callee)), [])
        return c[0] if len(c) == 1 else None




# ---------------------------------------------------------------------------------------------------------------
# specifications (from the documented behaviour of the wrappers, not from their code)

def _name(t):
    return t.decl().name() if z3.is_app(t) else ""


def derived_from(t, root):
    """t is root or a chain of field projections / to_shared_fd / deref-like unary applications of root"""
    while True:
        if z3.eq(t, root):
            return True
        if z3.is_app(t) and t.num_args() == 1:
            t = t.arg(0)
            continue
        return False


class Spec:
    def __init__(self, name, pat, params, op=None, op_args=None, pipeline=(), delegate=None):
        self.name, self.pat, self.params = name, pat, params
        self.op, self.op_args, self.pipeline, self.delegate = op, op_args, pipeline, delegate


SPECS = {
    "compio-fs": [
        Spec("File::read_at", r"<file::File as (?:compio_io::)?AsyncReadAt>::read_at<T>\(\)", ["&self", "buf", "pos"],
             op="ReadAt", op_args=["fd(self)", "pos", "buf"], pipeline=["into_inner", "map_advanced"]),
        Spec("File::read_vectored_at", r"<file::File as (?:compio_io::)?AsyncReadAt>::read_vectored_at<T>\(\)", ["&self", "buf", "pos"],
             op="ReadVectoredAt", op_args=["fd(self)", "pos", "buf"], pipeline=["into_inner", "map_vec_advanced"]),
        Spec("&File::write_at", r"<&file::File as (?:compio_io::)?AsyncWriteAt>::write_at<T>\(\)", ["&&self", "buf", "pos"],
             op="WriteAt", op_args=["fd(self)", "pos", "buf"], pipeline=["into_inner"]),
        Spec("&File::write_vectored_at", r"<&file::File as (?:compio_io::)?AsyncWriteAt>::write_vectored_at<T>\(\)", ["&&self", "buf", "pos"],
             op="WriteVectoredAt", op_args=["fd(self)", "pos", "buf"], pipeline=["into_inner"]),
        Spec("File::write_at", r"<file::File as (?:compio_io::)?AsyncWriteAt>::write_at<T>\(\)", ["&self", "buf", "pos"],
             op="WriteAt", op_args=["fd(self)", "pos", "buf"], pipeline=["into_inner"]),
        Spec("File::close", r"block:\(_1: file::File\) -> \{async block@", ["self"], op="CloseFile", delegate="__close__"),
        Spec("File::sync_all", r"file::File::sync_all\(\)", ["&self"], op="Sync", op_args=["fd(self)", "false"], pipeline=None),
        Spec("File::sync_data", r"file::File::sync_data\(\)", ["&self"], op="Sync", op_args=["fd(self)", "true"], pipeline=None),
    ],
    "compio-net": [
        Spec("Socket::recv", r"socket::Socket::recv<\w+>\(\)", ["&self", "buf", "flags"],
             op="Recv", op_args=["fd(self)", "buf", "flags"], pipeline=["into_inner", "map_advanced"]),
        Spec("Socket::recv_vectored", r"socket::Socket::recv_vectored<\w+>\(\)", ["&self", "buf", "flags"],
             op="RecvVectored", op_args=["fd(self)", "buf", "flags"], pipeline=["into_inner", "map_vec_advanced"]),
        Spec("Socket::send", r"socket::Socket::send<\w+>\(\)", ["&self", "buf", "flags"],
             op="Send", op_args=["fd(self)", "buf", "flags"], pipeline=["into_inner"]),
        Spec("Socket::send_vectored", r"socket::Socket::send_vectored<\w+>\(\)", ["&self", "buf", "flags"],
             op="SendVectored", op_args=["fd(self)", "buf", "flags"], pipeline=["into_inner"]),
        Spec("Socket::recv_from", r"socket::Socket::recv_from<\w+>\(\)", ["&self", "buf", "flags"],
             op="RecvFrom", op_args=["fd(self)", "buf", "flags"], pipeline=["into_inner", "map_addr", "map_advanced"]),
        Spec("Socket::close", r"block:\(_1: socket::Socket\) -> \{async block@", ["self"], op="CloseSocket", delegate="__close__"),
        Spec("Socket::shutdown", r"socket::Socket::shutdown\(\)", ["&self"],
             op="ShutdownSocket", op_args=["fd(self)", "Write"], pipeline=None),
        Spec("&TcpStream::shutdown", r"<&tcp::TcpStream as (?:compio_io::)?AsyncWrite>::shutdown\(\)", ["&&self"],
             op="ShutdownSocket", op_args=["fd(self)", "Write"], pipeline=None),
        Spec("TcpStream::shutdown", r"<tcp::TcpStream as (?:compio_io::)?AsyncWrite>::shutdown\(\)", ["&self"],
             op="ShutdownSocket", op_args=["fd(self)", "Write"], pipeline=None),
        Spec("&UnixStream::shutdown", r"<&unix::UnixStream as (?:compio_io::)?AsyncWrite>::shutdown\(\)", ["&&self"],
             op="ShutdownSocket", op_args=["fd(self)", "Write"], pipeline=None),
        Spec("&TcpStream::read", r"<&tcp::TcpStream as (?:compio_io::)?AsyncRead>::read<\w+>\(\)", ["&&self", "buf"],
             op="Recv", op_args=["fd(self)", "buf", "noflags"], pipeline=["into_inner", "map_advanced"]),
        Spec("&TcpStream::read_vectored", r"<&tcp::TcpStream as (?:compio_io::)?AsyncRead>::read_vectored<\w+>\(\)", ["&&self", "buf"],
             op="RecvVectored", op_args=["fd(self)", "buf", "noflags"], pipeline=["into_inner", "map_vec_advanced"]),
        Spec("&TcpStream::write", r"<&tcp::TcpStream as (?:compio_io::)?AsyncWrite>::write<\w+>\(\)", ["&&self", "buf"],
             op="Send", op_args=["fd(self)", "buf", "nosignal"], pipeline=["into_inner"]),
        Spec("&TcpStream::write_vectored", r"<&tcp::TcpStream as (?:compio_io::)?AsyncWrite>::write_vectored<\w+>\(\)", ["&&self", "buf"],
             op="SendVectored", op_args=["fd(self)", "buf", "nosignal"], pipeline=["into_inner"]),
        Spec("&UnixStream::read", r"<&unix::UnixStream as (?:compio_io::)?AsyncRead>::read<\w+>\(\)", ["&&self", "buf"],
             op="Recv", op_args=["fd(self)", "buf", "noflags"], pipeline=["into_inner", "map_advanced"]),
        Spec("&UnixStream::write", r"<&unix::UnixStream as (?:compio_io::)?AsyncWrite>::write<\w+>\(\)", ["&&self", "buf"],
             op="Send", op_args=["fd(self)", "buf", "nosignal"], pipeline=["into_inner"]),
        Spec("UdpSocket::recv", r"udp::UdpSocket::recv<\w+>\(\)", ["&self", "buf"],
             op="Recv", op_args=["fd(self)", "buf", "noflags"], pipeline=["into_inner", "map_advanced"]),
        Spec("UdpSocket::send", r"udp::UdpSocket::send<\w+>\(\)", ["&self", "buf"],
             op="Send", op_args=["fd(self)", "buf", "nosignal"], pipeline=["into_inner"]),
        Spec("WriteHalf::shutdown", r"<split::WriteHalf<'_, T> as (?:compio_io::)?AsyncWrite>::shutdown\(\)", ["&self"], delegate="shutdown"),
        Spec("WriteHalf::write", r"<split::WriteHalf<'_, T> as (?:compio_io::)?AsyncWrite>::write<\w+>\(\)", ["&self", "buf"], delegate="write"),
        Spec("ReadHalf::read", r"<split::ReadHalf<'_, T> as (?:compio_io::)?AsyncRead>::read<\w+>\(\)", ["&self", "buf"], delegate="read"),
    ],
}


def make_check(wr, spec):
    """obligation function for explore(): interpret the wrapper, return [(label, z3 bool)]"""

    def body(p):
        selft = tok("self")
        ups = []
        toks = {"self": selft}
        for prm in spec.params:
            if prm == "self":
                ups.append(TObj(selft))
            elif prm.startswith("&&"):
                ups.append(Ref(Cell(Ref(Cell(TObj(selft))))))
            elif prm.startswith("&"):
                ups.append(Ref(Cell(TObj(selft))))
            else:
                toks[prm] = tok(prm)
                ups.append(toks[prm])
        W = wr.run(p, spec.pat, ups)
        obs = []
        if W.result is None:
            return [("wrapper completes once its submission is ready", z3.BoolVal(False))]
        res = W.val(W.result)
        if spec.delegate == "__close__":
            # close(self): wait until every other holder of the descriptor has let go (SharedFd::take().await), then close
            # it with one CloseFile / CloseSocket operation — or do nothing if somebody else is already closing it
            takes = [c for c in W.calls if re.search(r"(?:^|::)take$", c[0])]
            obs.append(("close waits on take() of its own descriptor, exactly once",
                        z3.BoolVal(len(takes) == 1 and len(takes[0][1]) == 1 and derived_from(takes[0][1][0], selft))))
            obs.append(("close never uses try_unwrap / is_unique style shortcuts",
                        z3.BoolVal(not any(re.search(r"try_unwrap|is_unique|strong_count", c[0]) for c in W.calls))))
            if len(takes) != 1:
                return obs
            awaited = fun("await", 1)(fun(takes[0][0], 1)(takes[0][1][0]))
            obs.append(("at most one operation is built and submitted", z3.BoolVal(len(W.ops) <= 1 and len(W.submits) == len(W.ops))))
            if len(W.ops) == 1:
                kind, args = W.ops[0]
                obs.append(("the operation is a %s" % spec.op, z3.BoolVal(kind == spec.op)))
                obs.append(("it closes the descriptor that take() handed over",
                            z3.BoolVal(len(args) == 1 and derived_from(args[0], awaited))))
            return obs
        if spec.delegate:
            # generic half: the call is forwarded to the same method of the wrapped stream, nothing else is submitted
            ok = z3.is_app(res) and _name(res).startswith("await") and z3.is_app(res.arg(0)) and \
                re.search(r"_%s_\d+$" % spec.delegate, _name(res.arg(0))) is not None and \
                derived_from(res.arg(0).arg(0), selft)
            obs.append(("%s forwards to the wrapped stream's %s() and returns its result" % (spec.name, spec.delegate), z3.BoolVal(bool(ok))))
            obs.append(("no operation is built by the half itself", z3.BoolVal(len(W.ops) == 0 and len(W.submits) == 0)))
            return obs
        obs.append(("exactly one operation is constructed", z3.BoolVal(len(W.ops) == 1)))
        obs.append(("exactly one operation is submitted", z3.BoolVal(len(W.submits) == 1)))
        if len(W.ops) != 1 or len(W.submits) != 1:
            return obs
        kind, args = W.ops[0]
        obs.append(("the operation is a %s" % spec.op, z3.BoolVal(kind == spec.op)))
        obs.append(("the operation takes %d arguments" % len(spec.op_args), z3.BoolVal(len(args) == len(spec.op_args))))
        if kind != spec.op or len(args) != len(spec.op_args):
            return obs
        for want, got in zip(spec.op_args, args):
            if want == "fd(self)":
                ok = _name(got).endswith("to_shared_fd_1") and derived_from(got.arg(0), selft)
                obs.append(("the operation works on the wrapper's own descriptor", z3.BoolVal(bool(ok))))
            elif want in ("true", "false"):
                obs.append(("flag argument is %s" % want, got == W.val(z3.BoolVal(want == "true"))))
            elif want == "noflags":
                # RecvFlags::empty() / SendFlags::empty(): an uninterpreted nullary call, or the literal 0
                ok = re.search(r"empty_0$", _name(got)) is not None or str(got).startswith("lit_0_")
                obs.append(("no extra flags are passed", z3.BoolVal(bool(ok))))
            elif want == "nosignal":
                # stream / datagram writes must not raise SIGPIPE: MSG_NOSIGNAL and nothing else
                obs.append(("writes pass MSG_NOSIGNAL and no other flag", z3.BoolVal("NOSIGNAL" in str(got).upper())))
            elif want == "Write":
                obs.append(("the shutdown direction is Write", z3.BoolVal("Write" in str(got) or str(got) == "variant1_0")))
            else:
                obs.append(("argument `%s` is the caller's" % want, got == toks[want]))
        opterm = fun("op_" + kind, len(args))(*args)
        obs.append(("what is submitted is that operation", W.submits[0] == opterm))
        obs.append(("every poll goes to that submission", z3.And(*[t == opterm for t in W.poll_log]) if W.poll_log else z3.BoolVal(False)))
        if spec.pipeline is not None:
            # result == p_k(...p_1(driver_result(op))) with p_i the function symbols the code called under those names
            exp = fun("driver_result", 1)(opterm)
            missing = False
            for stage in spec.pipeline:
                cands = {k: f for k, f in _FUN.items() if re.search(r"(^|[^\w])%s$" % stage, k[0]) and k[1] == 1}
                used = [f for k, f in cands.items() if any(c[0] == k[0] for c in W.calls)]
                if len(used) != 1:
                    missing = True
                    break
                exp = used[0](exp)
            if missing:
                obs.append(("the result goes through %s exactly once each" % " then ".join(spec.pipeline), z3.BoolVal(False)))
            else:
                obs.append(("the wrapper returns %s(driver result), nothing more, nothing less" % "(".join(reversed(spec.pipeline)),
                            res == exp))
        return obs
    return body
