"""C04 — task / join-handle lifecycle, interpreted from the MIR of compio-executor (debug assertions on).

Executed from the real MIR: Task::{run (+closures), cancel, drop, poll, view, is_finished, increment_count},
<Task as Drop>::drop (+closures), Local::poll (+closure), Remote::poll (+closures), State::*, Snapshot::*,
the waker vtable functions (clone_waker, wake_by_ref, drop_waker).  The code's own `debug_assert!`s are
compiled in (`-C debug-assertions=on`): reaching one is a violation.

What is abstracted (assumptions, listed in the evidence):
  * the generic half `TaskAlloc<F>` behind the task vtable (run_future / take_result / drop_future / dealloc)
    is a *ghost resource model*: the storage holds the future, then the result, then nothing; every vtable
    call is checked against it (poll only while it holds the future and only on the home thread, future
    dropped exactly once and on the home thread, result taken or dropped exactly once, freed exactly once,
    nothing touched after the free);
  * the future's poll is arbitrary: Ready or Pending, and it may clone its waker and hand the clone to
    another thread, which later wakes and/or drops it;
  * the join-waker slot `UnsafeCell<MaybeUninit<Waker>>` is a ghost cell (uninit / holds waker w): reading or
    dropping it while uninit, overwriting it without a drop, and two threads inside `with`/`with_mut`
    at the same time (data race) are violations;
  * Task::schedule = "the task becomes hot" (its cross-thread protocol is C03's subject);
  * the hot/cold queue and Executor::tick are the thread E below; Executor::clear/drop is outside.

Threads: E = the executor's thread: {wait until hot; Task::run; if Ready: Task::drop (contents) and release
the queue's reference} ; H = the JoinHandle's owner, on E's thread (its operations are atomic w.r.t. E's)
or on another thread (every atomic access a scheduling point): a program of poll / drop / detach /
cancel-and-poll; K = holder of a cloned task waker on another thread: wake_by_ref and/or drop.
"""
import re

import z3

from interp import Interp, Struct, EnumV, Ref, Cell, UNIT, Unsupported, Infeasible, MirPanic, load, Path, strip_generics

SUMMARY_TEXT = [
    "task vtable (TaskAlloc<F>::{run_future,take_result,drop_future,dealloc}) = ghost storage future -> result -> empty, "
    "every call checked against it; the future's poll returns Ready or Pending arbitrarily and may clone its waker",
    "UnsafeCell<MaybeUninit<Waker>>::{with,with_mut} + MaybeUninit/Waker operations = ghost join-waker cell with "
    "init tracking and a one-thread-at-a-time check",
    "Task::schedule = the task becomes hot (cross-thread queue protocol: see C03)",
    "SendWrapper::valid = running on the executor's thread; std::thread::panicking = false; TaskSpan/tracing = no-ops",
    "atomics sequentially consistent",
]


class Lazy:
    def __init__(self, seeded, name):
        self.cells = dict(seeded)
        self.name = name

    def field_cell(self, idx):
        return self.cells.setdefault(idx, Cell(("opaque", "%s-field-%d" % (self.name, idx))))


class TaskModel:
    def __init__(self, mir_path):
        self.fns, self.consts = load(mir_path)
        self.encoded = set()
        self._layout()

    # ------------------------------------------------------------------ locating things in the dump
    def find(self, file_part, method, sig_part=None):
        c = [f for k, f in self.fns.items() if file_part in k and k.endswith("::" + method)
             and (sig_part is None or re.search(sig_part, f.sig))]
        if len(c) != 1:
            raise Unsupported("cannot locate %s in %s (%d candidates)" % (method, file_part, len(c)))
        return c[0]

    def _layout(self):
        """Header field indices by type, vtable slot indices by fn-pointer signature."""
        hdr, vt = {}, {}
        want = {"state": r"task::state::State", "vtable": r"&task::TaskVtable", "tracker": r".*SendWrapper<\(\)>.*",
                "shared": r".*Atomic<\*mut Shared>", "waker": r".*UnsafeCell<.*MaybeUninit<.*Waker>>", "id": r".*TaskId"}
        for f in self.fns.values():
            if "compio-executor/src/task/" not in f.name and "join_handle" not in f.name:
                continue
            for stmts in f.blocks.values():
                for s in stmts:
                    for m in re.finditer(r"\(\(\*_\d+\)\.(\d+): ((?:[^()]|\((?:[^()]|\([^()]*\))*\))+)\)", s):
                        ty = m.group(2).strip()
                        for k, pat in want.items():
                            if k not in hdr and re.fullmatch(pat, ty):
                                hdr[k] = int(m.group(1))
                        if "unsafe fn(" in ty:
                            if "Context<" in ty:
                                vt.setdefault("run_future", int(m.group(1)))
                            elif "NonNull<()>" in ty:
                                vt.setdefault("take_result", int(m.group(1)))
                            elif "bool" in ty:
                                vt.setdefault("drop_future", int(m.group(1)))
                            else:
                                vt.setdefault("dealloc", int(m.group(1)))
        for k in ("state", "vtable", "tracker", "shared", "waker"):
            if k not in hdr:
                raise Unsupported("cannot locate Header.%s in the MIR dump" % k)
        for k in ("run_future", "take_result", "drop_future", "dealloc"):
            if k not in vt:
                raise Unsupported("cannot locate TaskVtable.%s in the MIR dump" % k)
        self.hdr, self.vt = hdr, vt
        sh = {}
        want = {"waker": r".*Option<.*Waker>", "pending": r".*Atomic<usize>", "sync": r".*ArrayQueue<.*TaskId>",
                "queue": r".*SendWrapper<.*TaskQueue>"}
        for f in self.fns.values():
            if not (f.name.endswith("::schedule") and ("task/remote.rs" in f.name or "task/local.rs" in f.name)):
                continue
            for stmts in f.blocks.values():
                for st in stmts:
                    for m in re.finditer(r"\(\(\*_\d+\)\.(\d+): ((?:[^()]|\((?:[^()]|\([^()]*\))*\))+)\)", st):
                        ty = m.group(2).strip()
                        for k, pat in want.items():
                            if k not in sh and re.fullmatch(pat, ty) and "Header" not in ty and "State" not in ty:
                                sh[k] = int(m.group(1))
        for k in want:
            if k not in sh:
                raise Unsupported("cannot locate Shared.%s in the MIR dump" % k)
        self.sh = sh

    def resolver(self, callee):
        clean = strip_generics(callee)
        parts = clean.split("::")
        if len(parts) < 2:
            return None
        ty, meth = parts[-2], parts[-1]
        where = {"State": ("task/state.rs", r"_1: &(?:mut )?State"), "Snapshot": ("task/state.rs", r"_1: &(?:mut )?Snapshot"),
                 "Remote": ("task/remote.rs", r"_1: &(?:mut )?Remote"), "Local": ("task/local.rs", r"_1: &(?:mut )?Local")}
        if ty in where:
            fp, sig = where[ty]
            c = [f for k, f in self.fns.items() if fp in k and k.endswith("::" + meth) and re.search(sig, f.sig)]
            if len(c) == 1:
                return c[0]
            c = [f for k, f in self.fns.items() if fp in k and k.endswith("::" + meth)]
            if len(c) == 1:
                return c[0]
            raise Unsupported("ambiguous %s::%s (%d)" % (ty, meth, len(c)))
        if ty == "Task" or clean.startswith("waker::<impl Task>"):
            c = [f for k, f in self.fns.items() if ("task/mod.rs:172" in k or "waker.rs" in k) and k.endswith("::" + meth)]
            if len(c) == 1:
                return c[0]
        return None

    # ------------------------------------------------------------------ one schedule
    def run_schedule(self, path, handle_mode, program, clones=1, preempt_bound=None, max_ticks=4, teardown=False):
        """handle_mode: 'local' | 'remote'; program: tuple of handle operations."""
        W = type("W", (), {})()
        W.violation = None
        W.current = None
        W.storage = "future"
        W.freed = False
        W.completed = False
        W.polls = 0
        W.future_drops = 0
        W.result_takes = 0
        W.result_drops = 0
        W.slot = None                 # join-waker cell: None = uninit, else waker token
        W.slot_busy = None
        W.join_wakes = 0
        W.join_wakes_of = {}
        W.hot = True                  # a freshly spawned task is hot
        W.cancel_done = False
        W.e_exhausted = False
        W.tick_after_cancel = False
        W.clones_left = clones
        W.new_threads = []
        W.handle_result = []
        W.shared_freed = False
        W.torn_down = False
        consts = {}

        def viol(msg):
            if W.violation is None:
                W.violation = msg

        I = None

        def cst(name):
            if name not in consts:
                v = I.const("task::state::" + name, path)
                if not z3.is_bv(v):
                    v = I.const(name, path)
                consts[name] = z3.simplify(v).as_long()
            return consts[name]

        state = Cell(None)
        slot_cell = Cell(("waker-slot",))
        vtable = Struct({})
        header = Lazy({}, "Header")
        hptr = Ref(Cell(header))

        def alive(what):
            if W.freed:
                viol("use after free: %s after the task allocation was freed" % what)

        # ---- summaries
        def s_header(I_, a, p, c):
            alive("header access")
            return hptr

        def atomic(I_, a, p, callee):
            cell = a[0].cell
            op = re.search(r"::(\w+)$", strip_generics(callee)).group(1)
            yield ("atomic", ("state." + op) if cell is state else ("pending." + op) if cell is pending else "shared-ptr." + op)
            if cell is pending:
                shared_alive("pending counter access")
            else:
                alive("atomic %s" % op)
            old = cell.v
            if len(a) > 1 and op != "store" and not z3.is_bv(a[1]) and op not in ("load",):
                raise Unsupported("atomic %s with non-bitvector operand %r" % (op, a[1]))
            if op == "load":
                return old
            if op == "store":
                cell.v = a[1]
                return UNIT
            if op == "fetch_or":
                cell.v = old | a[1]
            elif op == "fetch_and":
                cell.v = old & a[1]
            elif op == "fetch_add":
                cell.v = old + a[1]
            elif op == "fetch_sub":
                cell.v = old - a[1]
            else:
                raise Unsupported("atomic op " + op)
            return old

        def s_valid(I_, a, p, c):
            return z3.BoolVal(W.current in ("E", "Hl"))

        shared = Lazy({}, "Shared")
        shared_cell = Cell(shared)
        pending = Cell(z3.BitVecVal(0, 64))

        def shared_alive(what):
            if W.shared_freed:
                viol("use after free: %s after the executor (and its Shared block) was dropped" % what)

        def s_shared_as_ref(I_, a, p, c):
            v = a[0]
            if isinstance(v, tuple) and v[0] == "null":
                return EnumV(0)
            return EnumV(1, [Cell(Ref(shared_cell))])

        def s_shared_is_null(I_, a, p, c):
            v = a[0]
            return z3.BoolVal(isinstance(v, tuple) and v[0] == "null")

        def s_push(I_, a, p, c):
            yield ("atomic", "sync.push")
            shared_alive("push onto the cross-thread queue")
            W.hot = True
            return EnumV(0, [Cell(UNIT)])

        def s_make_hot(I_, a, p, c):
            shared_alive("make_hot")
            W.hot = True
            return UNIT

        def s_get_unchecked(I_, a, p, c):
            shared_alive("local queue access")
            return Ref(Cell(("task-queue",)))

        def s_drain(I_, a, p, c):
            shared_alive("drain_sync")
            return UNIT

        def s_spin(I_, a, p, c):
            cur = state.v
            yield ("block", lambda: not z3.eq(z3.simplify(state.v), z3.simplify(cur)))
            return UNIT

        def s_view(I_, a, p, c):
            alive("view")
            inner = Struct({0: Cell(hptr)})
            return EnumV(0, [Cell(inner)]) if W.current in ("E", "Hl") else EnumV(1, [Cell(inner)])

        def s_res_is_err(I_, a, p, c):
            r = a[0].cell.v if isinstance(a[0], Ref) else a[0]
            return z3.BoolVal(r.variant == 1)

        def s_false(I_, a, p, c):
            return z3.BoolVal(False)

        def s_unit(I_, a, p, c):
            return UNIT

        def s_null(I_, a, p, c):
            return ("null",)

        def s_with_waker(I_, a, p, c):
            r = yield from I_.call_closure(a[1], [Ref(Cell(("task-waker",)))], p)
            return r

        def s_ctx_from(I_, a, p, c):
            return Struct({0: Cell(a[0])})

        def s_ctx_waker(I_, a, p, c):
            ctx = a[0].cell.v if isinstance(a[0], Ref) else a[0]
            return ctx.f[0].v

        def enter_slot(who):
            if W.slot_busy is not None and W.slot_busy != W.current:
                viol("data race: %s enters the join-waker slot while %s is inside it" % (W.current, W.slot_busy))

        def s_cell_with(I_, a, p, c):
            alive("join-waker slot access")
            enter_slot(W.current)
            prev = W.slot_busy
            W.slot_busy = W.current
            yield ("step", "enter join-waker slot")
            r = yield from I_.call_closure(a[1], [Ref(slot_cell)], p)
            W.slot_busy = prev
            return r

        def s_assume_init_ref(I_, a, p, c):
            if W.slot is None:
                viol("undefined behaviour: join-waker slot read while uninitialised")
                return Ref(Cell(("waker", "garbage")))
            return Ref(Cell(W.slot))

        def s_assume_init_drop(I_, a, p, c):
            if W.slot is None:
                viol("undefined behaviour: join-waker slot dropped while uninitialised")
            W.slot = None
            return UNIT

        def s_write(I_, a, p, c):
            if W.slot is not None:
                viol("join waker overwritten without being dropped (leak)")
            W.slot = a[1]
            return Ref(slot_cell)

        def s_wake_by_ref(I_, a, p, c):
            w = a[0].cell.v if isinstance(a[0], Ref) else a[0]
            if isinstance(w, tuple) and w[0] == "driver-waker":
                # ExecutorConfig::waker, stored inside the Shared block: user code running on the waking thread
                shared_alive("driver waker (stored in Shared) invoked")
                yield ("step", "inside the driver waker")
                shared_alive("driver waker (stored in Shared) still running")
                return UNIT
            yield ("step", "wake %s" % (w,))
            if isinstance(w, tuple) and w[0] == "join-waker":
                W.join_wakes += 1
                W.join_wakes_of[w] = W.join_wakes_of.get(w, 0) + 1
            return UNIT

        def s_clone(I_, a, p, c):
            w = a[0].cell.v if isinstance(a[0], Ref) else a[0]
            return w

        def s_will_wake(I_, a, p, c):
            x = a[0].cell.v if isinstance(a[0], Ref) else a[0]
            y = a[1].cell.v if isinstance(a[1], Ref) else a[1]
            return z3.BoolVal(x == y)

        def s_identity(I_, a, p, c):
            return a[0]

        def s_from_raw(I_, a, p, c):
            return Struct({0: Cell(a[0])})

        def s_drop_task(I_, a, p, c):
            r = yield from I_.call_fn(f_rcdrop, [Ref(Cell(a[0]))], p)
            return UNIT

        def s_manually(I_, a, p, c):
            return ("manually-drop", a[0])

        def s_drop_in_place_waker(I_, a, p, c):
            if W.slot is None:
                viol("undefined behaviour: join waker dropped while the slot is uninitialised (double drop)")
            W.slot = None
            return UNIT

        def s_uninit(I_, a, p, c):
            return ("uninit",)

        def s_nonnull_from(I_, a, p, c):
            return a[0]

        def s_assume_init(I_, a, p, c):
            return ("result", W.result_takes)

        # ---- ghost vtable
        def v_run_future(I_, a, p, c):
            alive("run_future")
            if W.current != "E":
                viol("future polled on a thread other than its home thread (%s)" % W.current)
            if W.storage != "future":
                viol("future polled while the task storage holds %s" % W.storage)
            if W.tick_after_cancel:
                viol("future polled by a tick that started after the task had been cancelled (handle dropped / cancel())")
            W.polls += 1
            yield ("step", "poll future #%d" % W.polls)
            if W.clones_left > 0 and p.choose(2, "future clones its waker?") == 1:
                W.clones_left -= 1
                yield from I_.call_fn(self.find("waker.rs", "clone_waker"), [hptr], p)
                W.new_threads.append("K%d" % (clones - W.clones_left))
            if p.choose(2, "future ready?") == 0:
                W.storage = "result"
                W.completed = True
                return EnumV(0, [Cell(UNIT)])
            return EnumV(1)

        def v_take_result(I_, a, p, c):
            alive("take_result")
            if W.storage != "result":
                viol("take_result while the task storage holds %s (output read twice or never written)" % W.storage)
            W.storage = "empty"
            W.result_takes += 1
            yield ("step", "take result")
            return UNIT

        def v_drop_future(I_, a, p, c):
            alive("drop_future")
            has_result = a[1]
            if z3.is_expr(has_result):
                has_result = p.decide(has_result)
            if has_result:
                if W.storage != "result":
                    viol("result dropped while the task storage holds %s (double drop / drop of a moved-out output)" % W.storage)
                W.result_drops += 1
            else:
                if W.storage != "future":
                    viol("future dropped while the task storage holds %s (double drop)" % W.storage)
                if W.current not in ("E", "Hl"):
                    viol("future dropped on a thread other than its home thread (%s)" % W.current)
                W.future_drops += 1
            W.storage = "empty"
            yield ("step", "drop %s" % ("result" if has_result else "future"))
            return UNIT

        def v_dealloc(I_, a, p, c):
            if W.freed:
                viol("double free of the task allocation")
            if W.storage == "future":
                viol("task allocation freed while it still holds the future (future never dropped)")
            if W.storage == "result":
                viol("task allocation freed while it still holds the output (output leaked)")
            if W.slot is not None:
                viol("task allocation freed while the join-waker slot still holds a waker (leak)")
            W.freed = True
            yield ("step", "dealloc")
            return UNIT

        for name, fn in (("run_future", v_run_future), ("take_result", v_take_result), ("drop_future", v_drop_future),
                         ("dealloc", v_dealloc)):
            vtable.f[self.vt[name]] = Cell(fn)

        S = [
            (r"^Task::header$|^Local::<'_>::header$|^Remote::<'_>::header$|^(?:task::)?(?:local::)?Local::header$|Remote::header$", s_header),
            (r"^Atomic::<", atomic),
            (r"SendWrapper::<\(\)>::valid$", s_valid),
            (r"^<ManuallyDrop<.*> as Deref(?:Mut)?>::deref(?:_mut)?$", s_identity),
            (r"<impl \*mut Shared>::as_ref", s_shared_as_ref), (r"<impl \*mut Shared>::is_null", s_shared_is_null),
            (r"^ArrayQueue::<TaskId>::push$", s_push), (r"^TaskQueue::make_hot$", s_make_hot),
            (r"SendWrapper::<TaskQueue>::get_unchecked$", s_get_unchecked), (r"^Shared::drain_sync$", s_drain),
            (r"spin_loop$|^yield_now$", s_spin), (r"^Result::<\(\), TaskId>::is_err$", s_res_is_err),
            (r"^Task::view$", s_view),
            (r"panicking$", s_false),
            (r"TaskSpan::|WakerOp|record_waker_op$", s_unit),
            (r"^null_mut::<", s_null),
            (r"^RawWaker::new$", s_identity),
            (r"^std::mem::drop::<Task>$|^drop::<Task>$", s_drop_task), (r"^Task::from_raw$", s_from_raw), (r"^ManuallyDrop::<.*>::new$", s_manually),
            (r"with_waker::<", s_with_waker),
            (r"^Context::<'_>::from_waker$", s_ctx_from), (r"^Context::<'_>::waker$", s_ctx_waker),
            (r"^UnsafeCell::<MaybeUninit<Waker>>::with(?:_mut)?::<", s_cell_with),
            (r"MaybeUninit::<Waker>::assume_init_ref$", s_assume_init_ref),
            (r"MaybeUninit::<Waker>::assume_init_drop$", s_assume_init_drop),
            (r"MaybeUninit::<Waker>::write$", s_write),
            (r"^Waker::wake_by_ref$", s_wake_by_ref), (r"<Waker as Clone>::clone$", s_clone), (r"^Waker::will_wake$", s_will_wake),
            (r"::cast::<Waker>$|::cast::<\(\)>$", s_identity),
            (r"^drop_in_place::<Waker>$", s_drop_in_place_waker),
            (r"MaybeUninit::<.*>::uninit$", s_uninit), (r"NonNull::<.*>::from_mut$|NonNull::<.*>::cast::<", s_nonnull_from),
            (r"MaybeUninit::<.*>::assume_init$", s_assume_init),
        ]
        I = Interp(self.fns, self.consts, S, resolver=self.resolver)

        def drop_hook(I_, v, p, ty):
            # drop glue of a `Task` value (a reference to the allocation): <Task as Drop>::drop
            if ty and re.fullmatch(r"(?:task::)?Task", ty.strip()) and isinstance(v, Struct):
                return I_.call_fn(f_rcdrop, [Ref(Cell(v))], p)
            return None
        I.drop_hook = drop_hook

        init = cst("NOT_SETTING_WAKER") | cst("NOT_CANCELLED") | (2 * cst("RC_UNIT"))
        state.v = z3.BitVecVal(init, 64)
        header.cells[self.hdr["state"]] = Cell(Struct({0: state}))
        header.cells[self.hdr["vtable"]] = Cell(Ref(Cell(vtable)))
        header.cells[self.hdr["shared"]] = Cell(Struct({0: Cell(("shared-ptr",))}))
        for k, idx in self.sh.items():
            shared.cells[idx] = {"waker": Cell(EnumV(1, [Cell(("driver-waker",))])), "pending": pending,
                                 "sync": Cell(("array-queue",)), "queue": Cell(("send-wrapper-queue",))}[k]
        header.cells[self.hdr["waker"]] = slot_cell

        f_run = self.find("task/mod.rs:172", "run", r"_1: &Task\)")
        f_tdrop = self.find("task/mod.rs:172", "drop", r"_1: &Task\)")
        f_rcdrop = [f for k, f in self.fns.items() if "task/mod.rs" in k and k.endswith("::drop") and re.search(r"_1: &mut Task\)", f.sig)]
        if len(f_rcdrop) != 1:
            raise Unsupported("cannot locate <Task as Drop>::drop")
        f_rcdrop = f_rcdrop[0]
        f_cancel = self.find("task/mod.rs:172", "cancel")
        f_poll = self.find("task/mod.rs:172", "poll", r"_1: &Task, _2: &mut Context")
        f_wake_by_ref = self.find("waker.rs", "wake_by_ref")
        f_drop_waker = self.find("waker.rs", "drop_waker")

        def task_val():
            return Struct({0: Cell(hptr)})

        def executor():
            t = task_val()
            ticks = 0
            f_wait = self.find("task/mod.rs:172", "wait_for_scheduling")
            while ticks < max_ticks:
                if teardown and path.choose(2, "executor torn down now?") == 1:
                    # Executor::clear / drop: drop the task's contents, wait for in-flight remote scheduling,
                    # release the queue's reference, free the Shared block
                    yield ("step", "Executor::clear")
                    yield from I.call_fn(f_tdrop, [Ref(Cell(t))], path)
                    yield from I.call_fn(f_wait, [Ref(Cell(t))], path)
                    yield from I.call_fn(f_rcdrop, [Ref(Cell(t))], path)
                    W.removed = True
                    W.torn_down = True
                    yield ("step", "free Shared")
                    W.shared_freed = True
                    yield ("done", "executor dropped")
                    return
                yield ("block", lambda: W.hot)
                W.hot = False
                ticks += 1
                W.tick_after_cancel = W.cancel_done
                W.home_busy = "E"
                r = yield from I.call_fn(f_run, [Ref(Cell(t))], path)
                if r.variant == 0:
                    yield from I.call_fn(f_tdrop, [Ref(Cell(t))], path)
                    yield from I.call_fn(f_rcdrop, [Ref(Cell(t))], path)
                    W.home_busy = None
                    W.removed = True
                    yield ("done", "task removed from the queue")
                    return
                W.home_busy = None
                yield ("step", "tick done")
            W.e_exhausted = True
            return

        def handle(tid):
            t = task_val()
            wid = 0
            for op in program:
                if op == "poll_b":
                    wid += 1          # polled again by another task / through a combinator: a different waker
                cxw = ("join-waker", tid, wid)
                ctx = Struct({0: Cell(Ref(Cell(cxw)))})
                if op in ("poll", "poll_b", "poll_until_ready", "cancel_poll"):
                    if op == "cancel_poll":
                        yield from I.call_fn(f_cancel, [Ref(Cell(t)), z3.BoolVal(False)], path)
                        W.cancel_done = True
                    while True:
                        seen = W.join_wakes_of.get(cxw, 0)
                        r = yield from I.call_fn(f_poll, [Ref(Cell(t)), Ref(Cell(ctx))], path)
                        if r.variant == 0:
                            out = r.fields[0].v
                            W.handle_result.append("some" if (isinstance(out, EnumV) and out.variant == 1) else "none")
                            # JoinHandle::poll: self.task = None
                            yield from I.call_fn(f_rcdrop, [Ref(Cell(t))], path)
                            W.handle_gone = True
                            return
                        if op in ("poll", "poll_b"):
                            yield ("step", "op done")
                            break
                        W.waiting_join = True
                        yield ("block", lambda: W.join_wakes_of.get(cxw, 0) > seen)
                        W.waiting_join = False
                elif op == "drop":
                    yield from I.call_fn(f_cancel, [Ref(Cell(t)), z3.BoolVal(True)], path)
                    W.cancel_done = True
                    yield from I.call_fn(f_rcdrop, [Ref(Cell(t))], path)
                    W.handle_gone = True
                    return
                elif op == "detach":
                    yield from I.call_fn(f_rcdrop, [Ref(Cell(t))], path)
                    W.handle_gone = True
                    W.detached = True
                    return
                else:
                    raise Unsupported("handle op " + op)
            return

        def clone_holder(kid):
            if path.choose(2, "%s wakes?" % kid) == 1:
                yield from I.call_fn(f_wake_by_ref, [hptr], path)
            yield from I.call_fn(f_drop_waker, [hptr], path)
            return

        W.removed = False
        W.handle_gone = False
        W.detached = False
        W.waiting_join = False
        W.home_busy = None
        htid = "Hl" if handle_mode == "local" else "Hr"
        threads = {"E": executor(), htid: handle(htid)}
        alive_t = set(threads)
        blocked = {}
        h_in_op = [False]
        steps = 0
        last_run = None
        preemptions = 0
        verdict = "ok"
        while alive_t:
            if W.violation:
                verdict = W.violation
                break
            runnable = [t for t in sorted(alive_t) if t not in blocked or blocked[t]()]
            # the local handle and the executor share one OS thread: an operation of one runs to its end
            mo = W.__dict__.get("mid_op")
            if htid == "Hl" and mo in ("E", "Hl") and mo in alive_t:
                runnable = [t for t in runnable if t == mo or t not in ("E", "Hl")]
            if not runnable:
                if W.waiting_join and W.completed:
                    verdict = "lost wake-up: the join handle waits for a task that completed but its waker was never woken"
                elif W.cancel_done and not W.removed and W.storage == "future" and "E" in alive_t and not W.e_exhausted:
                    verdict = ("the handle was dropped / cancel() returned, but the task was never scheduled again: its future "
                               "is never dropped by the executor")
                break
            if preempt_bound is not None and last_run in runnable and preemptions >= preempt_bound:
                th = last_run
            else:
                th = runnable[path.choose(len(runnable), "sched")]
                if last_run in runnable and th != last_run:
                    preemptions += 1
            last_run = th
            blocked.pop(th, None)
            W.current = th
            try:
                ev = next(threads[th])
            except StopIteration:
                alive_t.discard(th)
                if W.__dict__.get("mid_op") == th:
                    W.mid_op = None
                ev = None
            except MirPanic as e:
                verdict = "panic in %s: %s" % (th, e)
                break
            for kid in W.new_threads:
                threads[kid] = clone_holder(kid)
                alive_t.add(kid)
            W.new_threads = []
            if ev is None:
                continue
            steps += 1
            path.trace.append((th, ev[0], ev[1] if ev[0] != "block" else "wait"))
            if ev[0] == "block":
                blocked[th] = ev[1]
            if ev[0] == "done":
                alive_t.discard(th)
            if th in ("E", "Hl"):
                # the executor and a same-thread handle share one OS thread: between two of these markers the
                # running one cannot be interleaved with the other
                W.mid_op = None if (ev[0] in ("block", "done") or ev[1] in ("tick done", "op done")) else th
            if steps > 600:
                raise Unsupported("step bound exceeded")
        if verdict == "ok" and W.violation:
            verdict = W.violation
        if verdict == "ok":
            verdict = self.final_checks(W, program)
        self.encoded |= I.called
        return verdict, steps

    @staticmethod
    def final_checks(W, program):
        # quiescence: every thread finished or is blocked forever
        released = W.removed and W.handle_gone
        if released and not W.freed:
            return "every reference released but the task allocation was never freed (leak)"
        if W.freed and not released:
            return "task allocation freed while a reference is still held"
        if W.removed and W.storage == "future":
            return "task removed from the executor but its future was never dropped"
        if W.future_drops + (1 if W.completed else 0) > 1:
            return "future both completed and dropped / dropped twice"
        if W.result_takes + W.result_drops > 1:
            return "output delivered or dropped more than once"
        if released and W.completed and W.result_takes + W.result_drops != 1:
            return "task completed but its output was neither delivered nor dropped exactly once"
        if W.handle_result.count("some") > 1:
            return "join handle obtained the output twice"
        if "some" in W.handle_result and W.result_takes != 1:
            return "join handle reports an output that was not taken from the task"
        return "ok"


def explore_schedules(model, handle_mode, program, seed=0, max_paths=300000, preempt_bound=None, clones=1, teardown=False):
    from explore import _expand
    stack = [[]]
    npaths = steps = queries = 0
    bads = {}
    while stack:
        dec = stack.pop()
        p = Path(dec, seed)
        try:
            verdict, st = model.run_schedule(p, handle_mode, program, clones=clones, preempt_bound=preempt_bound,
                                             teardown=teardown)
        except Infeasible:
            _expand(stack, dec, p, upto=p.pos)
            continue
        npaths += 1
        steps += st
        queries += p.queries
        if npaths > max_paths:
            raise Unsupported("schedule bound exceeded")
        _expand(stack, dec, p, upto=len(p.decisions))
        if verdict != "ok":
            # keep one schedule per distinct verdict and go on: a recorded known finding must not mask a different violation
            key = re.sub(r"\d+", "N", verdict)
            if key not in bads:
                bads[key] = (verdict, list(p.trace))
            if len(bads) >= 6:
                break
    bad = None
    if bads:
        first = list(bads.values())
        bad = (first[0][0], first[0][1], first[1:])
    return npaths, steps, queries, bad
