"""Plan object (for lib/mirprop) of the wrapper-layer check of one crate (mirsym/c08_wrappers.py)."""
import os


class WrapPlan:
    summaries = []
    checker_cmd = ""

    def __init__(self, crate, features, only=None, exclude=None):
        self.crate, self.features, self.only, self.exclude = crate, features, only, exclude

    def specs(self):
        import re
        out = []
        for sp in self.mod.SPECS[self.crate]:
            if self.only and not re.search(self.only, sp.name):
                continue
            if self.exclude and re.search(self.exclude, sp.name):
                continue
            out.append(sp)
        return out

    def z3_version(self):
        import z3
        return z3.get_version_string()

    def prepare(self, tier):
        import dump
        import c08_wrappers
        p, c = dump.dump_mir(self.crate, self.features, tag=self.crate)
        self.checker_cmd = c + " ;; mirsym/c08_wrappers.py"
        self.W = c08_wrappers.Wrappers(p)
        self.mod = c08_wrappers
        WrapPlan.summaries = c08_wrappers.SUMMARY_TEXT

    def checks(self, tier):
        return [("wrap." + sp.name, self.mod.make_check(self.W, sp)) for sp in self.specs()]

    def encoded(self):
        return sorted(self.W.encoded)

    def bounds(self, tier):
        return {"wrappers": len(self.specs()), "polls_per_wrapper": "<= 3 (the submission answers Pending up to twice)",
                "values": "uninterpreted terms (one z3 sort), congruence decided by z3"}

    def validate(self, tier):
        return 0, 0, ["no native trace validation: the wrappers are interpreted from their own coroutine MIR; what the "
                      "uninterpreted callees do is the op layer's subject (Kani harnesses of the same property)"]

    def replay(self, f):
        return None, {"model": f.model, "note": "counterexample over uninterpreted terms: the label names the broken clause; "
                      "see the wrapper's source"}
