"""C12 — the blocking-style compatibility adapter's two buffers (compio-io/src/compat/sync_stream.rs), interpreted from MIR.

Interpreted: SyncReadBuf::{available_read, consume, fill_buf, read, read_buf_uninit, fill_read_buf (coroutine, its closure and
async block), into_inner}, SyncWriteBuf::{write (and its two closures), flush_write_buf (coroutine), has_pending_write},
would_block, and underneath them the real buffer.rs (Buffer::{compact_to, advance, with, with_sync, flush_to, reset, ...}).
SyncStream / SyncStreamReadHalf / SyncStreamWriteHalf only forward to these two types.

Same ghost Vec<u8> and the same adversarial inner stream as mirsym/c11_buffer.py; additionally Vec::{len, capacity, clear,
set_len, shrink_to, drain(..n)}, IoBufMutExt::{copy_within, extend_from_slice}, IoBufMut::reserve_exact on the ghost vector
by their documented behaviour.

One operation per check from an arbitrary well-formed state (inductive step); the invariant (progress <= len <= cap,
buffered-unsent <= max_buffer_size on the write side) is itself an obligation of every operation.
"""
import re

import z3

from interp import Interp, Struct, EnumV, Ref, Cell, UNIT, Unsupported, Infeasible, MirPanic, Coroutine, Closure
import c11_buffer as cb
from c11_buffer import (BufModel, GVec, GSlice, GBytes, GUninit, WFut, deref, blen, bcap, boff, broot, bset_len, bv, umin, sel, overlay, shifted,
                        some, ok, err, ISORT, LE, LT, GT)

SUMMARY_TEXT = cb.SUMMARY_TEXT + [
    "Vec::<u8>::{len, capacity, clear, set_len} by definition; shrink_to(m): capacity becomes a solver-chosen value in "
    "[max(len, m), old capacity]; drain(..n) removes the first n bytes; IoBufMutExt::copy_within(range, dest) = memmove inside "
    "the capacity (panics when out of range); extend_from_slice(src) on Slice<Vec<u8>> appends src at the vector's end (capacity "
    "grows to a solver-chosen value >= the new length); reserve_exact(n) makes capacity >= len + n (solver-chosen)",
    "<&[u8] as std::io::Read>::read, [T]::copy_from_slice, Index/IndexMut<RangeTo>, slice::from_raw_parts, usize::min, "
    "Result::inspect by definition; format!/io::Error::new = opaque error value carrying its kind",
]

BIG = 1 << 61


class SyncBufModel(BufModel):
    def by_self(self, ty, meth):
        """method `meth` of SyncReadBuf / SyncWriteBuf, located by the type of its first parameter (not by source lines)"""
        c = [f for k, f in self.fns.items() if k.startswith("sync_stream::<impl") and k.endswith("::" + meth)
             and re.search(r"\(_1: (?:&(?:mut )?)?(?:sync_stream::)?%s[,)]" % ty, f.sig)]
        return c[0] if len(c) == 1 else None

    def resolver(self, callee):
        clean = self.strip_turbofish(callee)
        m = re.match(r"^(?:sync_stream::)?(SyncReadBuf|SyncWriteBuf)::(\w+)$", clean)
        if m:
            f = self.by_self(m.group(1), m.group(2))
            if f is not None:
                return f
        if re.match(r"^(?:sync_stream::)?would_block$", clean):
            c = [f for k, f in self.fns.items() if k.endswith("sync_stream::would_block")]
            if len(c) == 1:
                return c[0]
        return super().resolver(callee)

    def sfn(self, which, meth):
        ty = "SyncReadBuf" if which == "r" else "SyncWriteBuf"
        f = self.by_self(ty, meth)
        if f is None:
            raise Unsupported("cannot locate %s::%s" % (ty, meth))
        return f

    def extra_summaries(self, W):
        fresh = W.freshv

        def vec(a):
            v = deref(a)
            if not isinstance(v, GVec):
                raise Unsupported("Vec method on %r" % (v,))
            return v

        def s_vec_len(I, a, p, c):
            return vec(a[0]).len

        def s_vec_cap(I, a, p, c):
            return vec(a[0]).cap

        def s_vec_clear(I, a, p, c):
            vec(a[0]).len = bv(0)
            return UNIT

        def s_vec_set_len(I, a, p, c):
            vec(a[0]).len = a[1]
            return UNIT

        def s_vec_shrink_to(I, a, p, c):
            v = vec(a[0])
            lo = z3.If(v.len > a[1], v.len, a[1])
            if p.decide(v.cap > lo):
                nc = fresh("cap")
                p.assume(z3.And(nc >= lo, nc <= v.cap))
                v.cap = nc
            return UNIT

        def s_vec_new(I, a, p, c):
            return GVec("new", bv(0), bv(0), z3.K(ISORT, z3.BitVecVal(0, 8)))

        def s_vec_drain_to(I, a, p, c):
            v = vec(a[0])
            n = a[1].f[0].v
            if not p.decide(n <= v.len):
                raise MirPanic("drain: range end out of bounds")
            v.data = shifted(v.data, n)
            v.len = v.len - n
            return ("drain-iterator",)

        def s_copy_within(I, a, p, c):
            v = vec(a[0])
            rng, dest = a[1], a[2]
            s, e = rng.f[0].v, rng.f[1].v
            if not p.decide(z3.And(s <= e, e <= v.cap)):
                raise MirPanic("copy_within: source range out of bounds")
            cnt = e - s
            if not p.decide(dest + cnt <= v.cap):
                raise MirPanic("copy_within: destination out of bounds")
            v.data = overlay(v.data, dest, cnt, v.data, s)
            return UNIT

        def grow(v, need, p):
            if p.decide(v.cap < need):
                nc = fresh("cap")
                p.assume(z3.And(nc >= need, nc <= bv(cb.MAXLEN)))
                v.cap = nc

        def s_reserve_exact(I, a, p, c):
            sl = deref(a[0])
            if isinstance(sl, GSlice) and sl.end is not None:
                return err(("reserve-error", "NotSupported"))
            v = broot(sl)
            grow(v, v.len + a[1], p)
            return ok(UNIT)

        def s_extend_from_slice(I, a, p, c):
            sl = deref(a[0])
            src = deref(a[1])
            v = broot(sl)
            init = blen(sl, p)
            at = boff(sl) + init                   # = the vector's current length
            grow(v, v.len + src.len, p)
            v.data = overlay(v.data, at, src.len, src.data, src.off)
            bset_len(sl, init + src.len)
            return ok(UNIT)

        def s_io_read(I, a, p, c):
            srcref, dst = a[0], deref(a[1])
            src = deref(srcref)
            k = umin(src.len, dst.len)
            dst.root.data = overlay(dst.root.data, dst.off, k, src.data, src.off)
            srcref.cell.v = GBytes(src.data, src.off + k, src.len - k)
            return ok(k)

        def s_inspect(I, a, p, c):
            r = a[0]
            if r.variant == 0:
                yield from I.call_closure(a[1], [Ref(r.fields[0])], p)
            return r

        def s_min(I, a, p, c):
            return umin(a[0], a[1])

        def s_index_to(I, a, p, c):
            b = deref(a[0])
            end = a[1].f[0].v
            if not p.decide(end <= b.len):
                raise MirPanic("range end index out of range for slice")
            return GBytes(b.data, b.off, end) if isinstance(b, GBytes) else GUninit(b.root, b.off, end)

        def s_as_ptr(I, a, p, c):
            return deref(a[0])

        def s_identity(I, a, p, c):
            return a[0]

        def s_from_raw_parts(I, a, p, c):
            b = a[0]
            return GBytes(b.data, b.off, a[1])

        def s_copy_from_slice(I, a, p, c):
            dst, src = deref(a[0]), deref(a[1])
            if not p.decide(dst.len == src.len):
                raise MirPanic("copy_from_slice: source slice length does not match destination slice length")
            dst.root.data = overlay(dst.root.data, dst.off, src.len, src.data, src.off)
            return UNIT

        def s_bytes_is_empty(I, a, p, c):
            return deref(a[0]).len == bv(0)

        def s_bufresult_into_inner(I, a, p, c):
            br = a[0]
            return Struct({0: Cell(br.f[0].v), 1: Cell(deref(br.f[1].v).inner)})


        def s_from_residual_reserve(I, a, p, c):
            return err(cb.IoErr("adapter", "from ReserveError"))

        return [
            (r"^Vec::<u8>::len$", s_vec_len), (r"^Vec::<u8>::capacity$", s_vec_cap), (r"^Vec::<u8>::clear$", s_vec_clear),
            (r"^Vec::<u8>::set_len$", s_vec_set_len), (r"^Vec::<u8>::shrink_to$", s_vec_shrink_to), (r"^Vec::<u8>::new$", s_vec_new),
            (r"^Vec::<u8>::drain::<RangeTo<usize>>$", s_vec_drain_to),
            (r"^<Vec<u8> as IoBufMutExt>::copy_within::<(?:std::ops::)?Range<usize>>$", s_copy_within),
            (r"^<(?:compio_buf::)?Slice<Vec<u8>> as IoBufMut>::reserve_exact$", s_reserve_exact),
            (r"^<(?:compio_buf::)?Slice<Vec<u8>> as IoBufMutExt>::extend_from_slice$", s_extend_from_slice),
            (r"^<&\[u8\] as (?:std::io::)?Read>::read$", s_io_read),
            (r"^Result::<usize, std::io::Error>::inspect::<", s_inspect),
            (r"^<usize as Ord>::min$", s_min),
            (r"^<\[(?:u8|MaybeUninit<u8>)\] as Index(?:Mut)?<RangeTo<usize>>>::index(?:_mut)?$", s_index_to),
            (r"^core::slice::<impl \[u8\]>::as_ptr$", s_as_ptr), (r"::cast::<MaybeUninit<u8>>$", s_identity),
            (r"^std::slice::from_raw_parts::<", s_from_raw_parts),
            (r"^core::slice::<impl \[MaybeUninit<u8>\]>::copy_from_slice$", s_copy_from_slice),
            (r"^core::slice::<impl \[u8\]>::is_empty$", s_bytes_is_empty),
            (r"^<BufResult<usize, (?:compio_buf::)?Slice<(?:compio_buf::)?Slice<Vec<u8>>>> as IntoInner>::into_inner$", s_bufresult_into_inner),
            (r"^<S as (?:write::)?AsyncWrite>::flush$", lambda I, a, p, c: WFut("flush")),
            (r"^<S as (?:read::)?AsyncRead>::read::<", lambda I, a, p, c: WFut("read", a[1])),
            (r"^<S as (?:write::)?AsyncWrite>::write::<", lambda I, a, p, c: WFut("write", a[1])),
            (r"as FromResidual<Result<Infallible, ReserveError>>>::from_residual$", s_from_residual_reserve),
        ]

    def world(self, p):
        W, I = super().world(p)

        def fallback(I_, callee, args, pth, fr):
            # format!/fmt::Arguments plumbing of the error message: opaque
            if re.search(r"^(?:format|must_use::<String>|Arguments::<.*>::new|core::fmt::rt::Argument::<.*>::new_display)", callee):
                return ("opaque-fmt",)
            raise Unsupported("no summary/body for " + callee)
        I.fallback = fallback
        return W, I

    # ------------------------------------------------------------------ states
    def limits(self, p):
        base, mx = z3.Int("base_capacity"), z3.Int("max_buffer_size")
        p.assume(z3.And(base >= 0, base <= bv(BIG), mx >= 0, mx <= bv(BIG)))
        return base, mx

    def wstate(self, p, W):
        st = self.state(p, W)
        p.assume(st.cap <= bv(BIG))
        base, mx = self.limits(p)
        p.assume(self.bw_inv(st.begin, st.len))
        p.assume(st.len - st.begin <= mx)                 # invariant: buffered-unsent <= max_buffer_size
        obj = Struct({0: Cell(st.buf), 1: Cell(base), 2: Cell(mx)})
        return st, obj, base, mx

    def rstate(self, p, W):
        st = self.state(p, W)
        p.assume(st.cap <= bv(BIG))
        base, mx = self.limits(p)
        eof = z3.Bool("eof0")
        obj = Struct({0: Cell(st.buf), 1: Cell(eof), 2: Cell(base), 3: Cell(mx)})
        return st, obj, base, mx, eof

    def wf(self, sl, vec):
        return z3.And(LE(bv(0), sl.begin), LE(sl.begin, vec.len), LE(vec.len, vec.cap))

    # ------------------------------------------------------------------ write side
    def check_sw_write(self, p):
        W, I = self.world(p)
        st, obj, base, mx = self.wstate(p, W)
        slen = z3.Int("srclen")
        p.assume(z3.And(slen >= 0, slen <= bv(BIG)))
        sdata = z3.Array("srcdata", ISORT, z3.BitVecSort(8))
        src = GBytes(sdata, bv(0), slen)
        r = I.run_to_end(I.call_fn(self.sfn("w", "write"), [Ref(Cell(obj)), src], p))
        self.encoded |= I.called
        present, sl, vec = self.buf_view(st.buf)
        obs = [("the write buffer is back in place", z3.BoolVal(present))]
        if not present:
            return obs
        pending0 = st.len - st.begin
        cur = [(vec.data, boff(sl), blen(sl, p))]
        obs.append(("the buffer stays well formed (progress <= len <= cap; fully flushed => reset)",
                    z3.And(self.wf(sl, vec), self.bw_inv(sl.begin, vec.len))))
        obs.append(("the limit is honoured: buffered-unsent bytes <= max_buffer_size", cur[0][2] <= mx))
        if r.variant == 0:
            n = r.fields[0].v
            obs.append(("Ok(n): n <= the caller's length", z3.And(n >= 0, n <= slen)))
            obs += self.stream_eq("Ok(n): buffered = previously buffered ++ the first n caller bytes", cur,
                                  [(st.data, st.begin, pending0), (sdata, bv(0), n)])
            obs.append(("Ok(0) only for an empty caller buffer", z3.Implies(n == 0, slen == 0)))
        else:
            e = r.fields[0].v
            obs.append(("a refused write is reported as WouldBlock", z3.BoolVal("WouldBlock" in str(e))))
            obs += self.stream_eq("Err: nothing was taken and nothing was lost", cur, [(st.data, st.begin, pending0)])
            obs.append(("WouldBlock only when a flush can make progress (something is buffered), otherwise the caller would spin",
                        z3.Implies(mx > 0, pending0 > 0)))
            obs.append(("[zero limit] WouldBlock only when a flush can make progress", z3.Implies(mx == 0, pending0 > 0)))
        return obs

    def check_sw_flush(self, p):
        W, I = self.world(p)
        st, obj, base, mx = self.wstate(p, W)
        r, pend = self.drive(I, self.sfn("w", "flush_write_buf"), [Ref(Cell(obj)), Ref(Cell(("stream",)))], p, W)
        present, sl, vec = self.buf_view(st.buf)
        obs = [("the write buffer is back in place", z3.BoolVal(present))]
        if not present:
            return obs
        pending0 = st.len - st.begin
        delivered = [(d, off, n) for (d, off, n, _) in W.delivered]
        cur = [(vec.data, boff(sl), blen(sl, p))]
        obs += self.stream_eq("delivered ++ still buffered = previously buffered (a retry after a failed flush sends exactly the unsent "
                              "bytes)", delivered + cur, [(st.data, st.begin, pending0)])
        obs.append(("the buffer stays well formed (progress <= len <= cap; fully flushed => reset)",
                    z3.And(self.wf(sl, vec), self.bw_inv(sl.begin, vec.len))))
        acc = bv(0)
        for k, (d, off, offered, n) in enumerate(W.offered):
            obs.append(("inner write %d starts at the first unsent byte and offers only buffered bytes, at least one" % k,
                        z3.And(off == st.begin + acc, offered > 0, offered <= pending0 - acc)))
            if n is not None:
                acc = acc + n
        if r.variant == 0:
            obs.append(("Ok(n): n = the number of bytes that were buffered; nothing is left", z3.And(r.fields[0].v == pending0, cur[0][2] == 0)))
            obs.append(("Ok: the inner stream was flushed once, after the data, and nothing failed",
                        z3.BoolVal(W.flushes == 1 and W.inner_errors == 0)))
        else:
            obs.append(("Err only after the inner stream failed or accepted zero bytes",
                        z3.Or([z3.BoolVal(W.inner_errors > 0)] + [n == 0 for (_d, _o, n, _f) in W.delivered])))
        return obs

    def check_sw_pending(self, p):
        W, I = self.world(p)
        st, obj, base, mx = self.wstate(p, W)
        r = I.run_to_end(I.call_fn(self.sfn("w", "has_pending_write"), [Ref(Cell(obj))], p))
        self.encoded |= I.called
        return [("has_pending_write is true iff unsent bytes are buffered", r == (st.len - st.begin > 0))]

    # ------------------------------------------------------------------ read side
    def check_sr_consume(self, p):
        W, I = self.world(p)
        st, obj, base, mx, eof = self.rstate(p, W)
        amt = z3.Int("amount")
        p.assume(z3.And(amt >= 0, amt <= st.len - st.begin))
        I.run_to_end(I.call_fn(self.sfn("r", "consume"), [Ref(Cell(obj)), amt], p))
        self.encoded |= I.called
        present, sl, vec = self.buf_view(st.buf)
        if not present:
            return [("consume leaves the buffer in place", z3.BoolVal(False))]
        obs = self.stream_eq("consume(k) drops exactly the first k unread bytes", [(vec.data, boff(sl), blen(sl, p))],
                             [(st.data, st.begin + amt, st.len - st.begin - amt)])
        obs.append(("the buffer stays well formed", self.wf(sl, vec)))
        obs.append(("the eof flag is untouched", obj.f[1].v == eof))
        return obs

    def _read_common(self, p, meth):
        W, I = self.world(p)
        st, obj, base, mx, eof = self.rstate(p, W)
        dl = z3.Int("dstlen")
        p.assume(z3.And(dl >= 0, dl <= bv(BIG)))
        dd = z3.Array("dstdata", ISORT, z3.BitVecSort(8))
        droot = GVec("dest", dl, dl, dd)
        dst = GUninit(droot, bv(0), dl)
        r = I.run_to_end(I.call_fn(self.sfn("r", meth), [Ref(Cell(obj)), Ref(Cell(dst))], p))
        self.encoded |= I.called
        present, sl, vec = self.buf_view(st.buf)
        obs = [("the read buffer is back in place", z3.BoolVal(present))]
        if not present:
            return obs
        unread0 = st.len - st.begin
        cur = [(vec.data, boff(sl), blen(sl, p))]
        obs.append(("the buffer stays well formed", self.wf(sl, vec)))
        obs.append(("the eof flag is untouched", obj.f[1].v == eof))
        j = z3.Int("jd!")
        if r.variant == 0:
            k = r.fields[0].v
            obs.append(("Ok(k): k = min(unread bytes, the caller's length)", k == umin(unread0, dl)))
            obs += self.stream_eq("Ok(k): the k bytes handed out ++ still unread = previously unread", [(droot.data, bv(0), k)] + cur,
                                  [(st.data, st.begin, unread0)])
            obs.append(("the caller's bytes beyond k are untouched", z3.Implies(z3.And(j >= k, j < dl), sel(droot.data, j) == sel(dd, j))))
            obs.append(("Ok(0) means end of file or an empty caller buffer, never 'no data yet'", z3.Implies(k == 0, z3.Or(dl == 0, z3.And(eof, unread0 == 0)))))
        else:
            e = r.fields[0].v
            obs.append(("an empty buffer before end of file is reported as WouldBlock", z3.And(z3.BoolVal("WouldBlock" in str(e)), unread0 == 0, z3.Not(eof))))
            obs += self.stream_eq("Err: nothing was consumed", cur, [(st.data, st.begin, unread0)])
            obs.append(("Err: the caller's buffer is untouched", z3.BoolVal(droot.data is dd)))
        return obs

    def check_sr_read(self, p):
        return self._read_common(p, "read")

    def check_sr_read_buf_uninit(self, p):
        return self._read_common(p, "read_buf_uninit")

    def check_sr_fill_buf(self, p):
        W, I = self.world(p)
        st, obj, base, mx, eof = self.rstate(p, W)
        r = I.run_to_end(I.call_fn(self.sfn("r", "fill_buf"), [Ref(Cell(obj))], p))
        self.encoded |= I.called
        present, sl, vec = self.buf_view(st.buf)
        if not present:
            return [("fill_buf leaves the buffer in place", z3.BoolVal(False))]
        unread0 = st.len - st.begin
        obs = [("fill_buf changes nothing", z3.And(vec.len == st.len, sl.begin == st.begin, z3.BoolVal(vec.data is st.data), obj.f[1].v == eof))]
        if r.variant == 0:
            v = r.fields[0].v
            obs.append(("Ok(view): exactly the unread bytes; empty only at end of file",
                        z3.And(v.len == unread0, v.off == st.begin, z3.BoolVal(v.data is st.data), z3.Implies(unread0 == 0, eof))))
        else:
            obs.append(("WouldBlock exactly when nothing is unread and end of file was not seen",
                        z3.And(z3.BoolVal("WouldBlock" in str(r.fields[0].v)), unread0 == 0, z3.Not(eof))))
        return obs

    def check_sr_fill_read_buf(self, p):
        W, I = self.world(p)
        st, obj, base, mx, eof = self.rstate(p, W)
        r, pend = self.drive(I, self.sfn("r", "fill_read_buf"), [Ref(Cell(obj)), Ref(Cell(("stream",)))], p, W)
        present, sl, vec = self.buf_view(st.buf)
        obs = [("the read buffer is back in place", z3.BoolVal(present))]
        if not present:
            return obs
        unread0 = st.len - st.begin
        chunks = [(srcb, bv(0), n) for (n, room, off, srcb) in W.read_chunks]
        cur = [(vec.data, boff(sl), blen(sl, p))]
        eof1 = obj.f[1].v
        obs += self.stream_eq("unread = previously unread ++ what the stream just delivered (compaction and growth lose nothing)",
                              cur, [(st.data, st.begin, unread0)] + chunks)
        obs.append(("the buffer stays well formed", self.wf(sl, vec)))
        obs.append(("the limit is honoured: unread bytes <= max_buffer_size after the fill (unless they already exceeded it)",
                    z3.Implies(unread0 <= mx, cur[0][2] <= mx)))
        for k, (n, room, off, srcb) in enumerate(W.read_chunks):
            obs.append(("inner read %d is given room (a zero-length request would turn into a false end-of-file)" % k,
                        z3.Implies(base > 0, room > 0)))
            obs.append(("[zero base capacity] inner read %d is given room" % k, z3.Implies(base == 0, room > 0)))
        if r.variant == 0:
            n = r.fields[0].v
            got = chunks[0][2] if chunks else bv(0)
            obs.append(("Ok(n): n = the number of bytes the stream delivered", n == got))
            obs.append(("end of file is recorded exactly when the stream reported it (or was already recorded)",
                        eof1 == z3.Or(eof, z3.And(z3.BoolVal(len(chunks) == 1), got == 0)) if True else True))
            obs.append(("after end of file the stream is not asked again", z3.Implies(eof, z3.BoolVal(len(W.read_chunks) == 0 and W.inner_calls == 0))))
        else:
            e = r.fields[0].v
            obs.append(("Err: the eof flag is untouched", eof1 == eof))
            if W.inner_errors == 0:
                obs.append(("an error without an inner error is the size limit: reported as OutOfMemory, only when the unread bytes "
                            "reached max_buffer_size", z3.And(z3.BoolVal("OutOfMemory" in str(e)), unread0 >= mx, z3.Not(eof))))
        return obs

    def check_sr_into_inner(self, p):
        W, I = self.world(p)
        st, obj, base, mx, eof = self.rstate(p, W)
        v = I.run_to_end(I.call_fn(self.sfn("r", "into_inner"), [obj], p))
        self.encoded |= I.called
        v = deref(v)
        return self.stream_eq("into_parts hands back exactly the unread bytes", [(v.data, bv(0), v.len)],
                              [(st.data, st.begin, st.len - st.begin)])

    CHECKS = ["sw_write", "sw_flush", "sw_pending", "sr_consume", "sr_read", "sr_read_buf_uninit", "sr_fill_buf", "sr_fill_read_buf",
              "sr_into_inner"]
