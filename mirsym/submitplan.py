"""Plan object (for lib/mirprop) of the Submit-future layer of C05 (mirsym/c05_submit.py)."""


class SubmitPlan:
    summaries = []
    checker_cmd = ""

    def z3_version(self):
        import z3
        return z3.get_version_string()

    def prepare(self, tier):
        import dump
        import c05_submit
        p, c = dump.dump_mir("compio-runtime", ["time"])
        self.checker_cmd = c + " ;; mirsym/c05_submit.py"
        self.D = c05_submit.SubmitModel(p)
        SubmitPlan.summaries = c05_submit.SUMMARY_TEXT

    def checks(self, tier):
        return [("submit." + n, getattr(self.D, "check_" + n)) for n in self.D.CHECKS]

    def encoded(self):
        return sorted(self.D.encoded)

    def bounds(self, tier):
        return {"programs": "poll,poll,drop | poll,drop | drop | poll,poll | poll,poll,poll", "context": "with/without cancel token and extra data",
                "driver_answers": "every Pending/Ready choice"}

    def validate(self, tier):
        return 0, 0, ["the Proactor contract used here (submit_raw / pop / cancel) is the one kani/driver-stub checks against the real "
                      "Proactor; no native trace validation of its own"]

    def replay(self, f):
        return None, {"choices": f.trace, "model": f.model}
