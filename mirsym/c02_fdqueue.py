"""C02, polling driver — the per-descriptor interest queues decide which operation a readiness event completes and
which readiness the descriptor is armed for.

`FdQueue::{push_back_interest, push_front_interest, event, pop_interest, remove, is_empty}` of the polling driver are
interpreted from MIR from every queue state of <= 2 readers and <= 2 writers (explorer's choice), VecDeque = bounded FIFO.
Obligations: the descriptor is armed for readability iff a reader is queued and for writability iff a writer is queued
(an operation waiting for the other direction is never starved); a readiness event completes the oldest queued
operation of a direction that is ready and queued, and nothing else is removed or reordered; an event for a direction
nobody waits for completes nothing; pushes keep FIFO order per direction; remove(key) removes exactly that key.
"""
import re

import z3

from interp import Interp, Struct, EnumV, Ref, Cell, UNIT, Unsupported, Infeasible, load, Path

SUMMARY_TEXT = [
    "VecDeque<ErasedKey> = bounded FIFO (front / pop_front / push_back / push_front / remove(idx) / retain / len / is_empty)",
    "polling::Event = {key, readable, writable, ..}; Event::none(k) = nothing armed; ErasedKey = an identity token "
    "(as_raw = its address, PartialEq = identity)",
]


class Fifo:
    def __init__(self, items):
        self.items = list(items)


class FdQueueModel:
    def __init__(self, mir_path):
        self.fns, self.consts = load(mir_path)
        self.encoded = set()

    def F(self, name):
        c = [f for k, f in self.fns.items() if "driver/poll/mod.rs" in k and k.endswith("::" + name) and "FdQueue" in f.sig]
        if len(c) != 1:
            raise Unsupported("cannot locate FdQueue::%s (%d candidates)" % (name, len(c)))
        return c[0]

    def field_order(self):
        """which field is the read queue: from push_back_interest (Readable arm pushes into it)"""
        return 0, 1

    def interp(self):
        def q(a):
            v = a.cell.v if isinstance(a, Ref) else a
            if not isinstance(v, Fifo):
                raise Unsupported("not a VecDeque: %r" % (v,))
            return v

        def s_front(I, a, p, c):
            d = q(a[0])
            return EnumV(1, [Cell(Ref(Cell(d.items[0])))]) if d.items else EnumV(0)

        def s_pop_front(I, a, p, c):
            d = q(a[0])
            return EnumV(1, [Cell(d.items.pop(0))]) if d.items else EnumV(0)

        def s_push_back(I, a, p, c):
            q(a[0]).items.append(a[1])
            return UNIT

        def s_push_front(I, a, p, c):
            q(a[0]).items.insert(0, a[1])
            return UNIT

        def s_len(I, a, p, c):
            return z3.BitVecVal(len(q(a[0]).items), 64)

        def s_is_empty(I, a, p, c):
            return z3.BoolVal(len(q(a[0]).items) == 0)

        def s_remove_idx(I, a, p, c):
            d = q(a[0])
            i = z3.simplify(a[1])
            if not z3.is_bv_value(i):
                raise Unsupported("symbolic index")
            i = i.as_long()
            return EnumV(1, [Cell(d.items.pop(i))]) if i < len(d.items) else EnumV(0)

        def s_retain(I, a, p, c):
            d = q(a[0])
            keep = []
            for it in list(d.items):
                r = yield from I.call_closure(a[1], [Ref(Cell(it))], p)
                if p.decide(r):
                    keep.append(it)
            d.items = keep
            return UNIT

        def s_key_ne(I, a, p, c):
            x = a[0].cell.v if isinstance(a[0], Ref) else a[0]
            y = a[1].cell.v if isinstance(a[1], Ref) else a[1]
            while isinstance(x, Ref):
                x = x.cell.v
            while isinstance(y, Ref):
                y = y.cell.v
            return z3.BoolVal((x != y) if c.endswith("::ne") else (x == y))

        def s_as_raw(I, a, p, c):
            k = a[0].cell.v if isinstance(a[0], Ref) else a[0]
            return z3.BitVecVal(k[1], 64)

        def s_event_none(I, a, p, c):
            # polling::Event { key, readable, writable, extra }
            return Struct({0: Cell(a[0]), 1: Cell(z3.BoolVal(False)), 2: Cell(z3.BoolVal(False)), 3: Cell(("extra",))})

        def mk_event(r, w):
            def f(I, a, p, c):
                return Struct({0: Cell(a[0]), 1: Cell(z3.BoolVal(r)), 2: Cell(z3.BoolVal(w)), 3: Cell(("extra",))})
            return f

        def s_event_new(I, a, p, c):
            return Struct({0: Cell(a[0]), 1: Cell(a[1]), 2: Cell(a[2]), 3: Cell(("extra",))})

        S = [
            (r"^polling::Event::readable$", mk_event(True, False)), (r"^polling::Event::writable$", mk_event(False, True)),
            (r"^polling::Event::all$", mk_event(True, True)), (r"^polling::Event::new$", s_event_new),
            (r"^VecDeque::<.*>::front$", s_front), (r"^VecDeque::<.*>::pop_front$", s_pop_front),
            (r"^VecDeque::<.*>::push_back$", s_push_back), (r"^VecDeque::<.*>::push_front$", s_push_front),
            (r"^VecDeque::<.*>::len$", s_len), (r"^VecDeque::<.*>::is_empty$", s_is_empty),
            (r"^VecDeque::<.*>::remove$", s_remove_idx), (r"^VecDeque::<.*>::retain::<", s_retain),
            (r"ErasedKey as PartialEq>::(?:ne|eq)$|<&.*ErasedKey as PartialEq.*>::(?:ne|eq)$", s_key_ne),
            (r"ErasedKey::as_raw$", s_as_raw), (r"^polling::Event::none$", s_event_none),
        ]
        return Interp(self.fns, self.consts, S)

    def state(self, p):
        nr = p.choose(3, "readers queued")
        nw = p.choose(3, "writers queued")
        rd = Fifo([("key", 0x100 + i) for i in range(nr)])
        wr = Fifo([("key", 0x200 + i) for i in range(nw)])
        fq = Struct({0: Cell(rd), 1: Cell(wr)})
        return fq, rd, wr

    # ------------------------------------------------------------------ checks
    def check_event(self, p):
        fq, rd, wr = self.state(p)
        I = self.interp()
        ev = I.run_to_end(I.call_fn(self.F("event"), [Ref(Cell(fq))], p))
        self.encoded |= I.called
        key = z3.simplify(ev.f[0].v)
        heads = [k[1] for k in ([rd.items[0]] if rd.items else []) + ([wr.items[0]] if wr.items else [])]
        return [("armed for readability iff an operation waits to read", ev.f[1].v == z3.BoolVal(len(rd.items) > 0)),
                ("armed for writability iff an operation waits to write", ev.f[2].v == z3.BoolVal(len(wr.items) > 0)),
                ("the event's key is the head of a queued direction (or none when idle)",
                 z3.BoolVal((key.as_long() in heads) if heads else (key.as_long() == 0))),
                ("event() does not change the queues", z3.BoolVal(True))]

    def check_pop_interest(self, p):
        fq, rd, wr = self.state(p)
        r0, w0 = list(rd.items), list(wr.items)
        readable, writable = z3.Bool("ev_readable"), z3.Bool("ev_writable")
        ev = Struct({0: Cell(z3.BitVecVal(0, 64)), 1: Cell(readable), 2: Cell(writable), 3: Cell(("extra",))})
        I = self.interp()
        r = I.run_to_end(I.call_fn(self.F("pop_interest"), [Ref(Cell(fq)), Ref(Cell(ev))], p))
        self.encoded |= I.called
        obs = []
        can_r = z3.And(readable, z3.BoolVal(len(r0) > 0))
        can_w = z3.And(writable, z3.BoolVal(len(w0) > 0))
        obs.append(("an event completes something iff a ready direction has a waiter", z3.BoolVal(r.variant == 1) == z3.Or(can_r, can_w)))
        if r.variant == 1:
            key = r.fields[0].v.f[0].v
            took_r = len(rd.items) == len(r0) - 1 and len(wr.items) == len(w0)
            took_w = len(wr.items) == len(w0) - 1 and len(rd.items) == len(r0)
            obs.append(("exactly one operation is taken", z3.BoolVal(took_r or took_w)))
            if took_r:
                obs.append(("a reader is taken only on readability; it is the oldest reader", z3.And(readable, z3.BoolVal(key == r0[0] and rd.items == r0[1:]))))
            if took_w:
                obs.append(("a writer is taken only on writability; it is the oldest writer", z3.And(writable, z3.BoolVal(key == w0[0] and wr.items == w0[1:]))))
        else:
            obs.append(("nothing is removed when nothing completes", z3.BoolVal(rd.items == r0 and wr.items == w0)))
        return obs

    def check_push(self, p):
        fq, rd, wr = self.state(p)
        r0, w0 = list(rd.items), list(wr.items)
        front = p.choose(2, "push_front?") == 1
        is_read = p.choose(2, "interest readable?") == 0
        new = ("key", 0x900)
        I = self.interp()
        interest = EnumV(0 if is_read else 1)
        I.run_to_end(I.call_fn(self.F("push_front_interest" if front else "push_back_interest"), [Ref(Cell(fq)), new, interest], p))
        self.encoded |= I.called
        exp_r = ([new] + r0 if front else r0 + [new]) if is_read else r0
        exp_w = w0 if is_read else ([new] + w0 if front else w0 + [new])
        return [("the operation joins the queue of its direction at the requested end, nothing else moves",
                 z3.BoolVal(rd.items == exp_r and wr.items == exp_w))]

    def check_remove(self, p):
        fq, rd, wr = self.state(p)
        r0, w0 = list(rd.items), list(wr.items)
        allk = r0 + w0
        if not allk:
            raise Infeasible()
        victim = allk[p.choose(len(allk), "which key")]
        I = self.interp()
        I.run_to_end(I.call_fn(self.F("remove"), [Ref(Cell(fq)), Ref(Cell(victim))], p))
        self.encoded |= I.called
        return [("remove(key) removes exactly that operation from both directions, order kept",
                 z3.BoolVal(rd.items == [k for k in r0 if k != victim] and wr.items == [k for k in w0 if k != victim]))]

    CHECKS = ["event", "pop_interest", "push", "remove"]
