"""C09 — timers never fire early and always fire: inductive steps over the MIR of TimerRuntime.

The real `compio-runtime/src/time/runtime.rs` functions are interpreted from an *arbitrary valid
wheel* (N symbolic slots + representation invariant); one step per operation.  Summaries (part of
the claim, listed in the evidence): BTreeMap = bounded ordered map with std's documented contract,
ordered lexicographically by (deadline, generation) — and that order is itself checked against the
interpreted derived `Ord` of TimerKey; Instant = u64 nanoseconds; Instant::now() = one symbol per
call site, non-decreasing; Waker = id + event log.
"""
import z3

from interp import Interp, Struct, EnumV, Ref, Cell, UNIT, Unsupported, load
from explore import explore

SPAN_RT = "time/runtime.rs"


def BV(n):
    return z3.BitVec(n, 64)


def klt(a, b):
    return z3.Or(z3.ULT(a[0], b[0]), z3.And(a[0] == b[0], z3.ULT(a[1], b[1])))


def keq(a, b):
    return z3.And(a[0] == b[0], a[1] == b[1])


def key_of(v):
    if isinstance(v, Ref):
        v = v.cell.v
    return v.f[0].v, v.f[1].v


class World:
    """Clock + event log shared by the summaries of one path."""

    def __init__(self, path, tag="w"):
        self.path = path
        self.now_calls = 0
        self.nows = []
        self.tag = tag
        self.events = []
        self.fixed = None

    def first_now(self):
        """The clock reading the operation used; if it read no clock at all, the actual current time."""
        return self.nows[0] if self.nows else self.now()

    def now(self):
        if self.fixed is not None:
            self.now_calls += 1
            t = z3.BitVecVal(self.fixed, 64)
            self.nows.append(t)
            return t
        t = BV("%s_now%d" % (self.tag, self.now_calls))
        if self.nows:
            self.path.assume(z3.UGE(t, self.nows[-1]))   # monotonic clock
        self.nows.append(t)
        self.now_calls += 1
        return t


class OMap:
    """Bounded model of BTreeMap<TimerKey, Option<Waker>>."""

    def __init__(self, n):
        self.n = n
        self.slots = []

    @staticmethod
    def symbolic(path, tag, n, concretize_wakers=False):
        m = OMap(n)
        for i in range(n):
            s = dict(p=z3.Bool("%s_p%d" % (tag, i)), d=BV("%s_d%d" % (tag, i)), g=BV("%s_g%d" % (tag, i)))
            wid = BV("%s_wid%d" % (tag, i))
            has = z3.Bool("%s_w%d" % (tag, i))
            if concretize_wakers:
                s["w"] = Cell(EnumV(1, [Cell(("waker", wid))]) if path.decide(has) else EnumV(0))
            else:
                s["w"] = Cell(None)
            s["has0"] = has
            s["wid0"] = wid
            m.slots.append(s)
        return m

    @staticmethod
    def empty(n):
        m = OMap(n)
        for _ in range(n):
            m.slots.append(dict(p=z3.BoolVal(False), d=z3.BitVecVal(0, 64), g=z3.BitVecVal(0, 64), w=Cell(EnumV(0))))
        return m

    def snapshot(self):
        return [dict(p=s["p"], d=s["d"], g=s["g"], w=s["w"].v) for s in self.slots]

    def contains(self, k):
        return z3.Or(*[z3.And(s["p"], keq((s["d"], s["g"]), k)) for s in self.slots])

    def on_drop(self, interp, path):
        return None


def make_summaries(W, N, fns):
    def s_now(I, a, p, c):
        return W.now()

    def s_le(I, a, p, c):
        return z3.ULE(a[0].cell.v, a[1].cell.v)

    def s_instant_rel(I, a, p, c):
        x, y = a[0].cell.v, a[1].cell.v
        op = c.rsplit("::", 1)[1]
        return {"lt": z3.ULT(x, y), "le": z3.ULE(x, y), "gt": z3.UGT(x, y), "ge": z3.UGE(x, y),
                "eq": x == y, "ne": x != y}[op]

    def s_last(I, a, p, c):
        m = a[0].cell.v
        for i, s in enumerate(m.slots):
            is_max = z3.And(s["p"], *[z3.Or(z3.Not(t["p"]), z3.Not(klt((s["d"], s["g"]), (t["d"], t["g"]))))
                                      for j, t in enumerate(m.slots) if j != i])
            if p.decide(is_max):
                key = Struct({0: Cell(s["d"]), 1: Cell(s["g"])})
                tup = Struct({0: Cell(Ref(Cell(key))), 1: Cell(Ref(s["w"]))})
                return EnumV(1, [Cell(tup)])
        return EnumV(0)

    def s_len(I, a, p, c):
        m = a[0].cell.v
        return z3.Sum([z3.If(s["p"], z3.BitVecVal(1, 64), z3.BitVecVal(0, 64)) for s in m.slots])

    def s_instant_dur_since(I, a, p, c):
        d = a[0].cell.v if isinstance(a[0], Ref) else a[0]
        now = a[1]
        return z3.If(z3.UGT(d, now), d - now, z3.BitVecVal(0, 64))

    def s_instant_cmp(I, a, p, c):
        x, y = a[0].cell.v, a[1].cell.v
        if p.decide(z3.ULT(x, y)):
            return EnumV(-1)
        if p.decide(x == y):
            return EnumV(0)
        return EnumV(1)

    def s_contains(I, a, p, c):
        return a[0].cell.v.contains(key_of(a[1]))

    def s_insert(I, a, p, c):
        m = a[0].cell.v
        k = key_of(a[1])
        val = a[2]
        # BTreeMap::insert: replace the value of an equal key, else add
        for s in m.slots:
            if p.decide(z3.And(s["p"], keq((s["d"], s["g"]), k))):
                old = s["w"].v
                s["w"].v = val
                return EnumV(1, [Cell(old)])
        for s in m.slots:
            if p.decide(z3.Not(s["p"])):
                s["p"] = z3.BoolVal(True)
                s["d"], s["g"] = k
                s["w"] = Cell(val)
                return EnumV(0)
        raise Unsupported("bounded map overflow (more than N simultaneous timers)")

    def s_remove(I, a, p, c):
        m = a[0].cell.v
        k = key_of(a[1])
        for s in m.slots:
            if p.decide(z3.And(s["p"], keq((s["d"], s["g"]), k))):
                s["p"] = z3.BoolVal(False)
                return EnumV(1, [Cell(s["w"].v)])
        return EnumV(0)

    def s_get_mut(I, a, p, c):
        m = a[0].cell.v
        k = key_of(a[1])
        for s in m.slots:
            if p.decide(z3.And(s["p"], keq((s["d"], s["g"]), k))):
                return EnumV(1, [Cell(Ref(s["w"]))])
        return EnumV(0)

    def s_is_empty(I, a, p, c):
        return z3.Not(z3.Or(*[s["p"] for s in a[0].cell.v.slots]))

    def s_first(I, a, p, c):
        m = a[0].cell.v
        for i, s in enumerate(m.slots):
            is_min = z3.And(s["p"], *[z3.Or(z3.Not(t["p"]), z3.Not(klt((t["d"], t["g"]), (s["d"], s["g"]))))
                                      for j, t in enumerate(m.slots) if j != i])
            if p.decide(is_min):
                key = Struct({0: Cell(s["d"]), 1: Cell(s["g"])})
                tup = Struct({0: Cell(Ref(Cell(key))), 1: Cell(Ref(s["w"]))})
                return EnumV(1, [Cell(tup)])
        return EnumV(0)

    def s_split_off(I, a, p, c):
        m = a[0].cell.v
        k = key_of(a[1])
        new = OMap.empty(m.n)
        for s, t in zip(m.slots, new.slots):
            ge = z3.Not(klt((s["d"], s["g"]), k))
            t["p"] = z3.And(s["p"], ge)
            t["d"], t["g"], t["w"] = s["d"], s["g"], s["w"]
            s["p"] = z3.And(s["p"], z3.Not(ge))
        return new

    def s_replace(I, a, p, c):
        old = a[0].cell.v
        a[0].cell.v = a[1]
        return old

    def s_into_iter(I, a, p, c):
        return ["iter", a[0], 0]

    def s_next(I, a, p, c):
        it = a[0].cell.v
        m = it[1]
        i = it[2]
        # ascending key order does not matter for the checked effects (wake set), slot order is used
        while i < m.n:
            s = m.slots[i]
            i += 1
            if p.decide(s["p"]):
                it[2] = i
                key = Struct({0: Cell(s["d"]), 1: Cell(s["g"])})
                return EnumV(1, [Cell(Struct({0: Cell(key), 1: Cell(s["w"].v)}))])
        it[2] = m.n
        return EnumV(0)

    def s_wake(I, a, p, c):
        W.events.append(("wake", a[0]))
        return UNIT

    def s_clone_waker(I, a, p, c):
        w = a[0].cell.v if isinstance(a[0], Ref) else a[0]
        W.events.append(("clone", w))
        return w

    def s_will_wake(I, a, p, c):
        x = a[0].cell.v if isinstance(a[0], Ref) else a[0]
        y = a[1].cell.v if isinstance(a[1], Ref) else a[1]
        return x[1] == y[1]

    def s_checked_add(I, a, p, c):
        r = a[0] + a[1]
        return EnumV(1, [Cell(r)]) if p.decide(z3.UGE(r, a[0])) else EnumV(0)

    def s_expect(I, a, p, c):
        ev = a[0]
        if ev.variant == 0:
            from interp import MirPanic
            raise MirPanic("Option::expect on None")
        return ev.fields[0].v

    def s_sat_dur(I, a, p, c):
        d = a[0].cell.v
        now = a[1]
        return z3.If(z3.UGT(d, now), d - now, z3.BitVecVal(0, 64))

    def s_map(I, a, p, c):
        ev = a[0]
        if ev.variant == 0:
            return EnumV(0)
        clo = [f for n, f in fns.items() if n.endswith("min_timeout::{closure#0}")][0]
        r = yield from I.call_fn(clo, [UNIT, ev.fields[0].v], p)
        return EnumV(1, [Cell(r)])

    UNIT_NS = {"secs": 10 ** 9, "millis": 10 ** 6, "micros": 10 ** 3, "nanos": 1}

    def s_dur_from(I, a, p, c):
        u = UNIT_NS[c.rsplit("_", 1)[1]]
        v = a[0]
        if v.size() < 64:
            v = z3.ZeroExt(64 - v.size(), v)
        return v * z3.BitVecVal(u, 64)

    def s_dur_as(I, a, p, c):
        u = UNIT_NS[c.rsplit("_", 1)[1]]
        v = a[0].cell.v if isinstance(a[0], Ref) else a[0]
        r = z3.UDiv(v, z3.BitVecVal(u, 64))
        return z3.ZeroExt(64, r) if c.endswith(("nanos", "millis", "micros")) else r

    def _val(x):
        return x.cell.v if isinstance(x, Ref) else x

    def s_inst_add(I, a, p, c):
        return _val(a[0]) + _val(a[1])

    def s_inst_sub(I, a, p, c):
        return _val(a[0]) - _val(a[1])

    def s_inst_checked_add(I, a, p, c):
        x, d = _val(a[0]), _val(a[1])
        r = x + d
        return EnumV(1, [Cell(r)]) if p.decide(z3.UGE(r, x)) else EnumV(0)

    def s_dur_add(I, a, p, c):
        return _val(a[0]) + _val(a[1])

    def s_dur_rel(I, a, p, c):
        x, y = _val(a[0]), _val(a[1])
        op = c.rsplit("::", 1)[1]
        return {"lt": z3.ULT(x, y), "le": z3.ULE(x, y), "gt": z3.UGT(x, y), "ge": z3.UGE(x, y), "eq": x == y, "ne": x != y}[op]

    def s_dur_minmax(I, a, p, c):
        x, y = _val(a[0]), _val(a[1])
        return z3.If(z3.UGE(x, y), x, y) if c.endswith("max") else z3.If(z3.ULE(x, y), x, y)

    def s_u64_cmp(I, a, p, c):
        x, y = a[0].cell.v, a[1].cell.v
        if p.decide(z3.ULT(x, y)):
            return EnumV(-1)
        if p.decide(x == y):
            return EnumV(0)
        return EnumV(1)

    def s_ctx_waker(I, a, p, c):
        return Ref(Cell(a[0].cell.v))

    def s_map_default(I, a, p, c):
        return OMap.empty(N)

    return [
        (r"^Instant::now$", s_now), (r"<Instant as Partial(?:Ord|Eq)>::(?:lt|le|gt|ge|eq|ne)$", s_instant_rel),
        (r"<Instant as Ord>::cmp", s_instant_cmp),
        (r"BTreeMap::<.*>::last_key_value", s_last), (r"BTreeMap::<.*>::len$", s_len),
        (r"Instant::(?:duration_since|checked_duration_since)$", s_instant_dur_since),
        (r"<u64 as Ord>::cmp", s_u64_cmp),
        (r"BTreeMap::<.*>::contains_key", s_contains), (r"BTreeMap::<.*>::insert$", s_insert),
        (r"BTreeMap::<.*>::remove", s_remove), (r"BTreeMap::<.*>::get_mut", s_get_mut),
        (r"BTreeMap::<.*>::is_empty", s_is_empty), (r"BTreeMap::<.*>::first_key_value", s_first),
        (r"BTreeMap::<.*>::split_off", s_split_off), (r"^std::mem::replace", s_replace),
        (r"as IntoIterator>::into_iter", s_into_iter), (r"IntoIter<.*as Iterator>::next", s_next),
        (r"^Waker::wake$", s_wake), (r"<Waker as Clone>::clone", s_clone_waker), (r"^Waker::will_wake$", s_will_wake),
        (r"checked_add", s_checked_add), (r"Option::<u64>::expect", s_expect),
        (r"saturating_duration_since", s_sat_dur),
        (r"^Duration::from_(?:secs|millis|micros|nanos)$", s_dur_from), (r"^Duration::as_(?:secs|millis|micros|nanos)$", s_dur_as),
        (r"<Instant as Add<Duration>>::add$|<Instant as AddAssign<Duration>>", s_inst_add), (r"<Instant as Sub<Duration>>::sub$", s_inst_sub),
        (r"<Instant as Sub>::sub$|<Instant as Sub<Instant>>::sub$", s_instant_dur_since),
        (r"^Instant::checked_add$", s_inst_checked_add),
        (r"<Duration as Ord>::(?:max|min)$", s_dur_minmax),
        (r"<Duration as Add>::add$", s_dur_add), (r"<Duration as PartialOrd>::(?:lt|le|gt|ge)$|<Duration as PartialEq>::(?:eq|ne)$", s_dur_rel),
        (r"^Context::<'_>::waker$", s_ctx_waker),
        (r"BTreeMap<.*> as Default>::default", s_map_default), (r"BTreeMap::<.*>::new$", s_map_default),
    ]


SUMMARY_TEXT = [
    "BTreeMap<TimerKey, Option<Waker>> = bounded ordered map of N slots with std's contract for insert/remove/"
    "contains_key/get_mut/first_key_value/is_empty/split_off/into_iter, ordered lexicographically by (deadline, generation) "
    "(that order is checked against the interpreted derived Ord of TimerKey)",
    "Instant = u64 nanoseconds; Instant::now() = a fresh symbol per call, non-decreasing; <=, cmp, "
    "saturating_duration_since by definition",
    "Waker = symbolic id; wake/clone are logged events; will_wake = id equality",
    "u64::checked_add / Option::expect by definition (expect(None) = reachable panic = violation)",
]


class RtObj:
    """TimerRuntime value: the generation counter and the wheel are located by their field types in the MIR
    (robust to field reordering); any other field a change may add is an unconstrained 64-bit symbol."""

    def __init__(self, i_gen, gen, i_wheel, wheel, tag):
        self.cells = {i_gen: Cell(gen), i_wheel: Cell(wheel)}
        self.i_gen, self.i_wheel, self.tag = i_gen, i_wheel, tag

    def field_cell(self, idx):
        if idx not in self.cells:
            self.cells[idx] = Cell(BV("%s_field%d" % (self.tag, idx)))
        return self.cells[idx]

    @property
    def f(self):
        return {0: self.cells[self.i_gen], 1: self.cells[self.i_wheel]}


class Timers:
    def __init__(self, mir_path, n_slots):
        self.fns, self.consts = load(mir_path)
        self.N = n_slots
        self.encoded = set()
        import re as _re
        self.i_gen = self.i_wheel = None
        for st in self.F("insert").blocks.values():
            for line in st:
                for m in _re.finditer(r"\(\(\*_1\)\.(\d+): ((?:[^()]|\([^()]*\))+)\)", line):
                    ty = m.group(2).strip()
                    if ty == "u64" and self.i_gen is None:
                        self.i_gen = int(m.group(1))
                    if "BTreeMap<" in ty and self.i_wheel is None:
                        self.i_wheel = int(m.group(1))
        if self.i_gen is None or self.i_wheel is None:
            raise Unsupported("cannot locate the generation counter / the wheel in TimerRuntime::insert")

    def F(self, name):
        c = [f for k, f in self.fns.items() if SPAN_RT in k and "<impl at" in k and k.endswith("::" + name)
             and "TimerRuntime" in f.sig]
        if not c:
            c = [f for k, f in self.fns.items() if SPAN_RT in k and k.endswith("::" + name)]
        if len(c) != 1:
            raise Unsupported("cannot locate TimerRuntime::%s in the MIR dump (%d candidates)" % (name, len(c)))
        return c[0]

    def resolver(self, callee):
        m = callee.split("::")
        if len(m) == 2 and m[0] == "TimerRuntime":
            return self.F(m[1])
        return None

    def mk(self, p, tag="s", wakers=False, free_slot=False):
        W = World(p)
        I = Interp(self.fns, self.consts, make_summaries(W, self.N, self.fns), resolver=self.resolver)
        m = OMap.symbolic(p, tag, self.N, concretize_wakers=wakers)
        gen = BV(tag + "_gen")
        # representation invariant: present keys pairwise distinct, generations below the counter
        for i, s in enumerate(m.slots):
            p.assume(z3.Implies(s["p"], z3.ULT(s["g"], gen)))
            for t in m.slots[i + 1:]:
                p.assume(z3.Implies(z3.And(s["p"], t["p"]), z3.Not(keq((s["d"], s["g"]), (t["d"], t["g"])))))
        if free_slot:
            p.assume(z3.Not(m.slots[-1]["p"]))
        rt = RtObj(self.i_gen, gen, self.i_wheel, m, tag)
        return I, W, rt, m, gen

    def invariant(self, rt):
        m = rt.f[1].v
        gen = rt.f[0].v
        obs = []
        for i, s in enumerate(m.slots):
            obs.append(("invariant: generation of slot %d below counter" % i, z3.Implies(s["p"], z3.ULT(s["g"], gen))))
            for j, t in enumerate(m.slots[i + 1:], i + 1):
                obs.append(("invariant: keys %d,%d distinct" % (i, j),
                            z3.Implies(z3.And(s["p"], t["p"]), z3.Not(keq((s["d"], s["g"]), (t["d"], t["g"]))))))
        return obs

    def done(self, I):
        self.encoded |= I.called

    # ------------------------------------------------------------------ checks
    def check_ord(self, p):
        """derived Ord of TimerKey == lexicographic (deadline, generation)"""
        W = World(p)
        I = Interp(self.fns, self.consts, make_summaries(W, self.N, self.fns), resolver=self.resolver)
        cmpf = [f for k, f in self.fns.items() if SPAN_RT in k and k.endswith("::cmp") and "TimerKey" in f.sig]
        if len(cmpf) != 1:
            raise Unsupported("TimerKey::cmp not found")
        a = (BV("a_d"), BV("a_g"))
        b = (BV("b_d"), BV("b_g"))
        ka = Struct({0: Cell(a[0]), 1: Cell(a[1])})
        kb = Struct({0: Cell(b[0]), 1: Cell(b[1])})
        r = I.run_to_end(I.call_fn(cmpf[0], [Ref(Cell(ka)), Ref(Cell(kb))], p))
        self.done(I)
        return [("TimerKey::cmp Less iff (deadline,generation) lexicographically smaller", z3.BoolVal(r.variant == -1) == klt(a, b)),
                ("TimerKey::cmp Equal iff both fields equal", z3.BoolVal(r.variant == 0) == keq(a, b))]

    def check_insert(self, p):
        I, W, rt, m, gen = self.mk(p, free_slot=True)
        before = m.snapshot()
        d = BV("dl")
        p.assume(z3.ULT(gen, z3.BitVecVal(2 ** 64 - 1, 64)))
        r = I.run_to_end(I.call_fn(self.F("insert"), [Ref(Cell(rt)), d], p))
        self.done(I)
        now = W.first_now()
        obs = [("insert returns None iff deadline <= now", z3.BoolVal(r.variant == 0) == z3.ULE(d, now))]
        after = rt.f[1].v
        if r.variant == 1:
            k = key_of(r.fields[0].v)
            obs.append(("inserted key carries the deadline", k[0] == d))
            obs.append(("inserted key carries the current generation", k[1] == gen))
            obs.append(("generation counter incremented", rt.f[0].v == gen + 1))
            obs.append(("inserted key is pending", after.contains(k)))
        else:
            obs.append(("rejected insert leaves the counter alone", rt.f[0].v == gen))
        for i, b in enumerate(before):
            obs.append(("insert keeps timer %d" % i, z3.Implies(b["p"], after.contains((b["d"], b["g"])))))
        obs += self.invariant(rt)
        return obs

    def check_cancel(self, p):
        I, W, rt, m, gen = self.mk(p)
        before = m.snapshot()
        k = (BV("k_d"), BV("k_g"))
        key = Struct({0: Cell(k[0]), 1: Cell(k[1])})
        I.run_to_end(I.call_fn(self.F("cancel"), [Ref(Cell(rt)), Ref(Cell(key))], p))
        self.done(I)
        after = rt.f[1].v
        obs = [("cancelled timer is gone (nothing left behind)", z3.Not(after.contains(k)))]
        for i, b in enumerate(before):
            obs.append(("cancel keeps other timer %d" % i,
                        z3.Implies(z3.And(b["p"], z3.Not(keq((b["d"], b["g"]), k))), after.contains((b["d"], b["g"])))))
        for i, s in enumerate(after.slots):
            was = z3.Or(*[z3.And(b["p"], keq((b["d"], b["g"]), (s["d"], s["g"]))) for b in before])
            obs.append(("cancel adds nothing (slot %d)" % i, z3.Implies(s["p"], was)))
        obs += self.invariant(rt)
        return obs

    def check_is_completed(self, p):
        I, W, rt, m, gen = self.mk(p)
        k = (BV("k_d"), BV("k_g"))
        key = Struct({0: Cell(k[0]), 1: Cell(k[1])})
        r = I.run_to_end(I.call_fn(self.F("is_completed"), [Ref(Cell(rt)), Ref(Cell(key))], p))
        self.done(I)
        return [("is_completed iff the key is no longer pending", r == z3.Not(m.contains(k)))]

    def check_min_timeout(self, p):
        I, W, rt, m, gen = self.mk(p)
        r = I.run_to_end(I.call_fn(self.F("min_timeout"), [Ref(Cell(rt))], p))
        self.done(I)
        anyp = z3.Or(*[s["p"] for s in m.slots])
        obs = [("min_timeout is Some iff a timer is pending", z3.BoolVal(r.variant == 1) == anyp)]
        if r.variant == 1:
            t = r.fields[0].v
            now = W.nows[-1] if W.nows else W.now()
            dist = [z3.If(z3.UGT(s["d"], now), s["d"] - now, z3.BitVecVal(0, 64)) for s in m.slots]
            for i, s in enumerate(m.slots):
                obs.append(("idle sleep not longer than the distance to timer %d" % i, z3.Implies(s["p"], z3.ULE(t, dist[i]))))
            obs.append(("min_timeout equals the distance to some pending timer",
                        z3.Or(*[z3.And(s["p"], t == dist[i]) for i, s in enumerate(m.slots)])))
        return obs

    def check_wake(self, p):
        I, W, rt, m, gen = self.mk(p, wakers=True)
        before = m.snapshot()
        I.run_to_end(I.call_fn(self.F("wake"), [Ref(Cell(rt))], p))
        self.done(I)
        after = rt.f[1].v
        obs = []
        if not W.nows:
            # empty wheel: early return
            obs.append(("wake on an empty wheel", z3.Not(z3.Or(*[b["p"] for b in before]))))
            return obs
        now = W.nows[0]
        woken = [e[1] for e in W.events if e[0] == "wake"]
        for i, b in enumerate(before):
            k = (b["d"], b["g"])
            obs.append(("timer %d stays pending iff deadline > now (never early, always fires)" % i,
                        z3.Implies(b["p"], after.contains(k) == z3.UGT(b["d"], now))))
            w = b["w"]
            if isinstance(w, EnumV) and w.variant == 1:
                token = w.fields[0].v            # this slot's waker object (identity)
                cnt = len([x for x in woken if x is token])
                obs.append(("expired timer %d: its waker is woken exactly once" % i,
                            z3.Implies(z3.And(b["p"], z3.ULE(b["d"], now)), z3.BoolVal(cnt == 1))))
                obs.append(("pending or absent timer %d: its waker is not woken" % i,
                            z3.Implies(z3.Not(z3.And(b["p"], z3.ULE(b["d"], now))), z3.BoolVal(cnt == 0))))
        for i, s in enumerate(after.slots):
            was = z3.Or(*[z3.And(b["p"], keq((b["d"], b["g"]), (s["d"], s["g"]))) for b in before])
            obs.append(("wake adds nothing (slot %d)" % i, z3.Implies(s["p"], was)))
        obs += self.invariant(rt)
        return obs

    def check_update_waker(self, p):
        I, W, rt, m, gen = self.mk(p, wakers=True)
        before = m.snapshot()
        k = (BV("k_d"), BV("k_g"))
        key = Struct({0: Cell(k[0]), 1: Cell(k[1])})
        neww = ("waker", BV("new_wid"))
        I.run_to_end(I.call_fn(self.F("update_waker"), [Ref(Cell(rt)), Ref(Cell(key)), Ref(Cell(neww))], p))
        self.done(I)
        after = rt.f[1].v
        obs = []
        for i, (b, s) in enumerate(zip(before, after.slots)):
            hit = z3.And(b["p"], keq((b["d"], b["g"]), k))
            obs.append(("update_waker keeps timer %d pending" % i, s["p"] == b["p"]))
            w = s["w"].v
            has = isinstance(w, EnumV) and w.variant == 1
            if has:
                obs.append(("after update_waker the addressed timer %d wakes the new waker" % i,
                            z3.Implies(hit, w.fields[0].v[1] == neww[1])))
            else:
                obs.append(("after update_waker the addressed timer %d has a waker" % i, z3.Not(hit)))
            bw = b["w"]
            if isinstance(bw, EnumV) and bw.variant == 1 and has:
                obs.append(("update_waker leaves other timer %d's waker alone" % i,
                            z3.Implies(z3.Not(hit), w.fields[0].v[1] == bw.fields[0].v[1])))
            elif isinstance(bw, EnumV) and bw.variant == 0:
                obs.append(("update_waker gives no waker to other timer %d" % i, z3.Implies(z3.Not(hit), z3.BoolVal(not has))))
        return obs

    def check_poll_timer(self, p):
        I, W, rt, m, gen = self.mk(p, wakers=True)
        k = (BV("k_d"), BV("k_g"))
        key = Struct({0: Cell(k[0]), 1: Cell(k[1])})
        pending_before = m.contains(k)
        cxw = ("waker", BV("cx_wid"))
        r = I.run_to_end(I.call_fn(self.F("poll_timer"), [Ref(Cell(rt)), Ref(Cell(cxw)), Ref(Cell(key))], p))
        self.done(I)
        after = rt.f[1].v
        obs = [("poll_timer is Ready iff the timer is no longer pending", z3.BoolVal(r.variant == 0) == z3.Not(pending_before))]
        if r.variant == 1:
            for i, s in enumerate(after.slots):
                hit = z3.And(s["p"], keq((s["d"], s["g"]), k))
                w = s["w"].v
                if isinstance(w, EnumV) and w.variant == 1:
                    obs.append(("Pending poll registered the task's waker (slot %d)" % i, z3.Implies(hit, w.fields[0].v[1] == cxw[1])))
                else:
                    obs.append(("Pending poll registered the task's waker (slot %d)" % i, z3.Not(hit)))
        return obs

    CHECKS = ["ord", "insert", "cancel", "is_completed", "min_timeout", "wake", "update_waker", "poll_timer"]

    def run(self, seed=0, keep_smt2=False):
        results = {}
        for name in self.CHECKS:
            st, fails = explore("timers." + name, getattr(self, "check_" + name), seed=seed, keep_smt2=keep_smt2)
            results[name] = (st, fails)
        return results


# ---------------------------------------------------------------------- concrete runs (translator validation)
SHIFT = 1000      # ms shift so that times before the base instant stay unsigned


def concrete_run(T, scenario):
    """Run a scenario (same syntax as native/timers) through the interpreter with a pinned clock.
    Times are in half-milliseconds: deadline X ms -> 2*(X+SHIFT); 'sleep:X' puts the clock just after X."""
    from interp import Path
    p = Path([])
    n_ins = max(1, len([o for o in scenario.split(";") if o.startswith("ins")]))
    W = World(p)
    I = Interp(T.fns, T.consts, make_summaries(W, n_ins, T.fns), resolver=T.resolver)
    W.fixed = 2 * (SHIFT - 30)
    rt = I.run_to_end(I.call_fn(T.F("new"), [], p))
    rtc = Cell(rt)
    timers = []
    out = []

    def concrete(x):
        x = z3.simplify(x) if not isinstance(x, bool) else x
        if isinstance(x, bool):
            return x
        if z3.is_true(x):
            return True
        if z3.is_false(x):
            return False
        raise Unsupported("concrete run produced a symbolic value: %s" % x)

    for op in [o for o in scenario.split(";") if o]:
        name, _, arg = op.partition(":")
        arg = int(arg) if arg else 0
        if name == "ins":
            r = I.run_to_end(I.call_fn(T.F("insert"), [Ref(rtc), z3.BitVecVal(2 * (arg + SHIFT), 64)], p))
            timers.append(r.fields[0].v if r.variant == 1 else None)
            out.append({"op": "ins", "accepted": r.variant == 1})
        elif name == "sleep":
            W.fixed = max(W.fixed, 2 * (arg + SHIFT) + 1)
        elif name == "wake":
            I.run_to_end(I.call_fn(T.F("wake"), [Ref(rtc)], p))
            for i, k in enumerate(timers):
                if k is None:
                    continue
                done = I.run_to_end(I.call_fn(T.F("is_completed"), [Ref(rtc), Ref(Cell(k))], p))
                out.append({"op": "wake", "idx": i, "completed": concrete(done)})
        elif name == "cancel":
            if timers[arg] is not None:
                I.run_to_end(I.call_fn(T.F("cancel"), [Ref(rtc), Ref(Cell(timers[arg]))], p))
            timers[arg] = None
        elif name == "done":
            if timers[arg] is not None:
                done = I.run_to_end(I.call_fn(T.F("is_completed"), [Ref(rtc), Ref(Cell(timers[arg]))], p))
                out.append({"op": "done", "idx": arg, "completed": concrete(done)})
        elif name == "min":
            r = I.run_to_end(I.call_fn(T.F("min_timeout"), [Ref(rtc)], p))
            out.append({"op": "min", "some": r.variant == 1})
        elif name == "poll":
            if timers[arg] is not None:
                cxw = ("waker", z3.BitVecVal(arg, 64))
                r = I.run_to_end(I.call_fn(T.F("poll_timer"), [Ref(rtc), Ref(Cell(cxw)), Ref(Cell(timers[arg]))], p))
                out.append({"op": "poll", "idx": arg, "ready": r.variant == 0})
    T.done(I)
    return out


def random_scenarios(seed, n):
    import random
    rnd = random.Random(seed * 7919 + 13)
    res = []
    for _ in range(n):
        ops = []
        k = rnd.randint(2, 4)
        slots = rnd.sample([20, 40, 60, 80, 100, 120], k)
        if rnd.random() < 0.4:
            slots[rnd.randrange(k)] = -10       # a deadline already in the past: must be rejected
        for d in slots:
            ops.append("ins:%d" % d)
        ops.append("min")
        live = list(range(k))
        t = 0
        for _step in range(rnd.randint(2, 4)):
            t += rnd.choice([20, 40])
            ops.append("sleep:%d" % (t + 10))
            c = rnd.random()
            if c < 0.55:
                ops.append("wake")
            elif c < 0.75 and live:
                ops.append("cancel:%d" % live.pop(rnd.randrange(len(live))))
                ops.append("wake")
            elif c < 0.9 and live:
                ops.append("poll:%d" % rnd.choice(live))
            else:
                ops.append("min")
        ops.append("wake")
        ops.append("min")
        res.append(";".join(ops))
    return res
