"""Plan object (for lib/mirprop) of the process-group routing check (mirsym/c19_group.py)."""


class GroupPlan:
    summaries = []
    checker_cmd = ""

    def z3_version(self):
        import z3
        return z3.get_version_string()

    def prepare(self, tier):
        import dump
        import c19_group
        p, c = dump.dump_mir("compio-actor", [], tag="compio-actor")
        self.checker_cmd = c + " ;; mirsym/c19_group.py"
        self.B = c19_group.GroupModel(p, max_members=3 if tier == "quick" else 5)
        GroupPlan.summaries = c19_group.SUMMARY_TEXT

    def checks(self, tier):
        return [("group." + n, getattr(self.B, "check_" + n)) for n in self.B.CHECKS]

    def encoded(self):
        return sorted(self.B.encoded)

    def bounds(self, tier):
        return {"members": "every group size 0..%d" % self.B.max_members, "cursor": "any usize (symbolic, 64-bit bit-vector)",
                "member answers": "accepts / full / closed per member, every combination", "calls": "1 send / join / Membership drop",
                "registry": "entry of the name under test: registry not initialised / absent / reserved / active, plus one unrelated active "
                            "entry; 1 reserve / get / (activate +) drop"}

    def validate(self, tier):
        """the repo's own scenario (process_group::balances_casts_and_calls_round_robin): two live members, cursor 0, 1, 2"""
        import z3
        from explore import explore
        from interp import Ref, Cell, Infeasible
        B = self.B
        firsts = []

        def body(p):
            W, I = B.world(p)
            pg, state, members, cursor0, next_id0, arc = B.group(p, 2)
            got = []
            for k in range(3):
                W.asked.clear()
                r = I.run_to_end(I.call_fn(B.F("send", r"_1: &ProcessGroup<M>, _2: M"), [Ref(Cell(pg)), ("message", k)], p))
                if r.variant != 0 or len(W.asked) != 1:
                    raise Infeasible()          # keep the path where every member accepts at once
                got.append(W.asked[0][0])
            p.assume(cursor0 == 0)
            if p.solver.check() != z3.sat:
                raise Infeasible()
            firsts.append(got)
            return [("round robin over two accepting members from cursor 0: 0, 1, 0", z3.BoolVal(got == [0, 1, 0]))]
        st, fails = explore("validate.group", body)
        dis = 1 if fails or not firsts else 0
        return 1, dis, ["three sends to a group of two accepting members from cursor 0 through the interpreter: delivered to member 0, 1, 0 — the "
                        "behaviour the repo's process_group::balances_casts_and_calls_round_robin test observes"]

    def replay(self, f):
        return None, {"model": f.model, "choices": f.trace,
                      "note": "counterexample = group size, cursor (model) and each member's answer (choices)"}
