"""C05 / C01, runtime level — the `Submit` future (compio-runtime/src/future/future.rs): how an awaited operation is
submitted, re-polled, and *cancelled when the future is dropped early*.

Interpreted from MIR: `<Submit<T, ()> as Future>::poll`, `<Submit<T, Extra> as Future>::poll`, the pin-project
`project` function, `State::submitted`, and the `PinnedDrop` body (`__drop_inner`).  The Proactor side is
summarised by its contract (which `kani/driver-stub` checks from the other side): `submit_raw` answers
`Pending(key)` or `Ready(result)`; `poll_task[_with_extra](key)` answers `Pending(key)` (after updating the waker)
or `Ready(result)`; `Proactor::cancel(key)` takes the key.  The context may or may not carry a cancel token and
extra data (both explored).

Obligations over every path of a *program* of up to three steps (poll, poll, drop | poll, drop | drop | poll, poll):
  * the operation is handed to `submit_raw` exactly once, on the first poll, and it is the operation given to `new`;
  * while the driver answers Pending the future is Pending and keeps exactly the key the driver gave back last;
    a cancel token present at submission is registered with that key, exactly once;
  * Ready is passed on exactly as the driver delivered it, and afterwards the future holds nothing;
  * dropping the future while an operation is submitted calls `Proactor::cancel` exactly once with the current key;
    dropping it before submission or after completion cancels nothing; nothing is cancelled twice.
"""
import re

import z3

from interp import Interp, Struct, EnumV, Ref, Cell, UNIT, Unsupported, Infeasible, MirPanic, load, Path, strip_generics

SUMMARY_TEXT = [
    "submit_raw(driver, op, extra) = Pending(fresh key) or Ready(result); poll_task / poll_task_with_extra(driver, waker, key) = "
    "Pending(same key) or Ready(result); Proactor::cancel(driver, key) = takes the key (the Proactor's side of this contract is "
    "checked by kani/driver-stub)",
    "Context: get_waker = the task's waker; get_cancel = None or Some(token); as_extra = None or Some(extra); "
    "CancelToken::register(token, &key) is recorded",
    "Rc<RefCell<Proactor>> deref / borrow / borrow_mut / RefMut deref = the driver object (dynamic borrow errors are not modelled here); "
    "Pin = transparent",
]


class SubmitModel:
    def __init__(self, mir_path):
        self.fns, self.consts = load(mir_path)
        self.encoded = set()

    def F(self, name, sig_pat):
        c = [f for k, f in self.fns.items() if k.startswith("future::future::") and k.endswith("::" + name) and re.search(sig_pat, f.sig)]
        if len(c) != 1:
            raise Unsupported("cannot locate %s / %s (%d candidates)" % (name, sig_pat, len(c)))
        return c[0]

    def resolver(self, callee):
        clean = strip_generics(callee)
        if clean.endswith("::project") and "Submit" in callee:
            return self.F("project", r"_1: Pin<&mut future::future::Submit<T, E>>")
        if re.search(r"State::submitted$", clean):
            return self.F("submitted", r"_1: Key<T>")
        return None

    def world(self, p, with_extra):
        W = type("W", (), {})()
        W.submits, W.polls, W.cancels, W.registered = [], [], [], []
        W.next_key = 0
        W.current_key = None
        W.op = ("op", "the operation given to Submit::new")
        W.has_token = p.choose(2, "context carries a cancel token?") == 1
        W.has_extra = p.choose(2, "context carries extra data?") == 1
        W.results = []

        def fresh_key():
            W.next_key += 1
            return ("key", W.next_key)

        def s_submit_raw(I, a, pth, c):
            W.submits.append(a[1])
            if pth.choose(2, "submit_raw completes at once?") == 1:
                r = ("result", "immediate")
                W.results.append(r)
                return EnumV(1, [Cell(r)])
            k = fresh_key()
            W.current_key = k
            return EnumV(0, [Cell(k)])

        def s_poll_task(I, a, pth, c):
            k = a[2]
            W.polls.append(k)
            if pth.choose(2, "operation completed?") == 1:
                r = ("result", k)
                W.results.append(r)
                W.current_key = None
                if c.endswith("with_extra"):
                    return EnumV(1, [Cell(Struct({0: Cell(r), 1: Cell(("extra-of", k))}))])
                return EnumV(1, [Cell(r)])
            # the key comes back (possibly re-created): the future must keep exactly this one
            k2 = ("key", k[1], "returned")
            W.current_key = k2
            return EnumV(0, [Cell(k2)])

        def s_cancel(I, a, pth, c):
            W.cancels.append(a[1])
            return EnumV(0)

        def s_register(I, a, pth, c):
            k = a[1].cell.v if isinstance(a[1], Ref) else a[1]
            W.registered.append(k)
            return UNIT

        def s_get_cancel(I, a, pth, c):
            return EnumV(1, [Cell(Ref(Cell(("token",))))]) if W.has_token else EnumV(0)

        def s_as_extra(I, a, pth, c):
            return EnumV(1, [Cell(("extra",))]) if W.has_extra else EnumV(0)

        def s_get_waker(I, a, pth, c):
            return Ref(Cell(("waker",)))

        def s_identity(I, a, pth, c):
            return a[0]

        def s_deref(I, a, pth, c):
            v = a[0]
            while isinstance(v, Ref) and isinstance(v.cell.v, Ref):
                v = v.cell.v
            return v

        def s_pin_get(I, a, pth, c):
            v = a[0]
            return v.f[0].v if isinstance(v, Struct) else v

        def s_pin_new(I, a, pth, c):
            return Struct({0: Cell(a[0])})

        def s_opt_take(I, a, pth, c):
            cell = a[0].cell
            old = cell.v
            cell.v = EnumV(0)
            return old

        def s_expect(I, a, pth, c):
            ev = a[0]
            if ev.variant == 0:
                raise MirPanic("expect on None: %s" % (a[1],))
            return ev.fields[0].v

        def s_default_extra(I, a, pth, c):
            return ("default-extra",)

        def s_unit(I, a, pth, c):
            return UNIT

        S = [
            (r"^submit_raw::<", s_submit_raw), (r"^poll_task(?:_with_extra)?::<", s_poll_task),
            (r"^Proactor::cancel::<", s_cancel), (r"^CancelToken::register::<", s_register),
            (r"ContextExt>::get_cancel$", s_get_cancel), (r"ContextExt>::as_extra::<", s_as_extra), (r"ContextExt>::get_waker$", s_get_waker),
            (r"^<Rc<RefCell<Proactor>> as Deref>::deref$", s_deref), (r"^RefCell::<Proactor>::borrow(?:_mut)?$", s_identity),
            (r"^<Ref(?:Mut)?<'_, Proactor> as Deref(?:Mut)?>::deref(?:_mut)?$", s_deref),
            (r"^Pin::<.*>::get_unchecked_mut$|^Pin::<.*>::get_mut$|^<Pin<.*> as Deref(?:Mut)?>::deref(?:_mut)?$", s_pin_get),
            (r"^Pin::<.*>::new(?:_unchecked)?$", s_pin_new),
            (r"^Option::<.*State<.*>>::take$", s_opt_take), (r"^Option::<.*State<.*>>::expect$", s_expect),
            (r"^Proactor::default_extra$", s_default_extra),
        ]
        I = Interp(self.fns, self.consts, S, resolver=self.resolver)
        I.enums = dict(I.enums)
        I.enums["State"] = {"Idle": 0, "Submitted": 1}
        I.drop_hook = lambda *a: None
        return W, I

    def check_program(self, p, with_extra=False):
        W, I = self.world(p, with_extra)
        poll_fn = self.F("poll", r"_1: Pin<&mut future::future::Submit<T, Extra>>" if with_extra else r"_1: Pin<&mut future::future::Submit<T>>")
        drop_fn = self.F("__drop_inner", r"_1: Pin<&mut future::future::Submit<T, E>>")
        # Submit { driver, state }: field order from the pin-project `project` function
        state0 = EnumV(1, [Cell(EnumV(0, [Cell(W.op)]))])         # Some(State::Idle { op })
        sub = Struct({0: Cell(Ref(Cell(("proactor",)))), 1: Cell(state0)})
        pinned = Struct({0: Cell(Ref(Cell(sub)))})
        cx = Ref(Cell(("ctx",)))
        programs = [("poll", "poll", "drop"), ("poll", "drop"), ("drop",), ("poll", "poll"), ("poll", "poll", "poll")]
        prog = programs[p.choose(len(programs), "program")]
        obs = []
        ready = None
        polls_done = 0
        for step in prog:
            if step == "poll":
                if ready is not None:
                    break           # polling after completion panics by contract ("Cannot poll after ready")
                key_before = W.current_key
                nsub, nreg = len(W.submits), len(W.registered)
                r = I.run_to_end(I.call_fn(poll_fn, [pinned, cx], p))
                polls_done += 1
                state = sub.f[1].v
                if polls_done == 1:
                    obs.append(("the first poll submits the operation given to new(), exactly once",
                                z3.BoolVal(len(W.submits) == 1 and W.submits[0] == W.op)))
                else:
                    obs.append(("later polls submit nothing", z3.BoolVal(len(W.submits) == nsub)))
                if r.variant == 1:
                    ok = isinstance(state, EnumV) and state.variant == 1 and state.fields[0].v.variant == 1 and \
                        state.fields[0].v.fields[0].v == W.current_key
                    obs.append(("Pending: the future keeps exactly the key the driver gave back last", z3.BoolVal(bool(ok))))
                    if polls_done == 1:
                        exp = [("key", 1)] if W.has_token else []
                        obs.append(("a cancel token in the context is registered with the submitted key, exactly once",
                                    z3.BoolVal(W.registered == exp)))
                    else:
                        obs.append(("re-polls register nothing new", z3.BoolVal(len(W.registered) == nreg)))
                else:
                    ready = r.fields[0].v
                    got = ready.f[0].v if (with_extra and isinstance(ready, Struct)) else ready
                    obs.append(("Ready passes on exactly the driver's result", z3.BoolVal(len(W.results) == 1 and got == W.results[0])))
                    obs.append(("after Ready the future holds nothing", z3.BoolVal(isinstance(state, EnumV) and state.variant == 0)))
            else:
                key = W.current_key
                I.run_to_end(I.call_fn(drop_fn, [pinned], p))
                if ready is None and key is not None:
                    obs.append(("dropping a future with a submitted operation cancels exactly that operation, once",
                                z3.BoolVal(W.cancels == [key])))
                else:
                    obs.append(("dropping before submission or after completion cancels nothing", z3.BoolVal(W.cancels == [])))
                obs.append(("after drop the future holds nothing", z3.BoolVal(sub.f[1].v.variant == 0)))
        obs.append(("nothing is ever cancelled twice", z3.BoolVal(len(W.cancels) == len(set(W.cancels)))))
        obs.append(("every re-poll asks the driver about the key it holds", z3.BoolVal(all(isinstance(k, tuple) and k[0] == "key" for k in W.polls))))
        self.encoded |= I.called
        return obs

    # ------------------------------------------------------------------ SubmitMulti (multishot stream)
    def FS(self, name, sig_pat):
        c = [f for k, f in self.fns.items() if k.startswith("future::stream::") and k.endswith("::" + name) and re.search(sig_pat, f.sig)]
        if len(c) != 1:
            raise Unsupported("cannot locate stream %s / %s (%d candidates)" % (name, sig_pat, len(c)))
        return c[0]

    def check_submit_multi(self, p):
        W, I = self.world(p, True)
        I.enums["State"] = {"Idle": 0, "Submitted": 1, "Finished": 2}
        W.items, W.multi_polls, W.final = [], 0, None
        me = self

        def s_submit_raw(I_, a, pth, c):
            W.submits.append(a[1])
            if pth.choose(2, "submit_raw completes at once?") == 1:
                W.final = ("final-result", "immediate")
                return EnumV(1, [Cell(Struct({0: Cell(W.final), 1: Cell(a[1])}))])
            W.next_key += 1
            W.current_key = ("key", W.next_key)
            return EnumV(0, [Cell(W.current_key)])

        def s_poll_multishot(I_, a, pth, c):
            k = a[2].cell.v if isinstance(a[2], Ref) else a[2]
            W.multi_polls += 1
            W.polls.append(k)
            if pth.choose(2, "an intermediate result is queued?") == 1:
                item = ("item", len(W.items))
                W.items.append(item)
                return EnumV(1, [Cell(item)])
            return EnumV(0)

        def s_poll_task_extra(I_, a, pth, c):
            k = a[2]
            W.polls.append(k)
            if pth.choose(2, "operation finished?") == 1:
                W.final = ("final-result", k)
                W.current_key = None
                return EnumV(1, [Cell(Struct({0: Cell(Struct({0: Cell(W.final), 1: Cell(W.op)})), 1: Cell(("extra-of", k))}))])
            return EnumV(0, [Cell(k)])

        import re as _re
        I.summ = [(_re.compile(r"^submit_raw::<"), s_submit_raw), (_re.compile(r"^poll_multishot::<"), s_poll_multishot),
                  (_re.compile(r"^poll_task_with_extra::<"), s_poll_task_extra)] + I.summ
        I.resolver = lambda callee: (me.FS("project", r"_1: Pin<&mut future::stream::SubmitMulti<T>>") if ("SubmitMulti" in callee and callee.endswith("::project")) else
                                     me.FS("submitted", r"_1: Key<T>") if _re.search(r"State::<.*>::submitted$|State::submitted$", callee) else None)
        poll_fn = self.FS("poll_next", r"_1: Pin<&mut future::stream::SubmitMulti<T>>")
        drop_fn = self.FS("__drop_inner", r"_1: Pin<&mut future::stream::SubmitMulti<T>>")
        state0 = EnumV(1, [Cell(EnumV(0, [Cell(W.op)]))])
        sub = Struct({0: Cell(Ref(Cell(("proactor",)))), 1: Cell(state0)})
        pinned = Struct({0: Cell(Ref(Cell(sub)))})
        cx = Ref(Cell(("ctx",)))
        programs = [("next", "next", "next", "drop"), ("next", "drop"), ("drop",), ("next", "next", "next", "next")]
        prog = programs[p.choose(len(programs), "program")]
        obs = []
        delivered = []
        finished = False
        for step in prog:
            if step == "next":
                npolls, nsub = len(W.polls), len(W.submits)
                r = I.run_to_end(I.call_fn(poll_fn, [pinned, cx], p))
                st = sub.f[1].v
                inner = st.fields[0].v if (isinstance(st, EnumV) and st.variant == 1) else None
                if finished:
                    obs.append(("a finished stream yields None and asks the driver nothing more",
                                z3.BoolVal(r.variant == 0 and r.fields[0].v.variant == 0 and len(W.polls) == npolls and len(W.submits) == nsub)))
                    continue
                if r.variant == 1:
                    obs.append(("Pending: the stream keeps exactly the key the driver gave back",
                                z3.BoolVal(inner is not None and inner.variant == 1 and inner.fields[0].v == W.current_key)))
                else:
                    item = r.fields[0].v
                    if isinstance(item, EnumV) and item.variant == 1:
                        v = item.fields[0].v
                        if isinstance(v, tuple) and v[0] == "item":
                            delivered.append(v)
                            obs.append(("an intermediate result is yielded and the operation stays submitted under the same key",
                                        z3.BoolVal(inner is not None and inner.variant == 1 and inner.fields[0].v == W.current_key)))
                        else:
                            finished = True
                            got = v.f[0].v if isinstance(v, Struct) else v
                            obs.append(("the final result is yielded exactly as the driver delivered it", z3.BoolVal(got == W.final)))
                            obs.append(("after the final result the stream is Finished and holds the operation, not a key",
                                        z3.BoolVal(inner is not None and inner.variant == 2)))
                    else:
                        obs.append(("None is only yielded by a finished stream", z3.BoolVal(False)))
                obs.append(("the operation is submitted exactly once over the stream's life", z3.BoolVal(len(W.submits) == 1 and W.submits[0] == W.op)))
            else:
                key = W.current_key
                I.run_to_end(I.call_fn(drop_fn, [pinned], p))
                if key is not None and not finished:
                    obs.append(("dropping a stream with a submitted operation cancels exactly that operation, once", z3.BoolVal(W.cancels == [key])))
                else:
                    obs.append(("dropping an idle or finished stream cancels nothing", z3.BoolVal(W.cancels == [])))
        obs.append(("every intermediate result the driver had is yielded, once, in order", z3.BoolVal(delivered == W.items)))
        if W.has_token and W.submits and W.next_key:
            obs.append(("a cancel token in the context is registered with the submitted key, exactly once", z3.BoolVal(W.registered == [("key", 1)])))
        self.encoded |= I.called
        return obs

    def check_submit(self, p):
        return self.check_program(p, False)

    def check_submit_with_extra(self, p):
        return self.check_program(p, True)

    CHECKS = ["submit", "submit_with_extra", "submit_multi"]
