"""C11 (and the buffer.rs clause of C12) — `Buffer`, `BufWriter`, `BufReader` of compio-io, interpreted from MIR.

Interpreted: compio-io/src/buffer.rs (take_inner, restore_inner, inner, inner_mut, buf, buf_mut, buffer, is_empty, all_done,
need_fill, need_flush, reset, advance, with (coroutine), with_sync, flush_to (coroutine) and its closure),
write/buf.rs (BufWriter::{flush_if_needed, write, flush, shutdown} coroutines and the write closure), read/buf.rs
(BufReader::{fill_buf, read, consume} coroutines and closures), util/internal.rs slice_to_buf.

The byte buffer underneath (Vec<u8>, compio_buf::Slice<_>) is a ghost object: symbolic length, capacity and content
(a z3 array), with compio-buf's documented behaviour as summaries (slice(range) asserts begin <= buf_len; a Slice's view
starts at begin; set_len on a slice sets the parent's length to begin + len; advance_to only grows; as_uninit = the bytes
from begin up to the capacity).  The inner writer / reader is adversarial: every call answers Pending (bounded), an error,
or Ok(n) with a solver-chosen n within what it was offered (AsyncWrite/AsyncRead contract), the reader also writing n
solver-chosen bytes.

Obligation shape (one step from an arbitrary well-formed state begin <= len <= cap, so histories follow by induction):
the byte stream  delivered-so-far ++ pending  grows by exactly the bytes the caller was told were accepted; an inner
write is offered exactly the unsent bytes, in order; a failed flush leaves exactly the unsent tail; nothing panics.
"""
import re

import z3

from interp import (Interp, Struct, EnumV, Ref, Cell, UNIT, Unsupported, Infeasible, MirPanic, Coroutine, Closure, load,
                    Path)
from c08_wrappers import Wrappers

SUMMARY_TEXT = [
    "Vec<u8> = ghost (len, cap, content array); compio_buf::Slice<T> = (parent, begin, end=None): buf_len = parent_len - begin, "
    "capacity = parent_cap - begin, slice(b..) asserts b <= buf_len, set_len(n) = parent.set_len(begin + n), advance_to grows "
    "only, clear = set_len(0), into_inner/as_inner/begin by definition (compio-buf's own behaviour is C10's subject)",
    "util::internal::slice_to_uninit(src, dst) = copies min(src.len, dst.len) bytes to the front of dst, returns that count",
    "inner writer: write(slice) answers Pending (bounded), Err(e) or Ok(n) with 0 <= n <= slice.buf_len (solver-chosen); "
    "flush/shutdown answer Ok or Err; inner reader: read(slice) answers Pending, Err(e) or Ok(n), 0 <= n <= slice capacity, "
    "stores n solver-chosen bytes at the slice's start and sets its length to n (n = 0 on a non-empty request is EOF)",
    "Option::{take, as_ref, as_mut, expect, is_none}, Result::expect, `?` (Try::branch / from_residual), Pin, IntoFuture, "
    "FnOnce::call_once of in-crate closures, futures_util Map by definition; io::Error = opaque (kind recorded)",
]

MAXLEN = (1 << 63) - 1


def bv(v):
    return z3.IntVal(v)


class GVec:
    """ghost Vec<u8>"""

    def __init__(self, name, ln, cap, data):
        self.name, self.len, self.cap, self.data = name, ln, cap, data


class GSlice:
    def __init__(self, inner, begin, end=None):
        self.cell = Cell(inner)
        self.begin, self.end = begin, end

    @property
    def inner(self):
        return self.cell.v


class GBytes:
    """&[u8]"""

    def __init__(self, data, off, ln):
        self.data, self.off, self.len = data, off, ln

    def ptr_metadata(self):
        return self.len


class GUninit:
    """&mut [MaybeUninit<u8>] inside a ghost Vec"""

    def __init__(self, root, off, ln):
        self.root, self.off, self.len = root, off, ln

    def ptr_metadata(self):
        return self.len


class GSrc:
    """the caller's IoBuf (source of a write): only as_init() is ever asked of it"""

    def __init__(self, data, ln):
        self.data, self.len = data, ln


class GVecSrc:
    """the caller's IoVectoredBuf (source of a vectored write): only iter_slice() is ever asked of it"""

    def __init__(self, parts):
        self.parts = parts          # [GBytes]


class GIter:
    def __init__(self, items):
        self.items = list(items)


class IoErr:
    """opaque io::Error: who made it and its kind (an inner stream's error picks its kind when somebody asks)"""

    def __init__(self, origin, kind=None):
        self.origin, self.kind = origin, kind

    def __repr__(self):
        return "io-error(%s, %s)" % (self.origin, self.kind)


def is_inner_error(e):
    return isinstance(e, IoErr) and e.origin == "inner"


class WFut:
    def __init__(self, kind, arg=None, f=None):
        self.kind, self.arg, self.f = kind, arg, f


def deref(x):
    while isinstance(x, Ref):
        x = x.cell.v
    return x


def LE(a, b):
    return a <= b


def LT(a, b):
    return a < b


def GT(a, b):
    return a > b


ISORT = z3.IntSort()


class PArr:
    """byte array given by a function index -> byte expression: a piecewise view over z3 arrays (memcpy results), kept free of
    quantifiers and array lambdas so that every obligation stays in a fragment both z3 and cvc5 accept"""

    def __init__(self, f):
        self.f = f


def sel(a, i):
    return a.f(i) if isinstance(a, PArr) else z3.Select(a, i)


def overlay(old, lo, cnt, src, src_off):
    """old with the bytes [lo, lo+cnt) replaced by src[src_off ..]"""
    return PArr(lambda i: z3.If(z3.And(lo <= i, i < lo + cnt), sel(src, src_off + (i - lo)), sel(old, i)))


def shifted(old, n):
    return PArr(lambda i: sel(old, i + n))


def umin(a, b):
    return z3.If(LE(a, b), a, b)


def blen(x, p):
    x = deref(x)
    if isinstance(x, GVec):
        return x.len
    if isinstance(x, GSlice):
        L = blen(x.inner, p)
        e = L if x.end is None else umin(x.end, L)
        if not p.decide(LE(x.begin, e)):
            raise MirPanic("slice index starts past its end (Slice deref with begin > len)")
        return e - x.begin
    if isinstance(x, GBytes) or isinstance(x, GSrc):
        return x.len
    raise Unsupported("buf_len of %r" % (x,))


def bcap(x, p):
    x = deref(x)
    if isinstance(x, GVec):
        return x.cap
    if isinstance(x, GSlice):
        C = bcap(x.inner, p)
        e = C if x.end is None else umin(x.end, C)
        if not p.decide(LE(x.begin, e)):
            raise MirPanic("slice index starts past the capacity (Slice as_uninit with begin > cap)")
        return e - x.begin
    raise Unsupported("buf_capacity of %r" % (x,))


def boff(x):
    x = deref(x)
    if isinstance(x, GVec):
        return bv(0)
    return boff(x.inner) + x.begin


def broot(x):
    x = deref(x)
    while isinstance(x, GSlice):
        x = x.inner
    return x


def bset_len(x, n):
    x = deref(x)
    if isinstance(x, GVec):
        x.len = n
    else:
        bset_len(x.inner, x.begin + n)


def some(v):
    return EnumV(1, [Cell(v)])


NONE = lambda: EnumV(0)
ok = lambda v: EnumV(0, [Cell(v)])
err = lambda v: EnumV(1, [Cell(v)])
ready = lambda v: EnumV(0, [Cell(v)])
PENDING = lambda: EnumV(1)


class BufModel(Wrappers):
    def __init__(self, mir_path, max_inner=3, pendings=1, copy_inner=6):
        super().__init__(mir_path)
        self.max_inner = max_inner
        self.pendings = pendings
        self.copy_inner = copy_inner

    # ------------------------------------------------------------------ lookup
    def in_file(self, file_part, meth, sig_pat=None):
        c = [f for k, f in self.fns.items() if k.startswith(file_part) and k.endswith("::" + meth)
             and (sig_pat is None or re.search(sig_pat, f.sig))]
        if len(c) != 1:
            raise Unsupported("cannot locate %s %s (%d candidates)" % (file_part, meth, len(c)))
        return c[0]

    def resolver(self, callee):
        clean = self.strip_turbofish(callee)
        m = re.match(r"^(?:buffer::)?Buffer::(\w+)$", clean)
        if m:
            return self.in_file("buffer::<impl", m.group(1))
        m = re.match(r"^(?:write::buf::)?BufWriter::(\w+)$", clean) or re.match(r"^<(?:write::buf::)?BufWriter<\w+> as [\w:]+>::(\w+)$", clean)
        if m:
            return self.in_file("write::buf::<impl", m.group(1), r"_1: &mut write::buf::BufWriter<")
        m = re.match(r"^(?:read::buf::)?BufReader::(\w+)$", clean) or re.match(r"^<(?:read::buf::)?BufReader<\w+> as [\w:]+>::(\w+)$", clean)
        if m:
            return self.in_file("read::buf::<impl", m.group(1), r"_1: &mut read::buf::BufReader<")
        m = re.match(r"^(?:util::)?internal::(slice_to_buf)$", clean)
        if m:
            return self.in_file("internal::", m.group(1))
        m = re.match(r"^<.* as (?:write::ext::)?AsyncWriteExt>::(\w+)$", clean)
        if m and ("write::ext::AsyncWriteExt::" + m.group(1)) in self.fns:
            return self.fns["write::ext::AsyncWriteExt::" + m.group(1)]
        m = re.match(r"^<.* as (?:read::ext::)?AsyncReadExt>::(\w+)$", clean)
        if m and ("read::ext::AsyncReadExt::" + m.group(1)) in self.fns:
            return self.fns["read::ext::AsyncReadExt::" + m.group(1)]
        m = re.match(r"^<&\[u8\] as (?:read::)?AsyncRead>::(read)$", clean)
        if m:
            return self.in_file("read::<impl", m.group(1), r"_1: &mut &\[u8\]")
        return None

    # ------------------------------------------------------------------ world
    def world(self, p):
        W = type("W", (), {})()
        W.delivered = []      # inner writes that answered Ok: (content at that moment, absolute offset, n, offered length)
        W.offered = []        # every inner write call: (content, absolute offset, offered length)
        W.inner_errors = 0
        W.pending_left = self.pendings
        W.inner_calls = 0
        W.read_chunks = []    # inner reads that answered Ok: (n, room offered, absolute offset, source bytes array)
        W.flushes = 0
        W.shutdowns = 0
        W.zero_answer = False
        W.read_total = bv(0)
        W.read_positions = []
        W.max_inner = self.max_inner
        W.fresh = 0
        me = self

        def fresh(name, sort=None):
            W.fresh += 1
            return z3.Int("%s_%d" % (name, W.fresh)) if sort is None else z3.Const("%s_%d" % (name, W.fresh), sort)
        W.freshv = fresh

        # ---- compio-buf behaviour on the ghost objects
        def s_buf_len(I, a, pth, c):
            return blen(a[0], pth)

        def s_buf_cap(I, a, pth, c):
            return bcap(a[0], pth)

        def s_is_empty(I, a, pth, c):
            return blen(a[0], pth) == bv(0)

        def s_clear(I, a, pth, c):
            bset_len(a[0], bv(0))
            return UNIT

        def s_advance_to(I, a, pth, c):
            cur = blen(a[0], pth)
            if pth.decide(GT(a[1], cur)):
                bset_len(a[0], a[1])
            return UNIT

        def s_slice_from(I, a, pth, c):
            b = a[1].f[0].v
            if not pth.decide(LE(b, blen(a[0], pth))):
                raise MirPanic("assertion failed: begin <= self.buf_len() (IoBufExt::slice)")
            return GSlice(deref(a[0]), b)

        def s_slice_range(I, a, pth, c):
            b, e = a[1].f[0].v, a[1].f[1].v
            if not pth.decide(LE(b, blen(a[0], pth))):
                raise MirPanic("assertion failed: begin <= self.buf_len() (IoBufExt::slice)")
            if not pth.decide(LE(b, e)):
                raise MirPanic("assertion failed: begin <= end (IoBufExt::slice)")
            return GSlice(deref(a[0]), b, e)

        def s_slice_full(I, a, pth, c):
            return GSlice(deref(a[0]), bv(0))

        def s_into_inner(I, a, pth, c):
            return deref(a[0]).inner

        def s_begin(I, a, pth, c):
            return deref(a[0]).begin

        def s_as_inner(I, a, pth, c):
            return Ref(deref(a[0]).cell)

        def s_deref_bytes(I, a, pth, c):
            x = deref(a[0])
            if isinstance(x, GBytes):
                return x
            return GBytes(broot(x).data, boff(x), blen(x, pth))

        def s_as_init(I, a, pth, c):
            x = deref(a[0])
            if isinstance(x, GSrc):
                return GBytes(x.data, bv(0), x.len)
            return s_deref_bytes(I, a, pth, c)

        def s_as_uninit(I, a, pth, c):
            x = deref(a[0])
            return GUninit(broot(x), boff(x), bcap(x, pth))

        def s_slice_to_uninit(I, a, pth, c):
            src, dst = deref(a[0]), deref(a[1])
            k = umin(src.len, dst.len)
            dst.root.data = overlay(dst.root.data, dst.off, k, src.data, src.off)
            return k

        def s_index_from(I, a, pth, c):
            b = deref(a[0])
            start = a[1].f[0].v
            if not pth.decide(LE(start, b.len)):
                raise MirPanic("range start index out of range for slice")
            return GBytes(b.data, b.off + start, b.len - start)

        def s_map_res(I, a, pth, c):
            br = a[0]
            res = br.f[0].v
            if res.variant == 0:
                v = yield from I.call_closure(a[1], [res.fields[0].v], pth)
                res = ok(v)
            return Struct({0: Cell(res), 1: Cell(br.f[1].v)})

        def s_iter_slice(I, a, pth, c):
            return GIter(deref(a[0]).parts)

        def s_iter_next(I, a, pth, c):
            it = deref(a[0])
            return some(it.items.pop(0)) if it.items else EnumV(0)

        def s_map_buffer(I, a, pth, c):
            br, f = a[0], a[1]
            b = br.f[1].v
            if isinstance(f, Closure):
                nb = yield from I.call_closure(f, [b], pth)
            elif isinstance(f, tuple) and "into_inner" in str(f):
                nb = deref(b).inner
            else:
                raise Unsupported("map_buffer with %r" % (f,))
            return Struct({0: Cell(br.f[0].v), 1: Cell(nb)})

        def s_vec_with_capacity(I, a, pth, c):
            W.fresh += 1
            cap = z3.Int("veccap_%d" % W.fresh)
            pth.assume(z3.And(cap >= a[0], cap <= bv(MAXLEN), z3.Implies(a[0] == 0, cap == 0)))
            return GVec("vec%d" % W.fresh, bv(0), cap, z3.Array("vecdata_%d" % W.fresh, ISORT, z3.BitVecSort(8)))

        def s_vec_clear(I, a, pth, c):
            deref(a[0]).len = bv(0)
            return UNIT

        def s_vec_len(I, a, pth, c):
            return deref(a[0]).len

        def s_vec_capacity(I, a, pth, c):
            return deref(a[0]).cap

        def s_vec_reserve(I, a, pth, c):
            v = deref(a[0])
            need = v.len + a[1]
            if pth.decide(v.cap < need):
                W.fresh += 1
                nc = z3.Int("veccap_%d" % W.fresh)
                pth.assume(z3.And(nc >= need, nc <= bv(MAXLEN)))
                v.cap = nc
            return UNIT

        # ---- std plumbing
        def s_opt_take(I, a, pth, c):
            cell = a[0].cell
            old = cell.v
            cell.v = EnumV(0)
            return old

        def s_opt_as_ref(I, a, pth, c):
            ev = a[0].cell.v
            return some(Ref(ev.fields[0])) if ev.variant == 1 else EnumV(0)

        def s_expect(I, a, pth, c):
            ev = a[0]
            if ev.variant == 0 and "Option" in c:
                raise MirPanic("Option::expect on None: the buffer was taken and never returned")
            if ev.variant == 1 and "Result" in c:
                raise MirPanic("Result::expect on Err")
            return ev.fields[0].v

        def s_try_branch(I, a, pth, c):
            r = a[0]
            return EnumV(0, [Cell(r.fields[0].v if r.fields else UNIT)]) if r.variant == 0 else EnumV(1, [Cell(r)])

        def s_from_residual(I, a, pth, c):
            r = a[0]
            return err(r.fields[0].v)

        def s_identity(I, a, pth, c):
            return a[0]

        def s_pin(I, a, pth, c):
            return Struct({0: Cell(a[0])})

        def s_io_error_new(I, a, pth, c):
            k = a[0]
            return IoErr("adapter", k[1].split("::")[-1] if isinstance(k, tuple) and len(k) > 1 else str(k))

        def s_io_error_kind(I, a, pth, c):
            e = deref(a[0])
            if not isinstance(e, IoErr):
                raise Unsupported("kind() of %r" % (e,))
            if e.kind is None:
                e.kind = ("Other", "Interrupted")[pth.choose(2, "inner error kind: other / Interrupted")]
            return ("variant", e.kind)

        def s_kind_eq(I, a, pth, c):
            x, y = deref(a[0]), deref(a[1])
            return z3.BoolVal(str(x[1]).split("::")[-1] == str(y[1]).split("::")[-1])

        def s_unit(I, a, pth, c):
            return UNIT

        # ---- the adversarial inner stream
        def s_inner_write(I, a, pth, c):
            return WFut("write", a[1])

        def s_inner_flush(I, a, pth, c):
            return WFut("flush")

        def s_inner_shutdown(I, a, pth, c):
            return WFut("shutdown")

        def s_inner_read(I, a, pth, c):
            return WFut("read", a[1])

        def s_map(I, a, pth, c):
            return WFut("map", a[0], a[1])

        def poll_wfut(fut, pth):
            if fut.kind == "map":
                r = poll_wfut(fut.arg, pth)
                if r.variant == 1:
                    return r
                v = r.fields[0].v              # BufResult(res, Slice<Slice<Vec>>) --IntoInner--> BufResult(res, Slice<Vec>)
                if not (isinstance(fut.f, tuple) and "into_inner" in str(fut.f)):
                    raise Unsupported("Map with %r" % (fut.f,))
                return ready(Struct({0: Cell(v.f[0].v), 1: Cell(deref(v.f[1].v).inner)}))
            if W.pending_left > 0 and pth.choose(2, "inner %s: ready / pending" % fut.kind) == 1:
                W.pending_left -= 1
                return PENDING()
            W.inner_calls += 1
            if W.inner_calls > W.max_inner:
                raise Infeasible()            # bound on inner calls per operation (stated)
            if fut.kind in ("flush", "shutdown"):
                if fut.kind == "flush":
                    W.flushes += 1
                else:
                    W.shutdowns += 1
                if pth.choose(2, "inner %s: ok / error" % fut.kind) == 1:
                    W.inner_errors += 1
                    return ready(err(IoErr("inner")))
                return ready(ok(UNIT))
            sl = fut.arg
            if fut.kind == "write":
                offered = blen(sl, pth)
                entry = [broot(sl).data, boff(sl), offered, None]
                W.offered.append(entry)
                if pth.choose(2, "inner write: ok / error") == 1:
                    W.inner_errors += 1
                    return ready(Struct({0: Cell(err(IoErr("inner"))), 1: Cell(sl)}))
                n = fresh("n")
                pth.assume(n >= 0)
                pth.assume(LE(n, offered))
                entry[3] = n
                W.delivered.append((broot(sl).data, boff(sl), n, offered))
                return ready(Struct({0: Cell(ok(n)), 1: Cell(sl)}))
            if fut.kind == "read":
                room = bcap(sl, pth)
                if pth.choose(2, "inner read: ok / error") == 1:
                    W.inner_errors += 1
                    return ready(Struct({0: Cell(err(IoErr("inner"))), 1: Cell(sl)}))
                n = fresh("r")
                pth.assume(n >= 0)
                W.read_total = W.read_total + n
                pth.assume(W.read_total <= bv(MAXLEN))      # fewer than 2^63 bytes are read in one operation (stated bound)
                pth.assume(LE(n, room))
                srcb = fresh("srcbytes", z3.ArraySort(ISORT, z3.BitVecSort(8)))
                root, off = broot(sl), boff(sl)
                root.data = overlay(root.data, off, n, srcb, bv(0))
                cur = blen(sl, pth)
                bset_len(sl, z3.If(GT(n, cur), n, cur))
                W.read_chunks.append((n, room, off, srcb))
                W.read_positions.append(fut.f)
                return ready(Struct({0: Cell(ok(n)), 1: Cell(sl)}))
            raise Unsupported("future kind " + fut.kind)

        def s_poll_any(I, a, pth, c):
            fut = a[0].f[0].v.cell.v
            if isinstance(fut, Coroutine):
                fn = me.poll_fn_for2(fut, c)
                return (yield from I.call_fn(fn, [a[0], a[1]], pth))
            if isinstance(fut, WFut):
                return poll_wfut(fut, pth)
            raise Unsupported("poll of %r" % (fut,))

        S = [
            (r"^<.* as IoBufExt>::buf_len$", s_buf_len), (r"^<.* as IoBufMutExt>::buf_capacity$", s_buf_cap),
            (r"^<.* as IoBufExt>::is_empty$", s_is_empty), (r"^<.* as SetLenExt>::clear$", s_clear),
            (r"^<.* as SetLenExt>::advance_to$", s_advance_to),
            (r"^<.* as IoBufExt>::slice::<(?:std::ops::)?RangeFrom<usize>>$", s_slice_from),
            (r"^<.* as IoBufExt>::slice::<(?:std::ops::)?RangeFull>$", s_slice_full),
            (r"^<.* as IoBufExt>::slice::<(?:std::ops::)?Range<usize>>$", s_slice_range),
            (r"^<(?:compio_buf::)?Slice<.*> as IntoInner>::into_inner$", s_into_inner),
            (r"^(?:compio_buf::)?Slice::<.*>::begin$", s_begin), (r"^(?:compio_buf::)?Slice::<.*>::as_inner(?:_mut)?$", s_as_inner),
            (r"^<(?:compio_buf::)?Slice<.*> as Deref>::deref$", s_deref_bytes),
            (r"^<.* as IoBuf>::as_init$", s_as_init), (r"^<.* as IoBufMut>::as_uninit$", s_as_uninit),
            (r"(?:^|::)slice_to_uninit$", s_slice_to_uninit),
            (r"^<\[u8\] as Index<(?:std::ops::)?RangeFrom<usize>>>::index$", s_index_from),
            (r"^BufResult::<.*>::map_res::<", s_map_res), (r"^BufResult::<.*>::map_buffer::<", s_map_buffer),
            (r"^<BufResult<.*, (?:compio_buf::)?Slice<.*>> as IntoInner>::into_inner$",
             lambda I, a, pth, c: Struct({0: Cell(a[0].f[0].v), 1: Cell(deref(a[0].f[1].v).inner)})),
            (r"^<T as IoVectoredBuf>::iter_slice$", s_iter_slice),
            (r"^<impl Iterator<Item = &\[u8\]> as IntoIterator>::into_iter$", s_identity),
            (r"^<impl Iterator<Item = &\[u8\]> as Iterator>::next$", s_iter_next),
            (r"^Vec::<u8>::with_capacity$", s_vec_with_capacity), (r"^Vec::<u8>::clear$", s_vec_clear),
            (r"^Vec::<u8>::len$", s_vec_len), (r"^Vec::<u8>::capacity$", s_vec_capacity), (r"^Vec::<u8>::reserve$", s_vec_reserve),
            (r"^<(?:W|R|S|Self|impl AsyncReadAt) as (?:read::)?AsyncReadAt>::read_at::<", lambda I, a, pth, c: WFut("read", a[1], a[2])),
            (r"^<BufResult<.*> as Into<\(Result<.*>\)>>::into$", s_identity),
            (r"^Option::<.*>::take$", s_opt_take), (r"^Option::<.*>::as_(?:ref|mut)$", s_opt_as_ref),
            (r"^(?:Option|Result)::<.*>::expect$", s_expect),
            (r" as Try>::branch$", s_try_branch), (r" as FromResidual<.*>>::from_residual$", s_from_residual),
            (r" as (?:std::future::)?IntoFuture>::into_future$", s_identity),
            (r"^Pin::<.*>::new(?:_unchecked)?$", s_pin),
            (r"^std::io::Error::new::<", s_io_error_new), (r"^std::io::Error::kind$", s_io_error_kind),
            (r"^<(?:std::io::)?ErrorKind as PartialEq>::eq$", s_kind_eq),
            (r"^<(?:W|R|S|Io|Self|impl AsyncWrite|impl AsyncRead) as (?:write::)?AsyncWrite>::write::<", s_inner_write),
            (r"^<(?:W|R|S|Io|Self|impl AsyncWrite) as (?:write::)?AsyncWrite>::flush$", s_inner_flush),
            (r"^<(?:W|R|S|Io|Self|impl AsyncWrite) as (?:write::)?AsyncWrite>::shutdown$", s_inner_shutdown),
            (r"^<(?:W|R|S|Self|impl AsyncRead) as (?:read::)?AsyncRead>::read::<", s_inner_read),
            (r" as (?:futures_util::)?FutureExt>::map::<", s_map),
            (r"^<.* as .*Future>::poll$", s_poll_any),
        ]
        W.poll_wfut = poll_wfut
        I = Interp(self.fns, self.consts, self.extra_summaries(W) + S, resolver=self.resolver)
        I.int_mode = True
        I.int_types = ("usize", "u64")
        I.drop_hook = lambda *a: None
        return W, I

    def extra_summaries(self, W):
        return []

    def poll_fn_for2(self, co, callee):
        try:
            return self.poll_fn_for(co, callee)
        except (Unsupported, AttributeError):
            pass
        # locate by the coroutine's source span: the constructor fn builds `{coroutine@span}` and names the body type it returns
        span = getattr(co, "span", None)
        if not hasattr(self, "_by_span"):
            self._by_span = {}
            for k, f in self.fns.items():
                if k.endswith("{closure#0}") or "-> {async fn body of" not in f.sig:
                    continue
                for stmts in f.blocks.values():
                    for st_ in stmts:
                        m = re.search(r"\{coroutine@([^}]*)\}", st_)
                        if m:
                            self._by_span[re.sub(r" \(#\d+\)$", "", m.group(1))] = f
        if span in self._by_span:
            return self.poll_fn_of_ctor(self._by_span[span])
        blk = [f for k, f in self.fns.items() if ("_1: Pin<&mut {async block@%s}>" % span) in f.sig]
        if len(blk) == 1:
            return blk[0]
        raise Unsupported("cannot locate the poll function for %s (span %s)" % (callee, span))

    # ------------------------------------------------------------------ states
    def state(self, p, W, tag=""):
        ln, cap, begin = z3.Int("len0" + tag), z3.Int("cap0" + tag), z3.Int("begin0" + tag)
        p.assume(begin >= 0)
        data = z3.Array("data0" + tag, ISORT, z3.BitVecSort(8))
        p.assume(LE(begin, ln))
        p.assume(LE(ln, cap))
        p.assume(LE(cap, bv(MAXLEN)))
        vec = GVec("vec" + tag, ln, cap, data)
        buf = Struct({0: Cell(some(GSlice(vec, begin)))})
        st = type("S", (), {})()
        st.len, st.cap, st.begin, st.data, st.vec, st.buf = ln, cap, begin, data, vec, buf
        return st

    def buf_view(self, buf):
        """(present, slice, vec) of a Buffer value"""
        ev = buf.f[0].v
        if ev.variant != 1:
            return False, None, None
        sl = ev.fields[0].v
        return True, sl, broot(sl)

    def drive(self, I, co_fn, args, p, W, polls=None):
        """build the coroutine with its constructor fn and poll it to completion"""
        co = I.run_to_end(I.call_fn(co_fn, args, p))
        if not isinstance(co, Coroutine):
            raise Unsupported("constructor did not return a coroutine: %r" % (co,))
        pf = self.poll_fn_of_ctor(co_fn)
        cx = Ref(Cell(("ctx",)))
        pend = 0
        for _ in range((polls if polls is not None else self.pendings) + 1):
            r = I.run_to_end(I.call_fn(pf, [Struct({0: Cell(Ref(Cell(co)))}), cx], p))
            if r.variant == 0:
                self.encoded |= I.called
                return r.fields[0].v, pend
            pend += 1
        raise Unsupported("coroutine still pending after the inner stream ran out of Pending answers")

    def poll_fn_of_ctor(self, ctor):
        m = re.search(r"-> (\{async fn body of .+\}) \{$", ctor.sig)
        if not m:
            raise Unsupported("not an async fn constructor: " + ctor.sig)
        want = m.group(1)
        c = [f for k, f in self.fns.items() if k.endswith("::{closure#0}") and ("_1: Pin<&mut " + want + ">") in f.sig]
        if len(c) != 1:
            raise Unsupported("cannot locate the body of %s (%d)" % (want, len(c)))
        return c[0]

    # ------------------------------------------------------------------ stream obligations
    @staticmethod
    def stream_eq(label, actual_parts, expected_parts):
        """parts: list of (array, offset, length).  The concatenations are equal (length and every byte)."""
        j = z3.Int("j!")

        def total(parts):
            t = bv(0)
            for _, _, n in parts:
                t = t + n
            return t

        def at(parts):
            e = z3.BitVecVal(0, 8)
            # build from the last part backwards
            starts = []
            t = bv(0)
            for (arr, off, n) in parts:
                starts.append(t)
                t = t + n
            for (arr, off, n), s in reversed(list(zip(parts, starts))):
                e = z3.If(z3.And(LE(s, j), LT(j - s, n)), sel(arr, off + (j - s)), e)
            return e
        ta, te = total(actual_parts), total(expected_parts)
        return [(label + " (length)", ta == te),
                (label + " (every byte, in order)", z3.Implies(z3.And(ta == te, LT(j, ta)), at(actual_parts) == at(expected_parts)))]

    def offered_obligations(self, W, st, appended=None):
        """every inner write is offered exactly the not-yet-delivered bytes, starting at the first of them"""
        obs = []
        for k, (data, off, offered) in enumerate(W.offered):
            obs.append(("inner write %d is offered at least one byte" % k, GT(offered, bv(0))))
        return obs

    # ------------------------------------------------------------------ Buffer checks
    def check_flush_to(self, p):
        W, I = self.world(p)
        st = self.state(p, W)
        r, pend = self.drive(I, self.in_file("buffer::<impl", "flush_to"), [Ref(Cell(st.buf)), Ref(Cell(("writer",)))], p, W)
        present, sl, vec = self.buf_view(st.buf)
        obs = [("after flush_to the buffer is back in place (not left taken)", z3.BoolVal(present))]
        if not present:
            return obs
        pending0 = st.len - st.begin
        delivered = [(d, off, n) for (d, off, n, _) in W.delivered]
        # offers: the i-th inner write starts exactly at the first unsent byte and never reaches past the data
        acc = bv(0)
        for k, (d, off, offered, n) in enumerate(W.offered):
            obs.append(("inner write %d starts at the first unsent byte" % k, off == st.begin + acc))
            obs.append(("inner write %d offers only buffered bytes, at least one" % k,
                        z3.And(GT(offered, bv(0)), LE(offered, pending0 - acc))))
            if n is not None:
                acc = acc + n
        cur_pending = blen(sl, p)
        if r.variant == 0:
            total = r.fields[0].v
            obs += self.stream_eq("Ok: the inner writer received exactly the pending bytes", delivered, [(st.data, st.begin, pending0)])
            obs.append(("Ok(total): total is the number of bytes flushed", total == pending0))
            obs.append(("Ok: nothing is left pending; after a real flush the buffer is reset (len 0, progress 0, same capacity)",
                        z3.And(cur_pending == bv(0), vec.cap == st.cap,
                               z3.Implies(pending0 > 0, z3.And(vec.len == bv(0), sl.begin == bv(0))))))
            obs.append(("Ok is never reported after an inner error or a zero-length write", z3.BoolVal(W.inner_errors == 0)))
            for k, (d, off, n, offered) in enumerate(W.delivered):
                obs.append(("Ok: inner write %d made progress (a zero answer must end in WriteZero)" % k, GT(n, bv(0))))
        else:
            e = r.fields[0].v
            obs += self.stream_eq("Err: delivered ++ still-pending is exactly what was pending (the unsent tail is kept, nothing resent)",
                                  delivered + [(vec.data, boff(sl), cur_pending)], [(st.data, st.begin, pending0)])
            if W.inner_errors:
                obs.append(("the inner writer's error is the one reported", z3.BoolVal(is_inner_error(e))))
            else:
                obs.append(("an error without an inner error is WriteZero after a zero-length answer",
                            z3.And(z3.BoolVal("WriteZero" in str(e)),
                                   z3.Or([n == bv(0) for (_d, _o, n, _f) in W.delivered] or [z3.BoolVal(False)]))))
        if not W.offered:
            obs.append(("no inner write happens only when nothing is pending", pending0 == bv(0)))
        return obs

    def check_advance(self, p):
        W, I = self.world(p)
        st = self.state(p, W)
        amount = z3.Int("amount")
        p.assume(amount >= 0)
        p.assume(LE(amount, st.len - st.begin))        # documented use: at most what buffer() showed
        r = I.run_to_end(I.call_fn(self.in_file("buffer::<impl", "advance"), [Ref(Cell(st.buf)), amount], p))
        self.encoded |= I.called
        present, sl, vec = self.buf_view(st.buf)
        if not present:
            return [("advance leaves the buffer in place", z3.BoolVal(False))]
        return [("advance moves the progress cursor by exactly `amount`", sl.begin == st.begin + amount),
                ("advance keeps length, capacity and content", z3.And(vec.len == st.len, vec.cap == st.cap, z3.BoolVal(vec.data is st.data))),
                ("advance returns true iff nothing is left", r == (st.begin + amount == st.len))]

    def check_reset(self, p):
        W, I = self.world(p)
        st = self.state(p, W)
        I.run_to_end(I.call_fn(self.in_file("buffer::<impl", "reset"), [Ref(Cell(st.buf))], p))
        self.encoded |= I.called
        present, sl, vec = self.buf_view(st.buf)
        if not present:
            return [("reset leaves the buffer in place", z3.BoolVal(False))]
        return [("reset: len 0, progress 0, capacity kept", z3.And(vec.len == bv(0), sl.begin == bv(0), vec.cap == st.cap))]

    # ------------------------------------------------------------------ BufWriter
    @staticmethod
    def bw_inv(begin, ln):
        """BufWriter keeps `progress < len` or an empty, reset buffer (a fully flushed buffer is reset at once)"""
        return z3.Or(begin < ln, z3.And(begin == 0, ln == 0))

    def writer_obj(self, st):
        # struct BufWriter { writer: W, buf: Buffer }: field order from the MIR of with_capacity
        return Struct({0: Cell(("writer",)), 1: Cell(st.buf)})

    def check_bw_write(self, p):
        W, I = self.world(p)
        st = self.state(p, W)
        p.assume(self.bw_inv(st.begin, st.len))
        slen = z3.Int("srclen")
        p.assume(slen >= 0)
        sdata = z3.Array("srcdata", ISORT, z3.BitVecSort(8))
        p.assume(LE(slen, bv(MAXLEN)))
        src = GSrc(sdata, slen)
        bw = self.writer_obj(st)
        ctor = self.in_file("write::buf::<impl", "write", r"_1: &mut write::buf::BufWriter<")
        r, pend = self.drive(I, ctor, [Ref(Cell(bw)), src], p, W)
        res, back = r.f[0].v, r.f[1].v
        present, sl, vec = self.buf_view(st.buf)
        obs = [("the caller's buffer comes back", z3.BoolVal(back is src)),
               ("the internal buffer is back in place", z3.BoolVal(present))]
        if not present:
            return obs
        pending0 = st.len - st.begin
        delivered = [(d, off, n) for (d, off, n, _) in W.delivered]
        cur = [(vec.data, boff(sl), blen(sl, p))]
        obs.append(("the internal buffer stays well formed (progress <= len <= cap; fully flushed => reset)",
                    z3.And(LE(sl.begin, vec.len), LE(vec.len, vec.cap), self.bw_inv(sl.begin, vec.len))))
        for k, (d, off, offered, _n) in enumerate(W.offered):
            obs.append(("inner write %d is offered at least one byte" % k, GT(offered, bv(0))))
        if res.variant == 0:
            written = res.fields[0].v
            obs.append(("Ok(n): n <= the caller's length", LE(written, slen)))
            obs += self.stream_eq("Ok(n): delivered ++ pending = previously pending ++ the first n caller bytes", delivered + cur,
                                  [(st.data, st.begin, pending0), (sdata, bv(0), written)])
            obs.append(("Ok(0) only for an empty caller buffer (a buffered writer that can make room accepts at least one byte)",
                        z3.Implies(z3.And(st.cap > 0, written == bv(0)), slen == bv(0))))
            obs.append(("[zero capacity] Ok(0) only for an empty caller buffer",
                        z3.Implies(z3.And(st.cap == 0, written == bv(0)), slen == bv(0))))
        else:
            obs += self.stream_eq("Err: none of the caller's bytes were taken (delivered ++ pending = previously pending), so a "
                                  "retry cannot duplicate them", delivered + cur, [(st.data, st.begin, pending0)])
            obs.append(("Err only after the inner writer failed or answered zero",
                        z3.Or([z3.BoolVal(W.inner_errors > 0)] + [n == bv(0) for (_d, _o, n, _f) in W.delivered])))
        return obs

    def check_bw_write_vectored(self, p, members=2):
        W, I = self.world(p)
        st = self.state(p, W)
        p.assume(self.bw_inv(st.begin, st.len))
        parts = []
        for i in range(members):
            ln = z3.Int("srclen%d" % i)
            p.assume(z3.And(ln >= 0, ln <= bv(MAXLEN)))
            parts.append(GBytes(z3.Array("srcdata%d" % i, ISORT, z3.BitVecSort(8)), bv(0), ln))
        total_src = bv(0)
        for g in parts:
            total_src = total_src + g.len
        p.assume(total_src <= bv(MAXLEN))
        src = GVecSrc(parts)
        bw = self.writer_obj(st)
        ctor = self.in_file("write::buf::<impl", "write_vectored", r"_1: &mut write::buf::BufWriter<")
        r, pend = self.drive(I, ctor, [Ref(Cell(bw)), src], p, W)
        res, back = r.f[0].v, r.f[1].v
        present, sl, vec = self.buf_view(st.buf)
        obs = [("the caller's buffer comes back", z3.BoolVal(back is src)),
               ("the internal buffer is back in place", z3.BoolVal(present))]
        if not present:
            return obs
        pending0 = st.len - st.begin
        delivered = [(d, off, n) for (d, off, n, _) in W.delivered]
        cur = [(vec.data, boff(sl), blen(sl, p))]
        obs.append(("the internal buffer stays well formed (progress <= len <= cap; fully flushed => reset)",
                    z3.And(LE(sl.begin, vec.len), LE(vec.len, vec.cap), self.bw_inv(sl.begin, vec.len))))
        for k, (d, off, offered, _n) in enumerate(W.offered):
            obs.append(("inner write %d is offered at least one byte" % k, GT(offered, bv(0))))
        if res.variant == 0:
            written = res.fields[0].v
            obs.append(("Ok(n): n <= the caller's total length", LE(written, total_src)))
            exp, left = [(st.data, st.begin, pending0)], written
            for g in parts:
                take = umin(left, g.len)
                exp.append((g.data, bv(0), take))
                left = left - take
            obs += self.stream_eq("Ok(n): delivered ++ pending = previously pending ++ the first n bytes of the members in order",
                                  delivered + cur, exp)
            obs.append(("Ok(0) only for empty members (a buffered writer that can make room accepts at least one byte)",
                        z3.Implies(z3.And(st.cap > 0, written == bv(0)), total_src == bv(0))))
            obs.append(("[zero capacity] Ok(0) only for empty members",
                        z3.Implies(z3.And(st.cap == 0, written == bv(0)), total_src == bv(0))))
        else:
            obs += self.stream_eq("Err: none of the caller's bytes were taken (delivered ++ pending = previously pending), so a "
                                  "retry cannot duplicate them", delivered + cur, [(st.data, st.begin, pending0)])
            obs.append(("Err only after the inner writer failed or answered zero",
                        z3.Or([z3.BoolVal(W.inner_errors > 0)] + [n == bv(0) for (_d, _o, n, _f) in W.delivered])))
        return obs

    def check_bw_flush(self, p):
        W, I = self.world(p)
        st = self.state(p, W)
        p.assume(self.bw_inv(st.begin, st.len))
        bw = self.writer_obj(st)
        ctor = self.in_file("write::buf::<impl", "flush", r"_1: &mut write::buf::BufWriter<")
        r, pend = self.drive(I, ctor, [Ref(Cell(bw))], p, W)
        present, sl, vec = self.buf_view(st.buf)
        obs = [("the internal buffer is back in place", z3.BoolVal(present))]
        if not present:
            return obs
        pending0 = st.len - st.begin
        delivered = [(d, off, n) for (d, off, n, _) in W.delivered]
        cur = [(vec.data, boff(sl), blen(sl, p))]
        obs += self.stream_eq("flush: delivered ++ pending = previously pending", delivered + cur, [(st.data, st.begin, pending0)])
        obs.append(("the internal buffer stays well formed (progress <= len <= cap; fully flushed => reset)",
                    z3.And(LE(sl.begin, vec.len), LE(vec.len, vec.cap), self.bw_inv(sl.begin, vec.len))))
        if r.variant == 0:
            obs.append(("flush Ok: nothing is left pending", cur[0][2] == bv(0)))
            obs.append(("flush Ok is not reported after an inner error", z3.BoolVal(W.inner_errors == 0)))
        return obs

    def check_bw_shutdown(self, p):
        W, I = self.world(p)
        st = self.state(p, W)
        p.assume(self.bw_inv(st.begin, st.len))
        bw = self.writer_obj(st)
        ctor = self.in_file("write::buf::<impl", "shutdown", r"_1: &mut write::buf::BufWriter<")
        r, pend = self.drive(I, ctor, [Ref(Cell(bw))], p, W)
        present, sl, vec = self.buf_view(st.buf)
        obs = [("the internal buffer is back in place", z3.BoolVal(present))]
        if not present:
            return obs
        left = blen(sl, p)
        obs.append(("the inner writer is shut down at most once, and only with nothing left pending",
                    z3.And(z3.BoolVal(W.shutdowns <= 1), z3.Implies(z3.BoolVal(W.shutdowns == 1), left == bv(0)))))
        if r.variant == 0:
            obs.append(("shutdown Ok: the inner writer was shut down after everything was delivered",
                        z3.And(z3.BoolVal(W.shutdowns == 1 and W.inner_errors == 0), left == bv(0))))
        return obs

    # ------------------------------------------------------------------ BufReader
    def reader_obj(self, st):
        return Struct({0: Cell(("reader",)), 1: Cell(st.buf)})

    def check_br_fill_buf(self, p):
        W, I = self.world(p)
        st = self.state(p, W)
        br = self.reader_obj(st)
        ctor = self.in_file("read::buf::<impl", "fill_buf", r"_1: &mut read::buf::BufReader<")
        r, pend = self.drive(I, ctor, [Ref(Cell(br))], p, W)
        present, sl, vec = self.buf_view(st.buf)
        obs = [("the internal buffer is back in place", z3.BoolVal(present))]
        if not present:
            return obs
        pending0 = st.len - st.begin
        chunks = [(srcb, bv(0), n) for (n, room, off, srcb) in W.read_chunks]
        cur = [(vec.data, boff(sl), blen(sl, p))]
        obs += self.stream_eq("unread bytes = previously unread ++ newly read", cur, [(st.data, st.begin, pending0)] + chunks)
        obs.append(("the source is asked only when nothing is unread", z3.Implies(z3.BoolVal(len(W.read_chunks) + W.inner_errors > 0), pending0 == bv(0))))
        for k, (n, room, off, srcb) in enumerate(W.read_chunks):
            obs.append(("inner read %d is given room (a zero-length request would turn into a false end-of-file)" % k,
                        z3.Implies(st.cap > 0, GT(room, bv(0)))))
            obs.append(("[zero capacity] inner read %d is given room (a zero-length request turns into a false end-of-file)" % k,
                        z3.Implies(st.cap == 0, GT(room, bv(0)))))
        if r.variant == 0:
            view = r.fields[0].v
            obs.append(("fill_buf returns exactly the unread bytes", z3.And(view.len == cur[0][2], view.off == cur[0][1], z3.BoolVal(view.data is vec.data))))
            obs.append(("Ok is not reported after an inner error", z3.BoolVal(W.inner_errors == 0)))
        return obs

    def check_br_consume(self, p):
        W, I = self.world(p)
        st = self.state(p, W)
        br = self.reader_obj(st)
        amount = z3.Int("amount")
        p.assume(amount >= 0)
        p.assume(LE(amount, st.len - st.begin))
        I.run_to_end(I.call_fn(self.in_file("read::buf::<impl", "consume", r"_1: &mut read::buf::BufReader<"), [Ref(Cell(br)), amount], p))
        self.encoded |= I.called
        present, sl, vec = self.buf_view(st.buf)
        if not present:
            return [("consume leaves the buffer in place", z3.BoolVal(False))]
        return self.stream_eq("consume(k) drops exactly the first k unread bytes", [(vec.data, boff(sl), blen(sl, p))],
                              [(st.data, st.begin + amount, st.len - st.begin - amount)])

    def check_br_read(self, p):
        W, I = self.world(p)
        st = self.state(p, W)
        br = self.reader_obj(st)
        dl, dc = z3.Int("dstlen"), z3.Int("dstcap")
        dd = z3.Array("dstdata", ISORT, z3.BitVecSort(8))
        p.assume(z3.And(dl >= 0, dl <= dc, dc <= bv(MAXLEN)))
        dest = GVec("dest", dl, dc, dd)
        ctor = self.in_file("read::buf::<impl", "read", r"_1: &mut read::buf::BufReader<")
        r, pend = self.drive(I, ctor, [Ref(Cell(br)), dest], p, W)
        res, back = r.f[0].v, r.f[1].v
        present, sl, vec = self.buf_view(st.buf)
        obs = [("the caller's buffer comes back", z3.BoolVal(back is dest)),
               ("the internal buffer is back in place", z3.BoolVal(present))]
        if not present:
            return obs
        pending0 = st.len - st.begin
        chunks = [(srcb, bv(0), n) for (n, room, off, srcb) in W.read_chunks]
        cur = [(vec.data, boff(sl), blen(sl, p))]
        j = z3.Int("jd!")
        if res.variant == 0:
            k = res.fields[0].v
            avail = pending0
            for (_a, _o, n) in chunks:
                avail = avail + n
            obs.append(("Ok(k): k = min(unread bytes, the caller's capacity)", k == umin(avail, dc)))
            obs += self.stream_eq("Ok(k): the k bytes handed out ++ still unread = previously unread ++ newly read (nothing lost, "
                                  "duplicated or reordered)", [(dest.data, bv(0), k)] + cur, [(st.data, st.begin, pending0)] + chunks)
            obs.append(("the caller's buffer: length covers the k bytes, capacity unchanged",
                        z3.And(dest.len == z3.If(k > dl, k, dl), dest.cap == dc)))
            obs.append(("the caller's bytes beyond the k transferred ones are preserved",
                        z3.Implies(z3.And(j >= k, j < dc), sel(dest.data, j) == sel(dd, j))))
            for i, (n, room, off, srcb) in enumerate(W.read_chunks):
                obs.append(("inner read %d is given room (a zero-length request would turn into a false end-of-file)" % i,
                            z3.Implies(st.cap > 0, GT(room, bv(0)))))
                obs.append(("[zero capacity] inner read %d is given room (a zero-length request turns into a false end-of-file)" % i,
                            z3.Implies(st.cap == 0, GT(room, bv(0)))))
        else:
            obs += self.stream_eq("Err: nothing was consumed", cur, [(st.data, st.begin, pending0)] + chunks)
            obs.append(("Err: the caller's buffer is untouched", z3.And(dest.len == dl, dest.cap == dc, z3.BoolVal(dest.data is dd))))
            obs.append(("Err only after the inner reader failed", z3.BoolVal(W.inner_errors > 0)))
        return obs

    def check_copy(self, p):
        """util::copy::copy_with_size: reader -> Vec<u8> of `buf_size` -> write_all, until end of file, then flush + shutdown"""
        W, I = self.world(p)
        W.pending_left = 0
        W.max_inner = self.copy_inner
        size = z3.Int("buf_size")
        p.assume(z3.And(size >= 0, size <= bv(MAXLEN)))
        c = [f for k, f in self.fns.items() if re.search(r"(?:^|::)copy_with_size$", k)]
        if len(c) != 1:
            raise Unsupported("cannot locate copy_with_size (%d)" % len(c))
        r, pend = self.drive(I, c[0], [Ref(Cell(("reader",))), Ref(Cell(("writer",))), size], p, W, polls=0)
        delivered = [(d, off, n) for (d, off, n, _) in W.delivered]
        chunks = [(srcb, bv(0), n) for (n, room, off, srcb) in W.read_chunks]
        dtotal, ctotal = bv(0), bv(0)
        for (_a, _o, n) in delivered:
            dtotal = dtotal + n
        for (_a, _o, n) in chunks:
            ctotal = ctotal + n
        obs = []
        for k, (n, room, off, srcb) in enumerate(W.read_chunks):
            obs.append(("read %d is given room (a zero-length request would turn into a false end-of-file)" % k,
                        z3.Implies(size > 0, room > 0)))
            obs.append(("[zero capacity] read %d is given room" % k, z3.Implies(size == 0, room > 0)))
        for k, (d, off, offered, n) in enumerate(W.offered):
            obs.append(("inner write %d is offered at least one byte" % k, offered > 0))
        if r.variant == 0:
            total = r.fields[0].v
            obs += self.stream_eq("Ok(total): the writer received exactly the bytes the reader delivered, in order", delivered, chunks)
            obs.append(("Ok(total): total = the number of bytes read", total == ctotal))
            obs.append(("Ok: the reader reported end of file last, and the writer was flushed and shut down once each, afterwards",
                        z3.And(z3.BoolVal(W.flushes == 1 and W.shutdowns == 1 and len(W.read_chunks) >= 1),
                               W.read_chunks[-1][0] == 0 if W.read_chunks else z3.BoolVal(False))))
        else:
            e = r.fields[0].v
            # what was delivered is a prefix of what was read
            exp, left = [], dtotal
            for (a_, o_, n) in chunks:
                take = umin(left, n)
                exp.append((a_, o_, take))
                left = left - take
            obs.append(("Err: nothing is delivered that was not read", dtotal <= ctotal))
            obs += self.stream_eq("Err: what the writer received is a prefix of what the reader delivered", delivered, exp)
            obs.append(("Err comes from the reader or the writer (or WriteZero after a zero-length write)",
                        z3.BoolVal(isinstance(e, IoErr) and (e.origin == "inner" or "WriteZero" in str(e)))))
            obs.append(("an Interrupted read or write is retried, never reported",
                        z3.BoolVal(not (isinstance(e, IoErr) and e.kind == "Interrupted"))))
        return obs

    def _read_to_end(self, p, at):
        W, I = self.world(p)
        W.pending_left = 0
        W.max_inner = self.copy_inner
        dl, dc = z3.Int("dstlen"), z3.Int("dstcap")
        dd = z3.Array("dstdata", ISORT, z3.BitVecSort(8))
        p.assume(z3.And(dl >= 0, dl <= dc, dc <= bv(MAXLEN)))
        dest = GVec("dest", dl, dc, dd)
        name = "read_to_end_at" if at else "read_to_end"
        key = ("read::ext::AsyncReadAtExt::" if at else "read::ext::AsyncReadExt::") + name
        if key not in self.fns:
            raise Unsupported("cannot locate " + key)
        args = [Ref(Cell(("reader",))), dest]
        pos = None
        if at:
            pos = z3.Int("pos")
            p.assume(z3.And(pos >= 0, pos <= bv(MAXLEN)))
            args.append(pos)
        r, pend = self.drive(I, self.fns[key], args, p, W, polls=0)
        res, back = r.f[0].v, r.f[1].v
        chunks = [(srcb, bv(0), n) for (n, room, off, srcb) in W.read_chunks]
        ctotal = bv(0)
        for (_a, _o, n) in chunks:
            ctotal = ctotal + n
        obs = [("the caller's vector comes back", z3.BoolVal(back is dest))]
        obs += self.stream_eq("the vector holds its previous content followed by everything the reader delivered, in order "
                              "(pre-existing content is preserved, new bytes are appended)",
                              [(dest.data, bv(0), dest.len)], [(dd, bv(0), dl)] + chunks)
        for k, (n, room, off, srcb) in enumerate(W.read_chunks):
            obs.append(("read %d is given room" % k, room > 0))
        if at:
            acc = bv(0)
            for k, (n, room, off, srcb) in enumerate(W.read_chunks):
                obs.append(("positional read %d starts where the previous one ended" % k, W.read_positions[k] == pos + acc))
                acc = acc + n
        if res.variant == 0:
            obs.append(("Ok(n): n = the number of bytes read; the reader reported end of file last",
                        z3.And(res.fields[0].v == ctotal, W.read_chunks[-1][0] == 0 if W.read_chunks else z3.BoolVal(False))))
        else:
            e = res.fields[0].v
            obs.append(("Err is the reader's error, and an Interrupted read is retried, never reported",
                        z3.BoolVal(is_inner_error(e) and e.kind != "Interrupted")))
        return obs

    def check_read_to_end(self, p):
        return self._read_to_end(p, False)

    def check_read_to_end_at(self, p):
        return self._read_to_end(p, True)

    CHECKS = ["read_to_end", "read_to_end_at", "copy", "br_read", "flush_to", "advance", "reset", "bw_write", "bw_write_vectored", "bw_flush", "bw_shutdown", "br_fill_buf", "br_consume"]
