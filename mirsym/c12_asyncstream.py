"""C12 — the poll-style adapter (compio-io/src/compat/async_stream.rs) and its waker array (waker_array.rs), from MIR.

Interpreted: AsyncReadStream::{poll_read, poll_read_uninit, poll_fill_buf, poll_read_impl and its closure},
AsyncWriteStream::{poll_write, poll_flush, poll_close, poll_flush_impl, poll_close_impl and their closures}, replace_waker and
its closure, the pin-project-lite `project` functions, WakerArrayRef::{new, with}.

The blocking-style half underneath is abstract (its own behaviour is decided by mirsym/c12_syncbuf.py): `Read::read`,
`read_buf_uninit`, `BufRead::fill_buf` answer Ok when data / end of file is buffered and WouldBlock otherwise; `Write::write`
answers Ok (and leaves unsent bytes buffered) or WouldBlock; a completed `fill_read_buf` makes the next read succeed, a
completed `flush_write_buf` empties the write buffer and makes the next write succeed.  The boxed in-flight futures
(`fill_read_buf()`, `flush_write_buf()`, `shutdown()`) are adversarial: each poll answers Pending, Ready(Ok) or Ready(Err).
Task wakers are tokens with an identity; the waker the in-flight future is polled with is the real WakerArrayRef built by the
code, and "covers task t" means the array it points to holds t's waker at the time of the poll (which is what
WakerArrayRef::clone copies when the future keeps the waker).

One call of one entry point from an arbitrary state: every combination of occupied waker slots, an in-flight future or none,
buffered data or not, closed or not.  Obligations:
  wake    a call that returns Pending has, during this call, polled the future that is left in flight with a waker covering the
          calling task and every task registered earlier through another entry point of that half;
  single  at most one boxed future per direction: a new one is built only when none is stored or in use;
  order   shutdown() of the inner stream is never started while unsent bytes are buffered or a flush is in flight;
          poll_close answers Ok only after the shutdown future completed; poll_flush answers Ok only after a flush future
          completed in this call.
"""
import re

import z3

from interp import Interp, Struct, EnumV, Ref, Cell, UNIT, Unsupported, Infeasible, MirPanic, Closure
import c11_buffer as cb
from c11_buffer import BufModel, IoErr, deref, some, ok, err

SUMMARY_TEXT = [
    "blocking-style half = abstract: read / read_buf_uninit / fill_buf answer Ok iff data or end of file is buffered, else "
    "WouldBlock; write answers Ok (bytes stay buffered) or WouldBlock; has_pending_write = the buffered-unsent flag; a completed "
    "fill makes the next read succeed, a completed flush empties the write buffer and makes the next write succeed "
    "(these facts are obligations of mirsym/c12_syncbuf.py)",
    "boxed futures (fill_read_buf / flush_write_buf / shutdown) = tokens; <dyn Future>::poll answers Pending, Ready(Ok) or "
    "Ready(Err) (solver-free finite choice) and records the waker array it was polled with",
    "Waker = token with identity (clone keeps it, will_wake compares it); Waker::new(data, VTABLE) = a waker that refers to the "
    "WakerArrayRef at `data`; Context::from_waker / Context::waker by definition",
    "Pin::{new_unchecked, get_mut, get_unchecked_mut, as_mut, get_ref, deref}, Box::pin, the unsizing cast, extend_lifetime(_mut), "
    "Option::{take, replace, as_ref, is_some}, Result::{map, inspect}, `?` / ready! plumbing by definition",
]


class TW:
    def __init__(self, ident):
        self.id = ident

    def __repr__(self):
        return "TaskWaker(%s)" % self.id


class ArrWaker:
    """the waker WakerArrayRef::with builds: refers to the array, does not own it"""

    def __init__(self, arr):
        self.arr = arr            # the WakerArrayRef value (Struct {0: [Option<&Waker>; 3]})

    def ids(self):
        out = []
        a = self.arr.f[0].v
        for i in sorted(a.f):
            ev = a.f[i].v
            if isinstance(ev, EnumV) and ev.variant == 1:
                w = deref(ev.fields[0].v)
                out.append(w.id)
        return out


class Fut:
    def __init__(self, kind, old=False):
        self.kind, self.old = kind, old

    def __repr__(self):
        return "Future(%s%s)" % (self.kind, ", in flight before the call" if self.old else "")


class AsyncModel(BufModel):
    def __init__(self, mir_path, max_polls=2):
        super().__init__(mir_path)
        self.max_polls = max_polls

    def resolver(self, callee):
        clean = self.strip_turbofish(callee)
        m = re.match(r"^(?:async_stream::)?(AsyncReadStream|AsyncWriteStream)::(\w+)$", clean)
        if m:
            f = self.amethod(m.group(1), m.group(2))
            if f is not None:
                return f
        m = re.match(r"^async_stream::_::<impl (AsyncReadStream|AsyncWriteStream)<S>>::project$", callee)
        if m:
            c = [f for k, f in self.fns.items() if re.search(r"::project(?:#\d+)?$", k) and ("_1: Pin<&mut %s<S>>" % m.group(1)) in f.sig]
            if len(c) == 1:
                return c[0]
        m = re.match(r"^(?:waker_array::)?WakerArrayRef::(new|with)$", clean)
        if m:
            c = [f for k, f in self.fns.items() if k.startswith("waker_array::<impl") and k.endswith("::" + m.group(1))]
            if len(c) == 1:
                return c[0]
        if clean in ("replace_waker", "async_stream::replace_waker"):
            return self.fns.get("replace_waker") or self.fns.get("async_stream::replace_waker")
        return super().resolver(callee)

    def amethod(self, ty, meth):
        c = [f for k, f in self.fns.items() if k.startswith("async_stream::<impl") and k.endswith("::" + meth)
             and re.search(r"\(_1: Pin<&mut %s<S>>" % ty, f.sig)]
        return c[0] if len(c) == 1 else None

    # ------------------------------------------------------------------ summaries
    def extra_summaries(self, W):
        me = self

        def pin(v):
            return Struct({0: Cell(v)})

        def s_pin_new(I, a, p, c):
            return pin(a[0])

        def s_pin_inner(I, a, p, c):
            v = a[0]
            while isinstance(v, Ref) and not isinstance(v.cell.v, Struct):
                v = v.cell.v
            if isinstance(v, Ref):
                v = v.cell.v
            return v.f[0].v

        def s_pin_as_mut(I, a, p, c):
            # Pin<&mut T>::as_mut(&mut self) -> Pin<&mut T>; Pin<Box<T>>::as_mut(&mut self) -> Pin<&mut T>
            pv = a[0].cell.v
            if isinstance(pv, Struct) and 0 in pv.f and isinstance(pv.f[0].v, Ref):
                return pin(pv.f[0].v)
            return pin(Ref(a[0].cell))

        def s_identity(I, a, p, c):
            return a[0]

        def s_ctx_waker(I, a, p, c):
            cx = deref(a[0])
            return cx.f[0].v

        def s_ctx_from_waker(I, a, p, c):
            return Struct({0: Cell(a[0])})

        def s_waker_clone(I, a, p, c):
            return deref(a[0])

        def s_will_wake(I, a, p, c):
            x, y = deref(a[0]), deref(a[1])
            return z3.BoolVal(isinstance(x, TW) and isinstance(y, TW) and x.id == y.id)

        def s_waker_new(I, a, p, c):
            return ArrWaker(deref(a[0]))

        def s_opt_replace(I, a, p, c):
            cell = a[0].cell
            old = cell.v
            cell.v = some(a[1])
            return old

        def s_box_pin(I, a, p, c):
            return a[0]

        def mk_future(kind):
            def f(I, a, p, c):
                old = W.stored[kind]
                if old is not None and not any(f is old and k != 0 for (f, _i, k) in W.poll_log):
                    W.double.append(kind)          # a second future while the first has not completed
                fut = Fut(kind)
                W.created.append(kind)
                if kind == "shutdown":
                    W.shutdown_started_with = (W.pending_write, W.flush_in_flight())
                return fut
            return f

        def s_dyn_poll(I, a, p, c):
            fut = deref(a[0])
            if isinstance(fut, Struct):
                fut = deref(fut.f[0].v)
            if not isinstance(fut, Fut):
                raise Unsupported("poll of %r" % (fut,))
            cx = deref(a[1])
            w = deref(cx.f[0].v)
            ids = w.ids() if isinstance(w, ArrWaker) else [w.id]
            W.polls += 1
            if W.polls > me.max_polls:
                raise Infeasible()
            k = p.choose(3, "future %s: pending / ok / error" % fut.kind)
            W.poll_log.append((fut, ids, k))
            if k == 0:
                return EnumV(1)
            if k == 2:
                return EnumV(0, [Cell(err(IoErr("inner", "Other")))])
            if fut.kind == "fill":
                W.can_read = True
                return EnumV(0, [Cell(ok(("n-read",)))])
            if fut.kind == "flush":
                W.pending_write = False
                W.can_write = True
                W.flush_completed = True
                return EnumV(0, [Cell(ok(("n-flushed",)))])
            W.shutdown_completed = True
            return EnumV(0, [Cell(ok(UNIT))])

        def sync_read(I, a, p, c):
            W.sync_calls += 1
            if W.sync_calls > 4:
                raise Infeasible()
            if W.can_read:
                return ok(("bytes",))
            return err(IoErr("sync", "WouldBlock"))

        def sync_write(I, a, p, c):
            W.sync_calls += 1
            if W.sync_calls > 4:
                raise Infeasible()
            if W.can_write:
                W.pending_write = True
                return ok(("n-written",))
            return err(IoErr("sync", "WouldBlock"))

        def s_has_pending(I, a, p, c):
            return z3.BoolVal(W.pending_write)

        def s_result_map(I, a, p, c):
            r = a[0]
            if r.variant == 0:
                v = yield from I.call_closure(a[1], [r.fields[0].v], p)
                return ok(v)
            return r

        def s_result_inspect(I, a, p, c):
            r = a[0]
            if r.variant == 0:
                yield from I.call_closure(a[1], [Ref(r.fields[0])], p)
            return r

        def s_poll_from_residual(I, a, p, c):
            return EnumV(0, [Cell(err(a[0].fields[0].v))])

        def s_get_mut_half(I, a, p, c):
            return a[0]

        return [
            (r"^Pin::<.*>::new_unchecked$", s_pin_new),
            (r"^Pin::<&(?:mut )?.*>::(?:get_mut|get_unchecked_mut|get_ref)$", s_pin_inner),
            (r"^<Pin<&mut .*> as Deref>::deref$", s_pin_inner),
            (r"^Pin::<.*>::as_mut$", s_pin_as_mut),
            (r"^extend_lifetime(?:_mut)?::<", s_identity),
            (r"^Context::<'_>::waker$", s_ctx_waker), (r"^Context::<'_>::from_waker$", s_ctx_from_waker),
            (r"^<Waker as Clone>::clone$", s_waker_clone), (r"^Waker::will_wake$", s_will_wake), (r"^Waker::new$", s_waker_new),
            (r"^Option::<.*>::replace$", s_opt_replace),
            (r"^Box::<.*>::pin$", s_box_pin),
            (r"SyncStreamReadHalf::<S>::fill_read_buf$", mk_future("fill")),
            (r"SyncStreamWriteHalf::<S>::flush_write_buf$", mk_future("flush")),
            (r"^<S as (?:write::)?AsyncWrite>::shutdown$", mk_future("shutdown")),
            (r"SyncStreamWriteHalf::<S>::get_mut$", s_get_mut_half),
            (r"^<dyn (?:futures_util::)?Future<.*> as (?:futures_util::)?Future>::poll$", s_dyn_poll),
            (r"SyncStreamReadHalf<S> as (?:std::io::)?Read>::read$", sync_read),
            (r"SyncStreamReadHalf::<S>::read_buf_uninit$", sync_read),
            (r"SyncStreamReadHalf<S> as (?:std::io::)?BufRead>::fill_buf$", sync_read),
            (r"SyncStreamWriteHalf<S> as (?:std::io::)?Write>::write$", sync_write),
            (r"SyncStreamWriteHalf::<S>::has_pending_write$", s_has_pending),
            (r"^Result::<.*>::map::<", s_result_map), (r"^Result::<.*>::inspect::<", s_result_inspect),
            (r"^<Poll<.*> as FromResidual<.*>>::from_residual$", s_poll_from_residual),
        ]

    # ------------------------------------------------------------------ states
    def mk_world(self, p, side):
        W, I = self.world(p)
        W.polls, W.poll_log, W.created, W.double, W.sync_calls = 0, [], [], [], 0
        W.can_read = p.choose(2, "data or EOF buffered?") == 1 if side == "r" else False
        W.can_write = p.choose(2, "write buffer accepts?") == 1 if side == "w" else False
        W.pending_write = p.choose(2, "unsent bytes buffered?") == 1 if side == "w" else False
        W.flush_completed = W.shutdown_completed = False
        W.shutdown_started_with = None
        W.stored = {"fill": None, "flush": None, "shutdown": None}
        return W, I

    def slots(self, p, names):
        out = {}
        for i, n in enumerate(names):
            out[n] = Cell(some(TW(i + 1)) if p.choose(2, "slot %s occupied?" % n) == 1 else EnumV(0))
        return out

    def caller(self, p, slot_cell):
        """the calling task's waker: a new task, or the task already registered in this entry point's slot"""
        if slot_cell.v.variant == 1 and p.choose(2, "caller = the task already in its slot?") == 1:
            return TW(slot_cell.v.fields[0].v.id)
        return TW(9)

    @staticmethod
    def slot_ids(cells):
        return [c.v.fields[0].v.id for c in cells if c.v.variant == 1]

    @staticmethod
    def fut_of(cell):
        v = deref(cell.v.fields[0].v)
        while isinstance(v, Struct):
            v = deref(v.f[0].v)
        return v

    def cover_obligations(self, W, r, fut_cells, others0, me_id):
        obs = []
        obs.append(("at most one boxed future per direction (a new one only when none is in flight)", z3.BoolVal(not W.double)))
        for kind, old in W.stored.items():
            if old is not None:
                done = any(f is old and k != 0 for (f, _i, k) in W.poll_log)
                kept = any(c.v.variant == 1 and self.fut_of(c) is old for c in fut_cells)
                obs.append(("the %s future that was in flight is still in flight or ran to completion (never dropped: it holds the "
                            "lent buffer)" % kind, z3.BoolVal(done or kept)))
        if isinstance(r, EnumV) and r.variant == 1:        # Pending
            stored = [self.fut_of(c) for c in fut_cells if c.v.variant == 1]
            pend = [(f, ids) for (f, ids, k) in W.poll_log if k == 0]
            obs.append(("Pending: a future is left in flight", z3.BoolVal(len(stored) >= 1)))
            if pend:
                last_f, last_ids = pend[-1]
                obs.append(("Pending: the future polled last in this call is the one left in flight",
                            z3.BoolVal(any(s is last_f for s in stored))))
                obs.append(("Pending: that poll used a waker covering the calling task", z3.BoolVal(me_id in last_ids)))
                obs.append(("Pending: that poll's waker also covers every task that was registered through another entry point of this "
                            "half before the call (a different entry point must not evict it)",
                            z3.BoolVal(all(i in last_ids for i in others0))))
            else:
                obs.append(("Pending is returned only after polling the in-flight future in this call (otherwise the new waker "
                            "reaches nobody)", z3.BoolVal(False)))
        return obs

    # ------------------------------------------------------------------ read side
    def read_obj(self, p, W):
        sl = self.slots(p, ["read", "read_uninit", "read_buf"])
        fut = Cell(EnumV(0))
        if p.choose(2, "fill future in flight?") == 1:
            f = Fut("fill", old=True)
            fut.v = some(f)
            W.stored["fill"] = f
        obj = Struct({0: Cell(("sync-read-half",)), 1: fut, 2: sl["read"], 3: sl["read_uninit"], 4: sl["read_buf"], 5: Cell(("pinned",))})
        return obj, sl, fut

    def _read_entry(self, p, meth, slot, extra_args):
        W, I = self.mk_world(p, "r")
        obj, sl, fut = self.read_obj(p, W)
        me = self.caller(p, sl[slot])
        others0 = self.slot_ids([c for n, c in sl.items() if n != slot])
        cx = Struct({0: Cell(Ref(Cell(me)))})
        f = self.amethod("AsyncReadStream", meth)
        if f is None:
            raise Unsupported("cannot locate AsyncReadStream::" + meth)
        r = I.run_to_end(I.call_fn(f, [Struct({0: Cell(Ref(Cell(obj)))}), Ref(Cell(cx))] + extra_args, p))
        self.encoded |= I.called
        obs = self.cover_obligations(W, r, [fut], others0, me.id)
        if r.variant == 0:
            res = r.fields[0].v
            if res.variant == 0:
                obs.append(("Ready(Ok) hands out what the blocking-style half returned", z3.BoolVal(W.can_read)))
            else:
                obs.append(("Ready(Err) only passes on the in-flight future's error",
                            z3.BoolVal(cb.is_inner_error(res.fields[0].v))))
        return obs

    def check_poll_read(self, p):
        buf = Ref(Cell(("caller-buffer",)))
        return self._read_entry(p, "poll_read", "read", [buf])

    def check_poll_read_uninit(self, p):
        buf = Ref(Cell(("caller-buffer",)))
        return self._read_entry(p, "poll_read_uninit", "read_uninit", [buf])

    def check_poll_fill_buf(self, p):
        return self._read_entry(p, "poll_fill_buf", "read_buf", [])

    # ------------------------------------------------------------------ write side
    def write_obj(self, p, W):
        sl = self.slots(p, ["write", "flush", "close"])
        wf, sf = Cell(EnumV(0)), Cell(EnumV(0))
        k = p.choose(3, "in flight: nothing / flush / shutdown")
        if k == 1:
            f = Fut("flush", old=True)
            wf.v = some(f)
            W.stored["flush"] = f
        elif k == 2:
            f = Fut("shutdown", old=True)
            sf.v = some(f)
            W.stored["shutdown"] = f
            W.pending_write = False            # invariant: shutdown is only started with nothing buffered (obligation `order`)
        closed = False
        if k == 0 and not W.pending_write:
            closed = p.choose(2, "already closed?") == 1
        obj = Struct({0: Cell(("sync-write-half",)), 1: wf, 2: sf, 3: sl["write"], 4: sl["flush"], 5: sl["close"],
                      6: Cell(z3.BoolVal(closed)), 7: Cell(("pinned",))})
        W.flush_in_flight = lambda: wf.v.variant == 1
        return obj, sl, wf, sf, closed

    def _write_entry(self, p, meth, slot, extra_args):
        W, I = self.mk_world(p, "w")
        obj, sl, wf, sf, closed0 = self.write_obj(p, W)
        me = self.caller(p, sl[slot])
        others0 = self.slot_ids([c for n, c in sl.items() if n != slot])
        cx = Struct({0: Cell(Ref(Cell(me)))})
        f = self.amethod("AsyncWriteStream", meth)
        if f is None:
            raise Unsupported("cannot locate AsyncWriteStream::" + meth)
        pending0 = W.pending_write
        r = I.run_to_end(I.call_fn(f, [Struct({0: Cell(Ref(Cell(obj)))}), Ref(Cell(cx))] + extra_args, p))
        self.encoded |= I.called
        obs = self.cover_obligations(W, r, [wf, sf], others0, me.id)
        if W.shutdown_started_with is not None:
            pend, flushing = W.shutdown_started_with
            obs.append(("shutdown() of the inner stream is started only with nothing buffered unsent and no flush in flight",
                        z3.BoolVal(not pend and not flushing)))
        obs.append(("a flush and a shutdown future are never in flight together", z3.BoolVal(not (wf.v.variant == 1 and sf.v.variant == 1))))
        closed1 = z3.is_true(z3.simplify(obj.f[6].v))
        obs.append(("`closed` is set only by a completed shutdown", z3.BoolVal((not closed1) or closed0 or W.shutdown_completed)))
        if r.variant == 0:
            res = r.fields[0].v
            if meth == "poll_flush" and res.variant == 0:
                obs.append(("poll_flush answers Ok only after a flush future completed in this call and nothing is left unsent",
                            z3.BoolVal(W.flush_completed and not W.pending_write)))
            if meth == "poll_close" and res.variant == 0:
                obs.append(("poll_close answers Ok only when the stream is closed and nothing is left unsent",
                            z3.BoolVal(closed1 and not W.pending_write)))
            if meth == "poll_write" and res.variant == 0:
                obs.append(("poll_write answers Ok only with what the blocking-style half accepted", z3.BoolVal(W.pending_write)))
            if res.variant == 1:
                obs.append(("Ready(Err) only passes on an in-flight future's error", z3.BoolVal(cb.is_inner_error(res.fields[0].v))))
        return obs

    def check_poll_write(self, p):
        return self._write_entry(p, "poll_write", "write", [("caller-bytes",)])

    def check_poll_flush(self, p):
        return self._write_entry(p, "poll_flush", "flush", [])

    def check_poll_close(self, p):
        return self._write_entry(p, "poll_close", "close", [])

    CHECKS = ["poll_read", "poll_read_uninit", "poll_fill_buf", "poll_write", "poll_flush", "poll_close"]
