#!/bin/bash
# Offline setup: nothing to download. Warm the Kani build caches so the first check is not slower
# than the rest; failure here is not fatal for the checks (they rebuild what they need).
set -u
cd "$(dirname "$0")"
mkdir -p evidence replays /root/.cache/verif-scratch
export CARGO_NET_OFFLINE=true
for c in kani/*/; do
  [ -f "$c/Cargo.toml" ] || continue
  cp -f /repo/Cargo.lock "$c/Cargo.lock" 2>/dev/null || true
done
exit 0
