#!/usr/bin/env python3
"""Collect confirmed seeded changes from the sub-agents' scratch worktrees into /verif/seeded/<id>/.
Run once per batch while the worktrees exist; RESULTS is maintained by hand from tools/eval_seed.sh runs."""
import json, os, shutil, sys

SRC = {  # id -> (worktree, n)
    "C10-1": ("/tmp/wt-C10", 1), "C10-2": ("/tmp/wt-C10", 2),
    "C11-1": ("/tmp/wt-C11", 1), "C11-2": ("/tmp/wt-C11", 2),
    "C13-1": ("/tmp/wt-C13", 1), "C13-2": ("/tmp/wt-C13", 2),
    "C06-1": ("/tmp/wt-C06", 1), "C06-2": ("/tmp/wt-C06", 2),
    "C01-1": ("/tmp/wt-C05", 1), "C02-1": ("/tmp/wt-C05", 2), "C05-1": ("/tmp/wt-C05", 3),
    "C09-1": ("/tmp/wt-C09", 1), "C09-2": ("/tmp/wt-C09", 2), "C09-3": ("/tmp/wt-C09", 3),
    "C03-1": ("/tmp/wt-C03", 1), "C03-2": ("/tmp/wt-C03", 2), "C03-3": ("/tmp/wt-C03", 3),
    # second round (after C04 / C07 / C08 / C14 / C17 were built)
    "C04-1": ("/tmp/wt2-C04", 1), "C04-2": ("/tmp/wt2-C04", 2), "C07-1": ("/tmp/wt2-C07", 1), "C07-2": ("/tmp/wt2-C07", 2),
    "C08-1": ("/tmp/wt2-C08", 1), "C08-2": ("/tmp/wt2-C08", 2), "C14-1": ("/tmp/wt2-C14", 1), "C14-2": ("/tmp/wt2-C14", 2),
    "C17-1": ("/tmp/wt2-C17", 1), "C17-2": ("/tmp/wt2-C17", 2),
    # third round (told which first-round mechanisms to avoid)
    "C09-4": ("/tmp/wt3-C09", 1), "C09-5": ("/tmp/wt3-C09", 2), "C06-3": ("/tmp/wt3-C06", 1), "C06-4": ("/tmp/wt3-C06", 2),
    "C02-2": ("/tmp/wt3-C02", 1), "C02-3": ("/tmp/wt3-C02", 2), "C03-4": ("/tmp/wt3-C03", 1), "C03-5": ("/tmp/wt3-C03", 2),
    # fourth round (after the buffered-type layer of C11 and the two C12 layers were built)
    "C12-1": ("/tmp/wt4-C12", 1), "C12-2": ("/tmp/wt4-C12", 2), "C12-3": ("/tmp/wt4-C12", 3),
    "C12-4": ("/tmp/wt4-C12", 4), "C12-5": ("/tmp/wt4-C12", 5),
    # fifth round (after the Framed state-machine layer of C13 was built)
    "C13-3": ("/tmp/wt5-C13", 1), "C13-4": ("/tmp/wt5-C13", 2), "C13-5": ("/tmp/wt5-C13", 3),
    # sixth round (process-group clause of C19)
    "C19-1": ("/tmp/wt6-C19", 1), "C19-2": ("/tmp/wt6-C19", 2),
    # seventh round (copy / read_to_end checks of C11)
    "C11-6": ("/tmp/wt7-C11", 1), "C11-7": ("/tmp/wt7-C11", 2),
    # eighth round (native-tls shim / handshake wrapper of C15)
    "C15-1": ("/tmp/wt8-C15", 1), "C15-2": ("/tmp/wt8-C15", 2),
    # ninth round (connection close of C16, worker loop of C18)
    "C16-1": ("/tmp/wt9", 1), "C18-1": ("/tmp/wt9", 2),
    "C11-3": ("/tmp/wt4-C11", 1), "C11-4": ("/tmp/wt4-C11", 2), "C11-5": ("/tmp/wt4-C11", 3),
}
RESULTS = json.load(open(os.path.join(os.path.dirname(__file__), "seed_results.json")))

for sid, (wt, n) in SRC.items():
    src = os.path.join(wt, "SEEDED", str(n))
    dst = os.path.join("/verif/seeded", sid)
    if os.path.isdir(src):
        os.makedirs(dst, exist_ok=True)
        for f in os.listdir(src):
            if f.endswith(".log") or f == "target":
                continue
            s, d = os.path.join(src, f), os.path.join(dst, f)
            if os.path.isdir(s):
                shutil.rmtree(d, ignore_errors=True)
                shutil.copytree(s, d, ignore=shutil.ignore_patterns("target", "*.log", "Cargo.lock"))
            elif f != "meta.json":
                shutil.copy(s, d)
        agent = json.load(open(os.path.join(src, "meta.json")))
        json.dump(agent, open(os.path.join(dst, "agent_meta.json"), "w"), indent=1)
    if not os.path.isdir(dst):
        continue
    agent = json.load(open(os.path.join(dst, "agent_meta.json")))
    r = RESULTS.get(sid, {})
    meta = {
        "id": sid,
        "property": agent.get("property") or sid.split("-")[0],
        "summary": agent.get("title") or agent.get("what_it_breaks"),
        "what_it_breaks": agent.get("what_it_breaks"),
        "needs_to_manifest": agent.get("needs_to_manifest"),
        "files_changed": agent.get("files_changed"),
        "produced_by": "fresh sub-agent given only the property text and a scratch worktree of /repo",
        "demo_location_note": "the demo's path dependencies assume it sits at <worktree>/SEEDED/<n>/demo (or, for *_test.rs, "
                              "is copied into the named crate's tests/ directory)",
        "confirmed_by_me": r.get("confirmed"),
        "checks_run": r.get("checks_run"),
        "verdict": r.get("verdict"),
        "detail": r.get("detail"),
    }
    json.dump(meta, open(os.path.join(dst, "meta.json"), "w"), indent=1)
    print(sid, meta["property"], meta["verdict"])
