#!/usr/bin/env python3
"""Regenerates /verif/MANIFEST.json from the table below (single source of truth)."""
import json, os

HERE = os.path.dirname(os.path.dirname(os.path.abspath(__file__)))

BASELINE_OFF = ("cd /repo && cargo nextest run --workspace --no-fail-fast --tool-config-file "
                "pb:/w/lib/nextest.toml --profile pb --test-threads 8 --offline || "
                "cargo test --workspace --no-fail-fast --offline")

CHECKS = {
 "C10": dict(
    engine="kani",
    technique="bounded model checking of the compiled compio-buf code (Kani 0.68 / CBMC 6.11 / cadical): "
              "kani::any() roots, ranges, fill sizes and contents; assertions = the view contract; unwinding assertions on",
    category="proof",
    text="Proof within bounds: for every root kind in {[u8;8], Vec<u8> cap 8, ArrayVec<u8,8>; thorough: Box<[u8;8]>, "
         "SmallVec<[u8;8]>}, every symbolic length/content, every slice(range) in every RangeBounds form, uninit(), "
         "slice-of-slice (+flatten), uninit-of-slice, slice-of-uninit, set_begin/set_end, and every fill size (<= 2 fills), "
         "CBMC proves the contract assertions (init is a prefix of uninit, both inside the root allocation, exact geometry, "
         "written bytes visible at their positions, everything else untouched, len = max(old, off+k)) plus absence of "
         "panics/overflow/out-of-bounds in the code reached. Vectored: slice(begin), slice_mut(begin)+scatter fill, "
         "owned_iter over [ArrayVec;2], tuples and Vec<Vec<u8>>.",
    design_ref="DESIGN.md §1 C10",
    note="Trusted: Kani's MIR->goto translation, CBMC, cadical. Bounds: capacity 8 (2x4 vectored), <=2 fills, nesting <=2. "
         "Outside: BytesMut, memmap2, BorrowedBuf, bumpalo, allocator_api, BufferRef. Known finding F8 (Uninit after a fill) "
         "is reported as KNOWN-FINDING by two dedicated harnesses."),
 "C11": dict(
    engine="kani + mirsym (Buffer / BufWriter / BufReader layer)",
    technique="bounded model checking of the compiled compio-io helpers (Kani/CBMC): differential against a reference "
              "written in the harness; chunk sizes, Interrupted/hard faults, positions and payloads are solver-chosen; plus "
              "symbolic execution of the MIR of buffer.rs, write/buf.rs and read/buf.rs (async fns as coroutine state machines) over "
              "a ghost Vec<u8> with symbolic length, capacity and content against an adversarial inner stream, one inductive step "
              "per operation; z3 decides the byte-stream obligations (integers encoded as mod-2^64 mathematical integers)",
    category="proof",
    text="Proof within bounds: read_exact[_at], write_all[_at], append, take, scalar readers/writers, the default "
         "read_vectored/write_vectored, one inductive step of the read_vectored_exact and write_vectored_all loops, and the "
         "in-memory readers/writers/cursors (&[u8], [u8;N], &mut [u8], Cursor<_>, Vec<u8>) transfer exactly the bytes the "
         "reference does for every chunking of a <=6-byte payload, every placement of <=1-2 Interrupted and <=1 hard error, "
         "every position (any u64 where stated) and capacity 4; failures surface as UnexpectedEof/WriteZero/the injected kind; "
         "no panic/overflow/out-of-bounds is reachable. Buffered types (bounded model checking over the real MIR, any length / "
         "capacity / content, <=3/4 inner calls and <=1/2 Pending answers per operation): Buffer::flush_to offers the inner writer "
         "exactly the unsent bytes in order, Ok only when all were delivered (then reset), a failure keeps exactly the unsent tail; "
         "BufWriter::{write, write_vectored, flush, shutdown} and BufReader::{fill_buf, read, consume} keep "
         "delivered ++ buffered = previously buffered ++ bytes reported accepted (resp. handed out ++ unread = previously unread ++ "
         "newly read), byte for byte; an Err result leaves the caller's bytes unaccepted; the caller's buffer is returned and "
         "untouched beyond the transferred bytes. copy_with_size (<=6/7 inner calls) delivers to the writer exactly the bytes "
         "the reader produced, in order, retries Interrupted, and on an error has delivered a prefix; read_to_end / "
         "read_to_end_at leave in the caller's vector its previous content followed by everything read, for every pre-existing "
         "length / capacity / content.",
    design_ref="DESIGN.md §1 C11",
    note="Trusted: Kani, CBMC, cadical, z3, the MIR interpreter (mirsym) and its summaries of compio-buf's Slice / IoBuf methods. "
         "Layer 1 model streams never return Pending. Outside (measured CBMC out-of-memory): the complete read_vectored_exact / "
         "write_vectored_all loops (their bodies are checked as inductive steps), copy beyond 1 byte, split halves, "
         "read_to_string's UTF-8 step; layer 2: BufReader::read_vectored, cancellation of a pending operation. Six genuine defects "
         "found here were repaired (known_findings.json: fixed); the zero-capacity behaviour of BufWriter / BufReader / copy (F23) "
         "is a recorded known finding."),
 "C12": dict(
    engine="mirsym",
    technique="symbolic execution of the MIR of compat/sync_stream.rs (SyncReadBuf / SyncWriteBuf, async fns as coroutine state "
              "machines, closures and async blocks bound by span) and of buffer.rs underneath, over a ghost Vec<u8> with symbolic "
              "length, capacity and content against an adversarial inner stream, one inductive step per operation from every "
              "well-formed state; and of compat/async_stream.rs + waker_array.rs (poll entry points, pin projections, waker array) "
              "over an abstract blocking-style half and adversarial in-flight futures, one call from every state; z3 decides the "
              "byte-stream, limit and would-block obligations",
    category="model_checking",
    text="Bounded model checking over the real MIR. Blocking-style adapter: from every well-formed buffer state (any progress <= "
         "len <= cap, any content, any eof flag, any base_capacity / max_buffer_size) and for every answer pattern of the inner "
         "stream (<=3/4 inner calls, <=1/2 Pending per operation: short, zero, error, pending), each of read / read_buf_uninit / "
         "fill_buf / consume / fill_read_buf / into_parts and write / flush_write_buf / has_pending_write keeps the FIFO stream "
         "equation byte for byte (nothing lost, duplicated or reordered across compaction, growth and partial flushes), a failed "
         "flush leaves exactly the unsent tail for the retry, WouldBlock is returned exactly when the documented servicing call can "
         "make progress, end of file is recorded exactly when the stream reports it, the buffered bytes stay within "
         "max_buffer_size and the limit is reported (WouldBlock / OutOfMemory) rather than turned into data loss; no panic or "
         "arithmetic overflow is reachable; sequences of calls follow by induction over the stated invariant. Poll-style adapter: "
         "for one call of each of poll_read / poll_read_uninit / poll_fill_buf / poll_write / poll_flush / poll_close from every "
         "state (waker-slot occupancy, in-flight future, buffered / unsent / closed flags, caller identity) and every answer of "
         "the in-flight futures (<=2/3 polls per call): a Pending return has polled the future left in flight with a waker "
         "covering the caller and every other registered task of that half; at most one boxed future per direction, none dropped "
         "in flight; shutdown starts only with nothing unsent and no flush in flight; poll_flush / poll_close answer Ok only "
         "after their future completed.",
    design_ref="DESIGN.md §1 C12",
    note="The two layers meet at a stated interface (what the blocking-style half answers), not in one execution. Not covered: what "
         "happens after a call returned (the wake itself through Arc<WakerArray>: read, not executed), a task that is woken and "
         "never polls again, cancellation of a pending fill/flush, allocation failure, the read_buf feature. The ghost vector and "
         "the Vec / compio-buf methods on it are summaries (coverage.summaries). One genuine defect repaired (read limit exceeded, "
         "/repo 43f3125); the degenerate configurations base_capacity = 0 and max_buffer_size = 0 (F25a/b) are recorded known "
         "findings."),
 "C13": dict(
    engine="kani + mirsym (Framed read state machine)",
    technique="bounded model checking of the compiled framers and ancillary codecs (Kani/CBMC): enclose->concatenate->cut at a "
              "solver-chosen prefix->extract; arbitrary peer bytes as hostile input; push/iterate round trip of control messages; "
              "plus symbolic execution of the MIR of <Framed as Stream>::poll_next (framed/read.rs) and buffer.rs over a ghost "
              "Vec<u8> with an abstract framer / codec and an adversarial inner reader, one call from every state; z3 decides the "
              "byte-stream and state obligations",
    category="proof",
    text="Proof within bounds: LengthDelimited (one harness per width 1,2,4,8 quick; 3,5,6,7 thorough; either endianness), "
         "CharDelimited<'\\n'>, AnyDelimited(\\r\\n) and NoopFramer: two frames of <=3 symbolic payload bytes are reported "
         "exactly from the prefix containing their last byte, in order, nothing merged/split/dropped; for <=10 arbitrary bytes "
         "extract never panics, a reported frame lies inside the buffer and consuming it makes progress. Ancillary: <=3 messages "
         "round-trip through AncillaryBuf/AncillaryBuilder/AncillaryIter, BufferTooSmall exactly when space is insufficient, "
         "every slice handed to decode() lies inside the control buffer. Framed read state machine (bounded model checking over "
         "the real MIR, any buffer state / eof flag, <=3/4 framer calls and <=2/3 reads per call): poll_next never panics, keeps "
         "its reader and buffer on every return (also after a framer or read error), shows the codec exactly the payload bytes of "
         "the frame the framer reported, consumes exactly that frame, refills without touching unread bytes and ends the stream "
         "only on an end-of-file read that follows an earlier one. Sink side (poll_ready, start_send, poll_flush from a not-yet-configured or "
         "idle sink with arbitrary leftover buffer content): the encoder starts from an empty buffer, the framer encloses exactly "
         "the encoder's output, the writer receives exactly the enclosed frame once and in order (a prefix on error), and the sink "
         "ends idle, owning its writer and buffer.",
    design_ref="DESIGN.md §1 C13",
    note="Trusted: Kani, CBMC, cadical, libc's Rust CMSG_* functions as compiled; z3 and the MIR interpreter with its summaries for "
         "layer 2 (the framer there is abstract: layer 1 is what ties the concrete framers to that contract). Buffers in layer 1 are "
         "ArrayVec<u8,24> (Vec roots make CBMC explore reallocation). Outside: the Sink's flush / close semantics, BytesCodec, "
         "serde_json codec, Windows CMSG. Three genuine defects repaired (known_findings.json: fixed)."),
 "C06": dict(
    engine="kani (+ shim-loom for the cross-thread half) + mirsym (close wrappers)",
    technique="bounded model checking of the compiled SharedFd code (Kani/CBMC); cross-thread half compiled with --cfg loom against "
              "a sequential loom stand-in whose atomics/Arc/waker slot are preemption points: the solver chooses the interleaving",
    category="proof",
    text="Proof within bounds for SharedFd (the mechanism every file/socket/pipe handle and every in-flight operation shares): "
         "unsync build: for 1..=2 other handles, re-clones, every placement of closer polls, plain drop or second close(), the "
         "descriptor is dropped exactly once and only after every handle is gone, close() resolves at the first poll after the "
         "last release and never before, and the closer's waker fires at the last release; try_unwrap succeeds iff unique. "
         "sync build: under one solver-chosen preemption (second dropper or woken closer inside a handle drop) the descriptor is "
         "never closed early or twice; the no-lost-wake-up clause FAILS there and is reported as known finding F9 (two schedules). "
         "Close wrappers (MIR of File::close / Socket::close with uninterpreted functions): close awaits take() of its own descriptor "
         "exactly once, uses no uniqueness shortcut, and closes exactly the descriptor take() handed over with one close operation.",
    design_ref="DESIGN.md §1 C06",
    note="Trusted: Kani, CBMC, cadical; /verif/shim/loom (sequentially consistent Arc/atomics/AtomicWaker model) for the sync half. "
         "Outside: descriptor-producing operations (accept/open/socket) under cancellation — they need real descriptors and a live "
         "driver; > 1 preemption; weak memory. One genuine defect repaired (second close() lost wake-up)."),
 "C01": dict(
    engine="kani + mirsym",
    technique="bounded model checking of the compiled key/cancel/pop layer of compio-driver (Kani/CBMC) with the harness acting as a "
              "contract-abiding adversarial driver through the __verif hook; CBMC's use-after-free/double-free checks plus drop counters; "
              "second layer: symbolic execution of the MIR of the io_uring driver's poll_entries / Drop against every contract-abiding "
              "completion queue within the bound, with ghost reference counting (mirsym, z3)",
    category="proof",
    text="Proof within bounds, above the driver: for an operation accepted for submission, its buffer is not dropped while either the "
         "kernel's reference (returned only by the final completion) or the submitter's key exists — for cancel-before-completion, "
         "completion-before-cancel, runtime (Proactor) drop before/after the key, in every order — and is dropped exactly once afterwards. "
         "In the polling configuration (keys via __verif::detached_key): the final completion reaches the operation's own "
         "OpCode::set_result exactly once, with the driver's result, while the operation is alive, also when the submitter abandoned "
         "it first, and what the completion handed to the operation is released with it. io_uring driver layer (MIR, adversarial "
         "completion queue: any number of F_MORE completions then at most one final one per operation, 2 operations, <= 3/4 entries): "
         "poll_entries returns an operation's kernel reference iff its final completion was queued; Driver::drop returns every "
         "reference exactly once, after closing the ring; the thread-pool fallback (push_blocking, its job, poll_blocking) "
         "re-offers a job the pool hands back until it is accepted once, reports exactly one completion per operation with the "
         "call's result or its panic, and notifies each completion once.",
    design_ref="DESIGN.md §1 C01/C02/C05",
    note="Conditional on the drivers honouring 'one leaked reference per accepted submission, returned by exactly one final completion': "
         "iour/mod.rs, poll/mod.rs (FFI, HashMap, flume, kernel), zero-copy notification ordering, multishot, thread-pool FrozenKey and the "
         "Submit futures are outside. Stub: resume_unwind_io = identity."),
 "C02": dict(
    engine="kani + mirsym",
    technique="bounded model checking of Proactor::pop/update_waker/Entry::notify/key.rs (Kani/CBMC), harness = driver via __verif hook, "
              "solver-chosen completion order and results",
    category="proof",
    text="Proof within bounds, above the driver: pop is Pending until the driver's completion and then Ready exactly once with exactly the "
         "driver's result (Ok(n) or OS error) and the submitted, tagged buffer; with two pending operations completed and popped in any "
         "order nothing is swapped, duplicated or lost; the last registered waker of the right operation is woken exactly once; a cancel "
         "token fired after completion never overwrites the OS's result. Polling driver interest queues (MIR, <= 2 readers and "
         "<= 2 writers queued, symbolic readiness): a descriptor is armed for exactly the directions somebody waits for, an event "
         "completes the oldest waiter of a ready direction and nothing else.",
    design_ref="DESIGN.md §1 C01/C02/C05",
    note="Same conditions and exclusions as C01: the io_uring/polling drivers themselves (queue overflow, bursts, readiness order) are outside."),
 "C05": dict(
    engine="kani + mirsym",
    technique="bounded model checking of Proactor::cancel/cancel_token/register_cancel, cancel.rs and key.rs (Kani/CBMC), harness = driver "
              "via __verif hook",
    category="proof",
    text="Proof within bounds, above the driver: cancelling a pending operation returns nothing and fabricates no result; cancelling after "
         "completion yields the genuine result; a token cancels only its own operation, issues at most one cancellation, none after "
         "completion or after the operation is gone, never keeps it alive; the neighbour operation is untouched and the genuine result "
         "is never overwritten. Runtime level (MIR of compio-runtime's Submit future, Proactor summarised by the contract above): the "
         "operation is submitted exactly once on the first poll; while pending the future keeps exactly the key the driver returned; "
         "a cancel token in the context is registered with that key once; dropping the future while an operation is submitted calls "
         "Proactor::cancel exactly once with the current key, and never before submission or after completion; the multishot stream "
         "SubmitMulti yields every intermediate result once and in order, ends with the final result, and cancels its key when dropped early.",
    design_ref="DESIGN.md §1 C01/C02/C05",
    note="Promptness (the OS actually interrupting the operation) and the runtime-level routes (future drop, timeout combinators in "
         "compio-runtime) are outside; same conditions as C01."),
 "C04": dict(
    engine="mirsym",
    technique="symbolic execution of the MIR of compio-executor's task layer (Task::run/cancel/drop/poll, <Task as Drop>::drop, "
              "Local::poll, Remote::poll, State::*, the waker vtable; debug assertions compiled in) under every interleaving of a "
              "bounded thread system, with the generic TaskAlloc<F> half replaced by a ghost resource model that every vtable "
              "call is checked against; schedules enumerated by DFS (context-bounded for multi-operation programs)",
    category="model_checking",
    text="Bounded model checking over the real MIR, sequentially consistent, one task: executor thread (<= 4 ticks) x join-handle "
         "owner on the same or on another thread (programs of poll / re-poll with another waker / await / drop / detach / "
         "cancel-and-await) x a holder of a cloned task waker on another thread. In every explored interleaving: the future is "
         "polled only on its home thread, only while the storage holds it and never by a tick that started after cancellation; it "
         "is dropped exactly once, on the home thread; the output is taken by the handle or dropped exactly once; the join-waker "
         "slot is never read/dropped uninitialised, never overwritten without a drop, never entered by two threads at once; the "
         "allocation is freed exactly once, after the last reference, and never touched afterwards; none of the code's "
         "debug_assert!s fires; a join handle that returned Pending is woken when the task completes; a task whose handle was "
         "dropped or cancelled (from any thread) is scheduled once more so that its future is dropped; with the executor torn "
         "down at a solver-chosen tick nothing touches its Shared block afterwards — except in the configurations of known "
         "finding F20 (two concurrent remote schedulers), reported as KNOWN-FINDING.",
    design_ref="DESIGN.md §1 C04",
    note="Outside: queue.rs (hot/cold lists, max_interval fairness / starvation), panicking futures, more than one task, weak "
         "memory. Schedules are context-bounded (2 preemptions quick, 3 thorough). Two genuine defects found here were repaired "
         "(/repo fb8da0d remote join lost wake-up, 8fff3bc cancellation from another thread missed); F20 (teardown "
         "use-after-free with two concurrent remote schedulers) is recorded in known_findings.json."),
 "C08": dict(
    engine="kani + mirsym",
    technique="bounded model checking of the compiled op implementations of both drivers in one build (Kani/CBMC): "
              "IourOpCode::create_entry (SQE decoded via the kernel ABI layout) against PollOpCode::operate with rustix' private "
              "syscall functions replaced by recording stubs; fd/offset/view/result are solver-chosen; second layer: the coroutine MIR of the compio-fs File wrappers interpreted with uninterpreted functions (mirsym), z3 deciding which operation is built from which arguments and which result mapping is applied",
    category="proof",
    text="Proof within bounds, at the op layer: for ReadAt, WriteAt, Read, Write on a heap buffer view of capacity 8 with symbolic "
         "fd, offset, length and view bounds, the io_uring submission entry and the polling driver's syscall are the same request "
         "(kind, fd, pointer, length, offset), that request is exactly the buffer contract (reads: the whole writable region; "
         "writes: exactly the initialized bytes, never more), the syscall's byte count is returned unchanged, an OS error is "
         "returned unchanged, would-block parks the op on the right fd/direction and EINTR is retried; the same for the vectored "
         "variants (iovec arrays compared pair by pair). Wrapper layer: File::{read_at, read_vectored_at, write_at, "
         "write_vectored_at} build exactly one operation of the documented kind from the caller's descriptor / offset / buffer, "
         "submit it once, and return map_advanced / map_vec_advanced (reads) or nothing but into_inner (writes) of the driver's result.",
    design_ref="DESIGN.md §1 C08/C14",
    note="What the kernel does with the request (file contents afterwards, append semantics, ordering of concurrent ops, EOF) is "
         "kernel behaviour and outside, as are compio-fs above the ops, the vectored/managed variants, and the submission/"
         "completion machinery (see C01/C02). Stubs: rustix::backend::io::syscalls::{pread,pwrite,read,write}."),
 "C14": dict(
    engine="kani + mirsym",
    technique="bounded model checking of the compiled socket op implementations of both drivers in one build (Kani/CBMC): "
              "IourOpCode::create_entry (SQE decoded) against PollOpCode::operate with rustix::backend::net::syscalls::{recv,send} "
              "replaced by recording stubs; fd/flags/view/result are solver-chosen; second layer: the coroutine MIR of the compio-net Socket / stream / half wrappers interpreted with uninterpreted functions (mirsym), z3 deciding which operation is built from which arguments and which result mapping is applied",
    category="proof",
    text="Proof within bounds, at the op layer: for Recv and Send on a heap buffer view of capacity 8 (and RecvVectored / SendVectored "
         "over two heap members of capacity 4: msghdr decoded, iovecs compared pair by pair, oversized counts cut to the capacity) with symbolic fd, flags "
         "and view bounds, the io_uring submission entry and the polling driver's syscall are the same request (fd, pointer, "
         "length, flags) and equal the buffer contract (recv: the whole writable region, send: exactly the initialized bytes); "
         "the syscall's byte count is returned unchanged. Wrapper layer: Socket::{recv, recv_vectored, send, send_vectored, recv_from} "
         "build exactly one operation of the documented kind from the caller's descriptor / buffer / flags and apply the documented "
         "result mapping exactly once; every shutdown (Socket, TcpStream, UnixStream, by value or by reference) ends in exactly one "
         "ShutdownSocket(fd, Write); the borrowed ReadHalf / WriteHalf forward read / write / shutdown to the wrapped stream.",
    design_ref="DESIGN.md §1 C08/C14",
    note="Stream ordering, datagram boundaries, accept/connect uniqueness, shutdown and peer-close behaviour are kernel behaviour "
         "or need live sockets and are outside; so are RecvFrom/SendTo/RecvMsg/SendMsg, vectored, managed, zero-copy and multishot "
         "variants and compio-net above the ops."),
 "C09": dict(
    engine="mirsym",
    technique="symbolic execution of rustc's MIR of compio-runtime/src/time/runtime.rs (own interpreter, regenerated per run) with "
              "z3 deciding path feasibility and proof obligations; one inductive step per operation from an arbitrary valid wheel",
    category="model_checking",
    text="Bounded symbolic model checking of the real MIR: from every wheel of <=3 (thorough: 4) timers with arbitrary 64-bit "
         "deadlines/generations satisfying the representation invariant, and every clock reading, one step of insert / cancel / "
         "wake / min_timeout / is_completed / update_waker / poll_timer satisfies: a timer stays pending iff deadline > now (never "
         "early, always fires), its waker is woken exactly once, min_timeout never exceeds the distance to the nearest deadline, "
         "cancel leaves nothing behind and touches nothing else, the invariant is preserved; the derived Ord of TimerKey equals the "
         "lexicographic order the map summary uses. Histories of any length follow by induction on the invariant. "
         "Future layer on the same wheel: Sleep::new holds no timer iff the deadline has passed, otherwise a pending timer with "
         "exactly that deadline; Sleep::poll is Ready iff its timer is no longer pending and otherwise registers the task's waker; "
         "dropping a timer future removes exactly its key; Timeout::poll yields the inner output iff the inner future is ready and "
         "Elapsed only when the timer is no longer pending; the Interval::tick state machine (coroutine MIR, <= 2 polls) returns "
         "start on the first tick and afterwards an instant in (now, now+period] with next - start = multiple of the period + period, "
         "armed as exactly one timer, never completing before it fired; Runtime::poll hands the driver no time limit iff no timer is "
         "pending and otherwise at most the distance to the nearest deadline, and processes the wheel after the wait whatever "
         "its outcome.",
    design_ref="DESIGN.md §1 C09",
    note="Summaries (BTreeMap, Instant, Waker contracts) are assumptions; the interpreter is validated each run against the natively "
         "compiled runtime.rs (real clock) on seeded random histories; counterexamples are converted to histories and replayed "
         "natively at three real-time scales (boundary-only ones, deadline == now, cannot be and are reported on the solver's "
         "verdict). Interval: instants/periods < 2^62 ns, period > 0, the u128 remainder abstracted to r < period with "
         "elapsed = multiple + r (exact 128-bit remainder: z3 unknown). Outside: driver timeout precision, argument overflow of "
         "timeout()/sleep(), std's BTreeMap implementation."),
 "C03": dict(
    engine="mirsym",
    technique="symbolic execution of the MIR of the wake-up protocols (AwakeFlag, Notify::wake_by_ref, Driver::poll/flush of both "
              "drivers, Remote::schedule, Shared::drain_sync, State::*) under every interleaving of a bounded thread system; z3 "
              "decides the symbolic data, schedules are enumerated exhaustively by DFS",
    category="model_checking",
    text="Bounded model checking over the real MIR, sequentially consistent: (1) driver layer, both drivers: 1 runtime thread "
         "running {service work; Driver::poll(None)} (and the external-loop form {flush(); wait on fd; poll(0)}) for 2-3 "
         "iterations against 1 (thorough: 2) waking threads, every atomic access and syscall a scheduling point, every "
         "kernel-facing call inside Driver::poll replaced by a listed summary: in no interleaving does the runtime thread park in "
         "the kernel wait while work published by a waker that has returned is unserviced. (2) executor layer: Remote::schedule "
         "against the executor loop (drain_sync, State::unschedule, poll) with queue capacity 1-2 and a symbolic initial task "
         "state word, one waker exhaustively and two wakers (same task / two tasks on a full queue) with at most 2 (thorough: 3) "
         "preemptive switches: the task is always polled again, the driver waker is notified after the id is queued, `pending` "
         "never drops below the queue length nor underflows, a waker spinning on a full queue is always released.",
    design_ref="DESIGN.md §1 C03",
    note="NOT covered: weak-memory reorderings (the model is SC although the code uses Release/Acquire/AcqRel), block_on's loop "
         "skeleton, compio-compat's event loops, crossbeam's ArrayQueue internals, > 2 wakers, queue sizes > 2. Counterexamples "
         "are schedules over the real MIR; they cannot be replayed step-exactly on OS threads (no scheduling hooks in /repo). One "
         "genuine defect found here was repaired (full-queue wake notified too early, /repo f239df3)."),
 "C17": dict(
    engine="mirsym",
    technique="symbolic execution of the MIR of AsyncifyPool::dispatch / worker / CounterGuard::drop under every interleaving of "
              "dispatching threads and spawned workers (flume channel and thread::spawn summarised); schedules enumerated by DFS",
    category="model_checking",
    text="Bounded model checking over the real MIR: 1-2 dispatching threads x 1-2 jobs, thread_limit 1 (thorough: 2), every "
         "spawned worker a logical thread, idle timeouts either long or arbitrary: "
         "jobs running at once never exceed the limit, every accepted job runs exactly once, a rejected job comes back intact and "
         "does not run, no dispatcher gets stuck, a job submitted after workers retired still runs; the same with two concurrent "
         "dispatchers and with idle timeouts that may fire at any moment; when a job panics (unwinding through the worker's "
         "cleanup blocks) its slot is released: a submission is rejected only while live workers + reserved slots >= limit.",
    design_ref="DESIGN.md §1 C17",
    note="flume, thread::spawn, Box/Arc plumbing are assumptions (coverage.summaries); SC atomics; panic transport and the "
         "driver's completion channel are outside. Two genuine defects found here were repaired (/repo 186dec9, db2ede8)."),
 "C15": dict(
    engine="mirsym",
    technique="symbolic execution of the MIR of compio-tls's native-tls shim (OpensslInner, AllowStd) and handshake wrapper "
              "(compat::native::handshake, as its coroutine) and of compio-ws's poll_next / poll_flush, with an adversarial "
              "transport and the TLS / WebSocket libraries abstracted to the finite set of answers their entry points can give; "
              "every combination of states and answers is enumerated, z3 discharges the (propositional) obligations",
    category="model_checking",
    text="Bounded model checking over the real MIR of THREE mechanisms of the property, not of the TLS / WebSocket libraries. "
         "(1) native-tls shim, one call from every state (handshake finished or not, output written since the last flush or not) "
         "and every transport answer (Pending / Ok / Err, <= 4 polls): during the handshake unflushed output is flushed before the "
         "transport is asked for input, a pending / failed flush makes the read pending / fail, flush is deferred during the "
         "handshake and reaches the transport afterwards, an accepted write is remembered, Pending becomes WouldBlock and back, "
         "errors and results pass through unchanged, every transport poll carries the smuggled Context. (2) handshake wrapper, "
         "to completion for every outcome of the library's handshake calls (error / done at once / would block, then pending / "
         "finished / error) and of the final flush: every stream handed out by connect / accept has left handshake mode and was "
         "flushed to completion after that. (3) compio-ws: an item is yielded only after the protocol flush and then the transport "
         "flush completed, a pending or failed flush keeps the received item (never dropped or overwritten), poll_flush answers "
         "Ok only after both flushes.",
    design_ref="DESIGN.md §1 C15",
    note="Partial by construction: what native-tls / OpenSSL / rustls / futures-rustls / tungstenite do — the record layer, the "
         "handshake state machines, framing, close — is not executed, so 'data read unchanged, in order, exactly once' and 'clean "
         "close' are NOT claimed; nor is absence of deadlock for whole sessions (only the flush-before-wait and flush-before-yield "
         "rules that the adapters contribute). One genuine defect repaired (/repo d7967f6). The rustls and py-dynamic-openssl back "
         "ends are outside."),
 "C16": dict(
    engine="mirsym",
    technique="symbolic execution of the MIR of compio-quic's connection state (ConnectionState::{terminate, close, wake}, "
              "wake_all_streams, wake_stream, the event arms of ConnectionInner::run's coroutine body executed as slices, ConnectionInner::{state, try_state}, Connection::{poll_recv_datagram, poll_open_stream, "
              "poll_accept_stream}, SendStream::{stopped, execute_poll_write}, RecvStream::{received_reset, execute_poll_read}) with quinn-proto abstracted to nothing / something answers; waker containers are ghost bags whose "
              "field list is parsed from the struct definition on every run; all paths are enumerated, z3 discharges the "
              "(propositional) obligations",
    category="model_checking",
    text="Bounded model checking over the real MIR of ONE half-clause of the property — 'closing a connection completes every pending "
         "… datagram, open and accept future with an error instead of leaving it hanging', connection level: (a) terminate(reason) and "
         "close(code, reason) store the error, mark the connection not connected, and wake exactly once every waker held in any "
         "field of ConnectionState that can hold one (0 / 1 / 2 wakers per container; Option<Waker>, VecDeque<Waker>, "
         "[VecDeque<Waker>; 2], HashMap<StreamId, Waker>), leaving those fields empty; (b) poll_recv_datagram / poll_open_stream / "
         "poll_accept_stream, polled after termination, return the stored error at once without registering a waker or touching "
         "quinn-proto; polled before, they answer Ready with what quinn-proto handed out or register the caller's waker in a "
         "container that terminate drains (under the right direction) and answer Pending; (c) SendStream::stopped, "
         "RecvStream::{received_reset, execute_poll_read} and SendStream::execute_poll_write answer Pending only while the connection is alive, with the "
         "caller's waker then in `stopped` / `readable` / `writable`, and complete (error or quinn-proto's answer) after "
         "termination without registering, the waker filed under the stream's own id. All run under the connection's mutex, so a future "
         "is either woken by the close or sees its error; (d-g) the worker's side, executed as slices of ConnectionInner::run's coroutine "
         "body between two calls of state.conn.poll() resp. events.next(): wake_stream wakes exactly the named stream's waker; each "
         "per-stream event (Readable / Writable / Finished / Stopped) wakes that stream's reader / writer / stopped() future (Stopped: "
         "both stopped() and the blocked writer) and no other stream's; Opened / Available / datagram / handshake / Connected events wake "
         "every future parked in their table and strand nobody; ConnectionEvent::Close stores the error and wakes every waker in every "
         "field.",
    design_ref="DESIGN.md §1 C16",
    note="Partial by construction: ordered exactly-once stream delivery, finish / end-of-stream, flow control, datagram independence "
         "(quinn-proto, UDP sockets, the connection worker) are NOT covered and not claimed; nor are endpoint close or the worker's "
         "reaction to the close."),
 "C18": dict(
    engine="mirsym",
    technique="symbolic execution of the MIR of the dispatcher's worker loop and task wrapper (two async blocks run as coroutines) "
              "against an abstract channel / runtime / oneshot whose answers are enumerated exhaustively within the bounds; z3 "
              "discharges the (propositional) obligations",
    category="model_checking",
    text="Bounded model checking over the real MIR of what compio-dispatcher's own code contributes on ONE worker (<= 3/4 tasks, "
         "<= 2/3 Pending answers, both modes): every task taken from the channel is started exactly once, in the order taken; in "
         "sequential mode the channel is not asked for the next task and no task is started while the previous one has not "
         "finished, nothing is detached, and every started task has finished when the worker leaves its loop; in concurrent mode "
         "each task is detached right after it was started; the worker leaves its loop exactly when the channel reports closed and "
         "drained. Task wrapper: the dispatched closure is called exactly once, its result is sent exactly once on the task's own "
         "oneshot sender after the future completed, and a vanished receiver does not fail the task.",
    design_ref="DESIGN.md §1 C18",
    note="Partial by construction, and the smaller part: that a queued closure reaches exactly one of several workers is the MPMC "
         "channel's (flume) guarantee, and everything across OS threads — concurrent dispatch, join dropping the sender and joining "
         "the threads, panic propagation, the receiver reporting cancellation after an early join — is NOT covered and not claimed."),
 "C19": dict(
    engine="mirsym",
    technique="symbolic execution of the MIR of compio-actor's process group (ProcessGroup::{send, join}, Membership::drop, "
              "Strategy::select) and name registry (Registry::{reserve, get}, Registration::{activate, drop}) over a bounded member list with a symbolic round-robin cursor and adversarial mailbox answers; "
              "z3 decides the cursor arithmetic, the member answers are enumerated exhaustively",
    category="model_checking",
    text="Bounded model checking over the real MIR of TWO clauses of the property. (1) 'a process group routes each message to exactly "
         "one live, non-full member or hands it back': for every group of 0..3 (thorough: 0..5) members, every value of the "
         "round-robin cursor and every combination of member answers (accepts / mailbox full / mailbox closed), send asks every "
         "member at most once starting at member cursor % N, answers Ok iff exactly one member accepted (the last one asked), "
         "otherwise hands back the same message after having asked every member, with Full iff some mailbox was full and Closed "
         "otherwise; closed members are evicted, all others stay (each exactly once); the cursor advances by one; no index, remainder or "
         "overflow panic is reachable. join appends one member whose id was never issued before (invariant: every id issued so far is "
         "below next_id); dropping a Membership removes exactly the member "
         "with its id, or nothing when the group is gone. (2) the name registry (Registry::{reserve, get}, Registration::{activate, "
         "drop}), for a name that is absent / reserved / active: a reserved or active name is refused and left alone, a free one is "
         "reserved without becoming visible, get resolves only active names (to their own mailbox), activate makes the name "
         "resolve to the new mailbox, dropping the registration frees the name, other names are never touched.",
    design_ref="DESIGN.md §1 C19",
    note="Partial by construction: the other clauses of C19 — serial FIFO handling of a mailbox, lifecycle-hook order (including when "
         "the spawn path activates / drops a registration), call replies once the actor is gone, supervisor — live in third-party "
         "MPMC channels, a biased select and whole runtimes; they are NOT covered by this check and no claim is made about them. "
         "HashMap / OnceLock are summaries in clause (2). One call holds the group's mutex, so calls are atomic with respect to each other; "
         "Arc / Weak / Mutex / Vec are summaries."),
 "C07": dict(
    engine="mirsym",
    technique="symbolic execution of the MIR of the fallback buffer pool (BufferPool/Shared/BufferRef + fallback BufControl, closures "
              "bound by span) as one inductive step per operation from every well-formed pool state; z3 decides the symbolic len/cap data",
    category="model_checking",
    text="Bounded model checking over the real MIR (fallback pool, N = 3/4 buffers): from every presence pattern, queue order and "
         "set of live handles satisfying the ownership invariant, pop() hands out exactly the free buffer at the queue's front with "
         "len 0 / full capacity and never one that a live handle holds, reports exhaustion as an error exactly when nothing is free "
         "(no panic, no wait); dropping a handle returns exactly its buffer to its slot and its id to the queue once; a handle "
         "outliving the pool frees its own memory exactly once; BufferPoolRoot::release frees every pooled buffer once, leaves held "
         "ones alone and leaves no slot behind (a handle dropped afterwards frees its own memory); present slots + live handles "
         "= N after every step; "
         "set_capacity/set_len keep len <= cap <= full_cap and the views expose exactly cap / len bytes of the handle's own buffer.",
    design_ref="DESIGN.md §1 C07",
    note="Only the fallback (polling) pool: the io_uring buffer ring (mmap, register_buf_ring, kernel buffer selection), the managed "
         "ops and the multishot stream adapter need a live kernel and are outside, as are direct calls of the public take(id)/"
         "reset(id) on the fallback pool (not among the property's programs)."),
}

NOT_APPLICABLE = {
 "C20": "what the property is about — the kernel delivering everything a child wrote to its pipes, stdin reaching it, the real exit status exactly once — is kernel and child-process behaviour behind fork/exec/pidfd/wait; compio-process itself contributes only `join3(child_wait, read_to_end(stdout), read_to_end(stderr))` (a third-party combinator over pipe reads that are ordinary driver operations: C01/C08/C11 cover those pieces), nothing a bounded symbolic execution of in-repo code could decide (DESIGN.md §1, end)",
}

PENDING = {}  # filled below for properties whose check is still under construction


def main():
    props = [json.loads(l)["id"] for l in open(os.path.join(HERE, "properties.jsonl"))]
    checks = []
    for pid in props:
        if pid not in CHECKS:
            continue
        c = CHECKS[pid]
        checks.append({
            "property_id": pid,
            "quick_cmd": "./check %s --tier quick" % pid,
            "thorough_cmd": "./check %s --tier thorough" % pid,
            "evidence_file": "evidence/%s.json" % pid,
            "replay_cmd_template": "./check %s --replay {path}" % pid,
            "engine": c["engine"],
            "technique": c["technique"],
            "level_claimed": {"category": c["category"], "text": c["text"], "design_ref": c["design_ref"]},
            "level_note": c["note"],
        })
    na = []
    for pid in props:
        if pid in CHECKS:
            continue
        reason = NOT_APPLICABLE.get(pid) or PENDING.get(pid) or \
            "no solver-based check committed for this property yet (see DESIGN.md §1 for the plan and its measured obstacles)"
        na.append({"property_id": pid, "reason": reason})
    man = {
        "version": 1,
        "setup_cmd": "./setup.sh",
        "hooks": {
            "guard": "compio_rs_compio_verif",
            "enable": "RUSTFLAGS='--cfg compio_rs_compio_verif' (set by ./check for the harness crates that need hooks)",
            "baseline_off_cmd": BASELINE_OFF,
            "source_commits": HOOK_COMMITS,
            "add_only": True,
        },
        "engines": [
            {"name": "kani", "path": "kani/", "serves_properties": [p for p in props if p in CHECKS and CHECKS[p]["engine"].startswith("kani")],
             "kind_free_text": "out-of-tree Kani harness crates with path dependencies on /repo; CBMC decides"},
            {"name": "mirsym", "path": "mirsym/", "serves_properties": [p for p in props if p in CHECKS and "mirsym" in CHECKS[p]["engine"]],
             "kind_free_text": "symbolic interpreter over rustc's MIR dump of /repo (regenerated per run); z3 decides, cvc5 cross-checks"},
        ],
        "checks": checks,
        "not_applicable": na,
        "notes": "All checks go through ./check <id>; exit 0 ok / 1 VIOLATION / 2 counterexample did not replay / 3 check broken (timeout, OOM, vacuity).",
    }
    with open(os.path.join(HERE, "MANIFEST.json"), "w") as f:
        json.dump(man, f, indent=1)
        f.write("\n")


HOOK_COMMITS = ["fe7f040", "ba00e96", "abdcb33"]

if __name__ == "__main__":
    main()
