#!/bin/bash
# confirm_seed.sh <worktree> <n> <tests_cmd> <demo_cmd>
# In the scratch worktree: patch applies, existing tests pass with it, demo fails with it and passes without it.
set -u
WT=$1; N=$2; TESTS=$3; DEMO=$4
cd $WT || exit 9
export CARGO_TARGET_DIR=$WT/target CARGO_NET_OFFLINE=true
git checkout -q -- . ; git clean -fdq -e SEEDED -e target >/dev/null 2>&1
git apply --check SEEDED/$N/patch.diff && git apply SEEDED/$N/patch.diff || { echo "CONFIRM $WT/$N: patch does not apply"; exit 9; }
bash -c "$TESTS" > $WT/SEEDED/$N/confirm_tests.log 2>&1; T=$?
bash -c "$DEMO" > $WT/SEEDED/$N/confirm_demo_with.log 2>&1; W=$?
git checkout -q -- . ; git clean -fdq -e SEEDED -e target >/dev/null 2>&1
bash -c "$DEMO" > $WT/SEEDED/$N/confirm_demo_without.log 2>&1; O=$?
echo "CONFIRM $WT/$N: tests_rc=$T (want 0) demo_with_patch_rc=$W (want !=0) demo_without_rc=$O (want 0)"
