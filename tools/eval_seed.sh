#!/bin/bash
# usage: eval_seed.sh <patch.diff> <Cxx> [tier]   -- apply a seeded change to /repo, run the check, undo
set -u
PATCH=$1; PROP=$2; TIER=${3:-quick}
cd /repo || exit 9
if ! git diff --quiet; then echo "REPO DIRTY"; exit 9; fi
git apply "$PATCH" || { echo "PATCH DOES NOT APPLY"; exit 9; }
cd /verif
# evidence of a run on a deliberately broken tree must not replace the committed evidence
VERIF_EVIDENCE_DIR=/root/.cache/verif-seed-evidence ./check $PROP --tier $TIER > /tmp/eval-$PROP.log 2>&1
RC=$?
grep -E "^VIOLATION|^KNOWN-FINDING" /tmp/eval-$PROP.log | cut -c1-200 | head -5
grep -E "FAILED|BROKEN|INCONCLUSIVE" /tmp/eval-$PROP.log | cut -c1-220 | head -6
echo "== $PATCH $PROP exit=$RC"
git -C /repo checkout -- .
