//! C01 at the key layer of the *polling* configuration.
//!
//! In the stub configuration (kani/driver-stub) `Carry::set_result` is a no-op, so whether a final
//! completion reaches the operation's own `OpCode::set_result` — the place where descriptor-producing
//! operations (open, accept, socket) take ownership of what the kernel returned and where managed
//! reads hand their buffer back — cannot be observed there.  Here compio-driver is built with its
//! `polling` feature; the driver itself (epoll) is never constructed: keys are built through the
//! `__verif::detached_key` hook and the harness plays the driver as in kani/driver-stub.
#![cfg(kani)]
#![allow(clippy::all, static_mut_refs)]

use std::io;
use std::task::Poll;

use compio_driver::__verif as hook;
use compio_driver::{Decision, DriverType, OpCode};

static mut DROPS: u8 = 0;
static mut SET_RESULT: u8 = 0;
static mut SET_RESULT_AFTER_DROP: bool = false;
static mut SEEN_OK: bool = false;
static mut SEEN_VAL: u16 = 0;
static mut ACQUIRED: u8 = 0;
static mut RELEASED: u8 = 0;

/// An operation whose successful completion hands it a resource (think: the descriptor returned
/// by accept/open, stored by `set_result` and closed when the operation is dropped).
pub struct Op {
    holds: bool,
}

unsafe impl OpCode for Op {
    type Control = ();

    fn pre_submit(&mut self, _: &mut ()) -> io::Result<Decision> {
        Ok(Decision::Completed(0))
    }

    fn operate(&mut self, _: &mut ()) -> Poll<io::Result<usize>> {
        Poll::Ready(Ok(0))
    }

    unsafe fn set_result(&mut self, _: &mut (), res: &io::Result<usize>, _: &compio_driver::Extra) {
        SET_RESULT += 1;
        if DROPS > 0 {
            SET_RESULT_AFTER_DROP = true;
        }
        match res {
            Ok(n) => {
                SEEN_OK = true;
                SEEN_VAL = *n as u16;
                self.holds = true;
                ACQUIRED += 1;
            }
            Err(e) => {
                SEEN_OK = false;
                SEEN_VAL = e.raw_os_error().unwrap_or(0) as u16;
            }
        }
    }
}

impl Drop for Op {
    fn drop(&mut self) {
        unsafe {
            DROPS += 1;
            if self.holds {
                RELEASED += 1;
            }
        }
    }
}

#[kani::proof]
#[kani::unwind(4)]
// bound: one operation in the polling configuration; the submitter lets go of its key (plain drop, or cancel = cancelled flag set, then drop) before or after the driver's single final completion (solver-chosen), result Ok(n) or an OS error
// claim: the final completion reaches the operation's own set_result exactly once, with the driver's result, while the operation is still alive — also when the submitter has already abandoned it — and the operation is dropped exactly once afterwards, releasing what the completion handed to it
pub fn c01_q_abandoned_completion_reaches_op() {
    let key = hook::detached_key(Op { holds: false }, DriverType::Poll);
    let kernel = hook::kernel_ref(&key);
    let ok: bool = kani::any();
    let val: u16 = kani::any();
    kani::assume(ok || (val >= 1 && val <= 130));
    let res = if ok { Ok(val as usize) } else { Err(io::Error::from_raw_os_error(val as i32)) };
    let abandon_first: bool = kani::any();
    if abandon_first {
        // the submitter gives up: either it just lets go of its key, or it cancels first (Proactor::cancel marks the
        // key cancelled before it hands it to the driver)
        if kani::any() {
            assert!(!hook::mark_cancelled(&key));
        }
        drop(key);
        assert!(unsafe { DROPS } == 0, "operation freed while the kernel still owns it");
        hook::complete(kernel, res);
    } else {
        hook::complete(kernel, res);
        assert!(unsafe { DROPS } == 0, "operation freed while the submitter still holds it");
        assert!(hook::has_result(&key));
        drop(key);
    }
    unsafe {
        assert!(SET_RESULT == 1, "final completion did not reach the operation's set_result exactly once");
        assert!(!SET_RESULT_AFTER_DROP);
        assert!(SEEN_OK == ok && SEEN_VAL == val, "set_result saw a different result than the driver delivered");
        assert!(DROPS == 1, "operation dropped != once");
        assert!(ACQUIRED == RELEASED, "resource handed over by the completion was never released");
    }
    kani::cover!(abandon_first && ok);
    kani::cover!(!abandon_first && !ok);
}
