use super::*;

// ---- stand-ins for rustix' syscall layer (recording stubs) -------------------------------
// Interception point: the private functions `rustix::backend::io::syscalls::*` that the public
// rustix calls funnel into (one level above the raw `syscall!` asm, which Kani cannot execute).
use rustix::io::Result as RxResult;

pub static mut CALLS: u32 = 0;
pub static mut RET_LATER: isize = 0;

fn ret() -> RxResult<usize> {
    let r = unsafe {
        CALLS += 1;
        if CALLS == 1 { RET } else { RET_LATER }
    };
    if r >= 0 { Ok(r as usize) } else { Err(rustix::io::Errno::from_raw_os_error((-r) as i32)) }
}
pub unsafe fn stub_pread(fd: BorrowedFd<'_>, buf: (*mut u8, usize), pos: u64) -> RxResult<usize> {
    use std::os::fd::AsRawFd;
    CALL = Some(Call { kind: 1, fd: fd.as_raw_fd(), ptr: buf.0 as usize, len: buf.1, off: pos as i64 });
    ret()
}
pub fn stub_pwrite(fd: BorrowedFd<'_>, buf: &[u8], pos: u64) -> RxResult<usize> {
    use std::os::fd::AsRawFd;
    unsafe { CALL = Some(Call { kind: 2, fd: fd.as_raw_fd(), ptr: buf.as_ptr() as usize, len: buf.len(), off: pos as i64 }) };
    ret()
}
pub unsafe fn stub_read(fd: BorrowedFd<'_>, buf: (*mut u8, usize)) -> RxResult<usize> {
    use std::os::fd::AsRawFd;
    CALL = Some(Call { kind: 3, fd: fd.as_raw_fd(), ptr: buf.0 as usize, len: buf.1, off: -1 });
    ret()
}
pub fn stub_write(fd: BorrowedFd<'_>, buf: &[u8]) -> RxResult<usize> {
    use std::os::fd::AsRawFd;
    unsafe { CALL = Some(Call { kind: 4, fd: fd.as_raw_fd(), ptr: buf.as_ptr() as usize, len: buf.len(), off: -1 }) };
    ret()
}

// heap-rooted buffers: their addresses survive the moves of the op value
type RBuf = Slice<Vec<u8>>;

/// read destination: Vec with capacity 8, symbolic length, sliced at a symbolic begin
fn rbuf() -> (RBuf, usize, usize) {
    let mut v: Vec<u8> = Vec::with_capacity(8);
    kani::assume(v.capacity() == 8);
    let len: usize = kani::any();
    kani::assume(len <= 8);
    unsafe { v.set_len(len) };
    let b: usize = kani::any();
    kani::assume(b <= len);
    let base = v.as_ptr() as usize;
    (v.slice(b..), base + b, 8 - b)
}

type WBuf = Slice<Vec<u8>>;

/// write source: Vec with capacity 8, symbolic length, sliced [b, e)
fn wbuf() -> (WBuf, usize, usize) {
    let mut v: Vec<u8> = Vec::with_capacity(8);
    kani::assume(v.capacity() == 8);
    let len: usize = kani::any();
    kani::assume(len <= 8);
    unsafe { v.set_len(len) };
    let (b, e): (usize, usize) = kani::any();
    kani::assume(b <= len && b <= e);
    let base = v.as_ptr() as usize;
    let want_len = e.min(len) - b;
    (v.slice(b..e), base + b, want_len)
}

fn ret_any(max: usize) -> isize {
    let r: isize = kani::any();
    kani::assume(r >= 0 && r as usize <= max);
    r
}

#[kani::proof]
#[kani::unwind(4)]
#[kani::stub(rustix::backend::io::syscalls::pread, stub_pread)]
// bound: ReadAt<Slice<[u8;8]>, BorrowedFd> with symbolic fd >= 0, offset (u64 below i64::MAX), slice begin 0..=8; symbolic syscall result
// stubs: rustix::backend::io::syscalls::pread = recording stub returning a solver-chosen count
// claim: the io_uring SQE (IORING_OP_READ fd/addr/len/off) and the polling driver's pread(fd, ptr, len, off) describe the same request, and it is exactly the writable region of the buffer view
pub fn c08_q_read_at() {
    let (fd, raw) = fd_any();
    let off: u64 = kani::any();
    kani::assume(off <= i64::MAX as u64);
    let (buf, want_ptr, want_len) = rbuf();
    let mut op = ReadAt::new(fd, off, buf);
    let mut c1 = <<ReadAt<RBuf, BorrowedFd<'static>> as IourOpCode>::Control as Default>::default();
    unsafe { IourOpCode::init(&mut op, &mut c1) };
    let sqe = decode(IourOpCode::create_entry(&mut op, &mut c1));
    let mut c2 = <<ReadAt<RBuf, BorrowedFd<'static>> as PollOpCode>::Control as Default>::default();
    unsafe { PollOpCode::init(&mut op, &mut c2) };
    unsafe { RET = ret_any(want_len) };
    let r = PollOpCode::operate(&mut op, &mut c2);
    let call = unsafe { CALL }.expect("polling driver issued no syscall");
    // both sides agree
    assert!(sqe.opcode == IORING_OP_READ && call.kind == 1);
    assert!(sqe.fd == raw && call.fd == raw);
    assert!(sqe.addr as usize == call.ptr && sqe.len as usize == call.len);
    assert!(sqe.off == off && call.off as u64 == off);
    // and equal the buffer contract
    assert!(call.ptr == want_ptr && call.len == want_len, "request is not the writable region of the view");
    std::mem::forget(op);
    match r {
        Poll::Ready(Ok(n)) => assert!(n as isize == unsafe { RET }),
        _ => unreachable!("successful syscall result not passed through"),
    }
    kani::cover!(call.len == 3 && off > 0);
}

#[kani::proof]
#[kani::unwind(4)]
#[kani::stub(rustix::backend::io::syscalls::pwrite, stub_pwrite)]
// bound: WriteAt<Slice<Vec<u8>>, BorrowedFd> with symbolic fd, offset, slice [b, e) of a Vec with symbolic length <= 8
// stubs: rustix::backend::io::syscalls::pwrite = recording stub
// claim: io_uring SQE (IORING_OP_WRITE) and the polling driver's pwrite describe the same request: exactly the initialized bytes of the view, at the given offset
pub fn c08_q_write_at() {
    let (fd, raw) = fd_any();
    let off: u64 = kani::any();
    kani::assume(off <= i64::MAX as u64);
    let (buf, want_ptr, want_len) = wbuf();
    let mut op = WriteAt::new(fd, off, buf);
    let mut c1 = <<WriteAt<WBuf, BorrowedFd<'static>> as IourOpCode>::Control as Default>::default();
    unsafe { IourOpCode::init(&mut op, &mut c1) };
    let sqe = decode(IourOpCode::create_entry(&mut op, &mut c1));
    let mut c2 = <<WriteAt<WBuf, BorrowedFd<'static>> as PollOpCode>::Control as Default>::default();
    unsafe { PollOpCode::init(&mut op, &mut c2) };
    unsafe { RET = ret_any(want_len) };
    let r = PollOpCode::operate(&mut op, &mut c2);
    let call = unsafe { CALL }.expect("polling driver issued no syscall");
    assert!(sqe.opcode == IORING_OP_WRITE && call.kind == 2);
    assert!(sqe.fd == raw && call.fd == raw);
    assert!(sqe.addr as usize == call.ptr && sqe.len as usize == call.len);
    assert!(sqe.off == off && call.off as u64 == off);
    assert!(call.ptr == want_ptr && call.len == want_len, "request is not the initialized part of the view");
    match r {
        Poll::Ready(Ok(n)) => assert!(n as isize == unsafe { RET }),
        _ => unreachable!("successful syscall result not passed through"),
    }
    kani::cover!(call.len == 3 && off > 0);
    std::mem::forget(op);
}

#[kani::proof]
#[kani::unwind(4)]
#[kani::stub(rustix::backend::io::syscalls::read, stub_read)]
// bound: Read<Slice<Vec<u8>>, BorrowedFd> (pipes, sequential files): symbolic fd, view
// stubs: rustix::backend::io::syscalls::read = recording stub
// claim: io_uring SQE (IORING_OP_READ, offset "current position") and the polling driver's read agree and cover the writable region
pub fn c08_q_read() {
    let (fd, raw) = fd_any();
    let (buf, want_ptr, want_len) = rbuf();
    let mut op = Read::new(fd, buf);
    let mut c1 = <<Read<RBuf, BorrowedFd<'static>> as IourOpCode>::Control as Default>::default();
    unsafe { IourOpCode::init(&mut op, &mut c1) };
    let sqe = decode(IourOpCode::create_entry(&mut op, &mut c1));
    let mut c2 = <<Read<RBuf, BorrowedFd<'static>> as PollOpCode>::Control as Default>::default();
    unsafe { PollOpCode::init(&mut op, &mut c2) };
    unsafe { RET = ret_any(want_len) };
    let r = PollOpCode::operate(&mut op, &mut c2);
    let call = unsafe { CALL }.expect("polling driver issued no syscall");
    assert!(sqe.opcode == IORING_OP_READ && call.kind == 3);
    assert!(sqe.fd == raw && call.fd == raw);
    assert!(sqe.addr as usize == call.ptr && sqe.len as usize == call.len);
    // io_uring: offset -1 (u64::MAX) or 0 both mean "use / ignore the file position" for non-seekable
    // files; the op must not invent a position
    assert!(sqe.off == 0 || sqe.off == u64::MAX, "sequential read with an explicit offset");
    assert!(call.ptr == want_ptr && call.len == want_len);
    match r {
        Poll::Ready(Ok(n)) => assert!(n as isize == unsafe { RET }),
        _ => unreachable!(),
    }
    // the polling driver waits for readability of the same fd
    match PollOpCode::pre_submit(&mut op, &mut c2) {
        Ok(compio_driver::Decision::Wait(_)) => {}
        _ => unreachable!("sequential read must wait for readiness"),
    }
    kani::cover!(call.len == 5);
    std::mem::forget(op);
}

#[kani::proof]
#[kani::unwind(4)]
#[kani::stub(rustix::backend::io::syscalls::write, stub_write)]
// bound: Write<Slice<Vec<u8>>, BorrowedFd>: symbolic fd, view [b, e)
// stubs: rustix::backend::io::syscalls::write = recording stub
// claim: io_uring SQE (IORING_OP_WRITE) and the polling driver's write agree and cover exactly the initialized bytes
pub fn c08_q_write() {
    let (fd, raw) = fd_any();
    let (buf, want_ptr, want_len) = wbuf();
    let mut op = Write::new(fd, buf);
    let mut c1 = <<Write<WBuf, BorrowedFd<'static>> as IourOpCode>::Control as Default>::default();
    unsafe { IourOpCode::init(&mut op, &mut c1) };
    let sqe = decode(IourOpCode::create_entry(&mut op, &mut c1));
    let mut c2 = <<Write<WBuf, BorrowedFd<'static>> as PollOpCode>::Control as Default>::default();
    unsafe { PollOpCode::init(&mut op, &mut c2) };
    unsafe { RET = ret_any(want_len) };
    let r = PollOpCode::operate(&mut op, &mut c2);
    let call = unsafe { CALL }.expect("polling driver issued no syscall");
    assert!(sqe.opcode == IORING_OP_WRITE && call.kind == 4);
    assert!(sqe.fd == raw && call.fd == raw);
    assert!(sqe.addr as usize == call.ptr && sqe.len as usize == call.len);
    assert!(sqe.off == 0 || sqe.off == u64::MAX, "sequential write with an explicit offset");
    assert!(call.ptr == want_ptr && call.len == want_len);
    match r {
        Poll::Ready(Ok(n)) => assert!(n as isize == unsafe { RET }),
        _ => unreachable!(),
    }
    kani::cover!(call.len == 2);
    std::mem::forget(op);
}

// ------------------------------------------------------------------ error mapping
#[kani::proof]
#[kani::unwind(4)]
#[kani::stub(rustix::backend::io::syscalls::pread, stub_pread)]
// bound: ReadAt on the polling driver with the syscall failing with a symbolic errno 1..=133
// stubs: rustix::backend::io::syscalls::pread returns Err(errno)
// claim: an OS error other than EAGAIN/EINPROGRESS/EINTR surfaces unchanged (same raw errno); would-block becomes Pending; an interrupted call is retried once and its result returned; never a fabricated success
pub fn c08_q_read_at_error() {
    let (fd, _raw) = fd_any();
    let (buf, _p, _l) = rbuf();
    let mut op = ReadAt::new(fd, 0, buf);
    let mut c2 = <<ReadAt<RBuf, BorrowedFd<'static>> as PollOpCode>::Control as Default>::default();
    unsafe { PollOpCode::init(&mut op, &mut c2) };
    let e: i32 = kani::any();
    kani::assume(e >= 1 && e <= 133);
    unsafe {
        RET = -(e as isize);
        RET_LATER = 0; // an interrupted call is retried; the retry reports end-of-file
    }
    match PollOpCode::operate(&mut op, &mut c2) {
        Poll::Ready(Ok(n)) => {
            assert!(e == libc::EINTR && n == 0 && unsafe { CALLS } == 2, "failed syscall reported as success");
        }
        Poll::Ready(Err(err)) => {
            assert!(err.raw_os_error() == Some(e), "errno changed on the way up");
            assert!(e != libc::EAGAIN && e != libc::EINPROGRESS && e != libc::EINTR);
            assert!(unsafe { CALLS } == 1);
            std::mem::forget(err);
        }
        Poll::Pending => assert!(e == libc::EAGAIN || e == libc::EWOULDBLOCK || e == libc::EINPROGRESS),
    }
    kani::cover!(e == libc::EAGAIN);
    kani::cover!(e == libc::EIO);
    kani::cover!(e == libc::EINTR);
    std::mem::forget(op);
}
