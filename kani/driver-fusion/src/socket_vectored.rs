//! C14 — vectored socket I/O: io_uring submits a `msghdr` (RECVMSG / SENDMSG), the polling driver calls
//! recvmsg / sendmsg with an iovec slice: both must describe the same buffers, the buffer contract's ones.
use super::*;
use rustix::io::Result as RxResult;
use rustix::net::{RecvAncillaryBuffer, RecvFlags, RecvMsg as RxRecvMsg, ReturnFlags, SendAncillaryBuffer, SendFlags};
use std::io::{IoSlice, IoSliceMut};

pub const IORING_OP_SENDMSG: u8 = 9;
pub const IORING_OP_RECVMSG: u8 = 10;

pub static mut MCALL: Option<(u8, i32, usize, [(usize, usize); 2], u32)> = None;

pub fn stub_recvmsg(fd: BorrowedFd<'_>, iov: &mut [IoSliceMut<'_>], _control: &mut RecvAncillaryBuffer<'_>, flags: RecvFlags) -> RxResult<RxRecvMsg> {
    use std::os::fd::AsRawFd;
    let mut v = [(0usize, 0usize); 2];
    if iov.len() > 0 {
        v[0] = (iov[0].as_ptr() as usize, iov[0].len());
    }
    if iov.len() > 1 {
        v[1] = (iov[1].as_ptr() as usize, iov[1].len());
    }
    unsafe { MCALL = Some((1, fd.as_raw_fd(), iov.len(), v, flags.bits())) };
    let r = unsafe { RET };
    if r >= 0 {
        Ok(RxRecvMsg { bytes: r as usize, flags: ReturnFlags::empty(), address: None })
    } else {
        Err(rustix::io::Errno::from_raw_os_error((-r) as i32))
    }
}

pub fn stub_sendmsg(fd: BorrowedFd<'_>, iov: &[IoSlice<'_>], _control: &mut SendAncillaryBuffer<'_, '_, '_>, flags: SendFlags) -> RxResult<usize> {
    use std::os::fd::AsRawFd;
    let mut v = [(0usize, 0usize); 2];
    if iov.len() > 0 {
        v[0] = (iov[0].as_ptr() as usize, iov[0].len());
    }
    if iov.len() > 1 {
        v[1] = (iov[1].as_ptr() as usize, iov[1].len());
    }
    unsafe { MCALL = Some((2, fd.as_raw_fd(), iov.len(), v, flags.bits())) };
    let r = unsafe { RET };
    if r >= 0 { Ok(r as usize) } else { Err(rustix::io::Errno::from_raw_os_error((-r) as i32)) }
}

#[repr(C)]
#[derive(Clone, Copy)]
struct IoVec {
    base: usize,
    len: usize,
}

fn vec_any() -> (Vec<u8>, usize, usize) {
    let mut v: Vec<u8> = Vec::with_capacity(4);
    kani::assume(v.capacity() == 4);
    let len: usize = kani::any();
    kani::assume(len <= 4);
    unsafe { v.set_len(len) };
    let base = v.as_ptr() as usize;
    (v, base, len)
}

type VBuf = [Vec<u8>; 2];

#[kani::proof]
#[kani::unwind(4)]
#[kani::stub(rustix::backend::net::syscalls::recvmsg, stub_recvmsg)]
#[kani::stub(compio_driver::sys::pal::iour::is_kernel_at_least, super::socket_ops::stub_is_kernel_at_least)]
// bound: RecvVectored<[Vec<u8>;2], BorrowedFd>, two heap members of capacity 4 with symbolic lengths, symbolic fd and flags; result up to 12 (more than fits)
// stubs: rustix::backend::net::syscalls::recvmsg = recording stub; is_kernel_at_least = solver-chosen bool
// claim: io_uring's RECVMSG msghdr (decoded through the libc layout) and the polling driver's recvmsg get the same two (base, len) pairs = each member's whole capacity, the same flags, no name / control buffer; a count larger than the total capacity is cut to the capacity
pub fn c14_q_recv_vectored() {
    let (fd, raw) = fd_any();
    let bits: u32 = kani::any();
    let flags = RecvFlags::from_bits_truncate(bits);
    let (a, abase, _) = vec_any();
    let (b, bbase, _) = vec_any();
    unsafe { super::socket_ops::KERNEL_OK = kani::any() };
    let mut op = RecvVectored::new(fd, [a, b], flags);
    let mut c1 = <<RecvVectored<VBuf, BorrowedFd<'static>> as IourOpCode>::Control as Default>::default();
    unsafe { IourOpCode::init(&mut op, &mut c1) };
    let sqe = decode(IourOpCode::create_entry(&mut op, &mut c1));
    assert!(sqe.opcode == IORING_OP_RECVMSG && sqe.fd == raw && sqe.rw_flags == flags.bits() && sqe.ioprio == 0);
    let msg = unsafe { &*(sqe.addr as *const libc::msghdr) };
    assert!(msg.msg_iovlen == 2 && msg.msg_name.is_null() && msg.msg_namelen == 0, "msghdr shape");
    assert!(msg.msg_control.is_null() && msg.msg_controllen == 0);
    let iov = unsafe { std::slice::from_raw_parts(msg.msg_iov as *const IoVec, 2) };
    let mut c2 = <<RecvVectored<VBuf, BorrowedFd<'static>> as PollOpCode>::Control as Default>::default();
    unsafe { PollOpCode::init(&mut op, &mut c2) };
    let r0: isize = kani::any();
    kani::assume(r0 >= 0 && r0 <= 12);
    unsafe { RET = r0 };
    let r = PollOpCode::operate(&mut op, &mut c2);
    let (kind, cfd, n, v, cflags) = unsafe { MCALL }.expect("polling driver issued no syscall");
    assert!(kind == 1 && cfd == raw && n == 2 && cflags == flags.bits());
    assert!(iov[0].base == v[0].0 && iov[0].len == v[0].1 && iov[1].base == v[1].0 && iov[1].len == v[1].1,
            "the two drivers pass different iovecs");
    assert!(v[0] == (abase, 4) && v[1] == (bbase, 4), "iovecs are not the members' full capacity from their start");
    match r {
        Poll::Ready(Ok(n)) => assert!(n == (r0 as usize).min(8), "received count not cut to the buffer's capacity"),
        _ => unreachable!(),
    }
    kani::cover!(r0 == 11 && flags.bits() != 0);
    std::mem::forget(op);
    std::mem::forget(c1);
    std::mem::forget(c2);
}

#[kani::proof]
#[kani::unwind(4)]
#[kani::stub(rustix::backend::net::syscalls::sendmsg, stub_sendmsg)]
#[kani::stub(compio_driver::sys::pal::iour::is_kernel_at_least, super::socket_ops::stub_is_kernel_at_least)]
// bound: SendVectored<[Vec<u8>;2], BorrowedFd>, two heap members of capacity 4 with symbolic lengths
// stubs: rustix::backend::net::syscalls::sendmsg = recording stub; is_kernel_at_least = solver-chosen bool
// claim: io_uring's SENDMSG msghdr and the polling driver's sendmsg get the same two (base, len) pairs = exactly each member's initialized bytes, the same flags
pub fn c14_q_send_vectored() {
    let (fd, raw) = fd_any();
    let bits: u32 = kani::any();
    let flags = SendFlags::from_bits_truncate(bits);
    let (a, abase, alen) = vec_any();
    let (b, bbase, blen) = vec_any();
    unsafe { super::socket_ops::KERNEL_OK = kani::any() };
    let mut op = SendVectored::new(fd, [a, b], flags);
    let mut c1 = <<SendVectored<VBuf, BorrowedFd<'static>> as IourOpCode>::Control as Default>::default();
    unsafe { IourOpCode::init(&mut op, &mut c1) };
    let sqe = decode(IourOpCode::create_entry(&mut op, &mut c1));
    assert!(sqe.opcode == IORING_OP_SENDMSG && sqe.fd == raw && sqe.rw_flags == flags.bits());
    let msg = unsafe { &*(sqe.addr as *const libc::msghdr) };
    assert!(msg.msg_iovlen == 2 && msg.msg_name.is_null() && msg.msg_control.is_null(), "msghdr shape");
    let iov = unsafe { std::slice::from_raw_parts(msg.msg_iov as *const IoVec, 2) };
    let mut c2 = <<SendVectored<VBuf, BorrowedFd<'static>> as PollOpCode>::Control as Default>::default();
    unsafe { PollOpCode::init(&mut op, &mut c2) };
    let r0: isize = kani::any();
    kani::assume(r0 >= 0 && r0 as usize <= alen + blen);
    unsafe { RET = r0 };
    let r = PollOpCode::operate(&mut op, &mut c2);
    let (kind, cfd, n, v, cflags) = unsafe { MCALL }.expect("polling driver issued no syscall");
    assert!(kind == 2 && cfd == raw && n == 2 && cflags == flags.bits());
    assert!(iov[0].base == v[0].0 && iov[0].len == v[0].1 && iov[1].base == v[1].0 && iov[1].len == v[1].1,
            "the two drivers pass different iovecs");
    assert!(v[0].1 == alen && v[1].1 == blen, "an iovec is not exactly the member's initialized bytes");
    assert!((alen == 0 || v[0].0 == abase) && (blen == 0 || v[1].0 == bbase));
    match r {
        Poll::Ready(Ok(n)) => assert!(n as isize == r0),
        _ => unreachable!(),
    }
    kani::cover!(alen == 1 && blen == 4 && r0 == 3);
    std::mem::forget(op);
    std::mem::forget(c1);
    std::mem::forget(c2);
}
