//! C14 — stream/datagram socket operations: both drivers issue the same request for the same op
//! value; a result larger than the buffer is clamped to the capacity.
use super::*;
use rustix::io::Result as RxResult;
use rustix::net::{RecvFlags, SendFlags};

pub const IORING_OP_SEND: u8 = 26;
pub const IORING_OP_RECV: u8 = 27;

pub static mut FLAGS: u32 = 0;

fn ret() -> RxResult<usize> {
    let r = unsafe { RET };
    if r >= 0 { Ok(r as usize) } else { Err(rustix::io::Errno::from_raw_os_error((-r) as i32)) }
}

pub unsafe fn stub_recv(fd: BorrowedFd<'_>, buf: (*mut u8, usize), flags: RecvFlags) -> RxResult<usize> {
    use std::os::fd::AsRawFd;
    CALL = Some(Call { kind: 9, fd: fd.as_raw_fd(), ptr: buf.0 as usize, len: buf.1, off: -1 });
    FLAGS = flags.bits();
    ret()
}
pub fn stub_send(fd: BorrowedFd<'_>, buf: &[u8], flags: SendFlags) -> RxResult<usize> {
    use std::os::fd::AsRawFd;
    unsafe {
        CALL = Some(Call { kind: 10, fd: fd.as_raw_fd(), ptr: buf.as_ptr() as usize, len: buf.len(), off: -1 });
        FLAGS = flags.bits();
    }
    ret()
}

/// stand-in for the uname()-parsing kernel version probe (string parsing that Kani's compiler cannot translate:
/// internal compiler error in intrinsics.rs); the answer is solver-chosen
pub static mut KERNEL_OK: bool = false;
pub fn stub_is_kernel_at_least<V>(_: V) -> bool {
    unsafe { KERNEL_OK }
}

type RBuf = Slice<Vec<u8>>;

fn rbuf() -> (RBuf, usize, usize) {
    let mut v: Vec<u8> = Vec::with_capacity(8);
    kani::assume(v.capacity() == 8);
    let len: usize = kani::any();
    kani::assume(len <= 8);
    unsafe { v.set_len(len) };
    let b: usize = kani::any();
    kani::assume(b <= len);
    let base = v.as_ptr() as usize;
    (v.slice(b..), base + b, 8 - b)
}

fn wbuf() -> (RBuf, usize, usize) {
    let mut v: Vec<u8> = Vec::with_capacity(8);
    kani::assume(v.capacity() == 8);
    let len: usize = kani::any();
    kani::assume(len <= 8);
    unsafe { v.set_len(len) };
    let (b, e): (usize, usize) = kani::any();
    kani::assume(b <= len && b <= e);
    let base = v.as_ptr() as usize;
    (v.slice(b..e), base + b, e.min(len) - b)
}

#[kani::proof]
#[kani::unwind(4)]
#[kani::stub(rustix::backend::net::syscalls::recv, stub_recv)]
#[kani::stub(compio_driver::sys::pal::iour::is_kernel_at_least, stub_is_kernel_at_least)]
// bound: Recv<Slice<Vec<u8>>, BorrowedFd> with symbolic fd, flags (any RecvFlags bits), view; symbolic result
// stubs: rustix::backend::net::syscalls::recv = recording stub; compio_driver::sys::pal::iour::is_kernel_at_least = solver-chosen bool (its uname() string parsing makes Kani's compiler crash)
// claim: io_uring SQE (IORING_OP_RECV fd/addr/len/msg_flags) and the polling driver's recv(fd, ptr, len, flags) are the same request = the writable region of the view; the polling driver waits for readability of that fd
pub fn c14_q_recv() {
    let (fd, raw) = fd_any();
    let bits: u32 = kani::any();
    let flags = RecvFlags::from_bits_truncate(bits);
    let (buf, want_ptr, want_len) = rbuf();
    unsafe { KERNEL_OK = kani::any() };
    let mut op = Recv::new(fd, buf, flags);
    let mut c1 = <<Recv<RBuf, BorrowedFd<'static>> as IourOpCode>::Control as Default>::default();
    unsafe { IourOpCode::init(&mut op, &mut c1) };
    let sqe = decode(IourOpCode::create_entry(&mut op, &mut c1));
    let mut c2 = <<Recv<RBuf, BorrowedFd<'static>> as PollOpCode>::Control as Default>::default();
    unsafe { PollOpCode::init(&mut op, &mut c2) };
    let r0: isize = kani::any();
    kani::assume(r0 >= 0 && r0 as usize <= want_len);
    unsafe { RET = r0 };
    let r = PollOpCode::operate(&mut op, &mut c2);
    let call = unsafe { CALL }.expect("polling driver issued no syscall");
    assert!(sqe.opcode == IORING_OP_RECV && call.kind == 9);
    assert!(sqe.ioprio == 0, "poll-first requested by nobody");
    assert!(sqe.fd == raw && call.fd == raw);
    assert!(sqe.addr as usize == call.ptr && sqe.len as usize == call.len);
    assert!(sqe.rw_flags == flags.bits() && unsafe { FLAGS } == flags.bits(), "receive flags differ between drivers");
    assert!(call.ptr == want_ptr && call.len == want_len);
    match r {
        Poll::Ready(Ok(n)) => assert!(n as isize == r0),
        _ => unreachable!(),
    }
    kani::cover!(flags.bits() != 0 && call.len == 4);
    std::mem::forget(op);
}

#[kani::proof]
#[kani::unwind(4)]
#[kani::stub(rustix::backend::net::syscalls::send, stub_send)]
// bound: Send<Slice<Vec<u8>>, BorrowedFd> with symbolic fd, flags, view [b, e); symbolic result
// stubs: rustix::backend::net::syscalls::send = recording stub
// claim: io_uring SQE (IORING_OP_SEND) and the polling driver's send are the same request = exactly the initialized bytes of the view, same flags
pub fn c14_q_send() {
    let (fd, raw) = fd_any();
    let bits: u32 = kani::any();
    let flags = SendFlags::from_bits_truncate(bits);
    let (buf, want_ptr, want_len) = wbuf();
    let mut op = Send::new(fd, buf, flags);
    let mut c1 = <<Send<RBuf, BorrowedFd<'static>> as IourOpCode>::Control as Default>::default();
    unsafe { IourOpCode::init(&mut op, &mut c1) };
    let sqe = decode(IourOpCode::create_entry(&mut op, &mut c1));
    let mut c2 = <<Send<RBuf, BorrowedFd<'static>> as PollOpCode>::Control as Default>::default();
    unsafe { PollOpCode::init(&mut op, &mut c2) };
    let r0: isize = kani::any();
    kani::assume(r0 >= 0 && r0 as usize <= want_len);
    unsafe { RET = r0 };
    let r = PollOpCode::operate(&mut op, &mut c2);
    let call = unsafe { CALL }.expect("polling driver issued no syscall");
    assert!(sqe.opcode == IORING_OP_SEND && call.kind == 10);
    assert!(sqe.fd == raw && call.fd == raw);
    assert!(sqe.addr as usize == call.ptr && sqe.len as usize == call.len);
    assert!(sqe.rw_flags == flags.bits() && unsafe { FLAGS } == flags.bits(), "send flags differ between drivers");
    assert!(call.ptr == want_ptr && call.len == want_len, "send does not cover exactly the initialized bytes");
    match r {
        Poll::Ready(Ok(n)) => assert!(n as isize == r0),
        _ => unreachable!(),
    }
    kani::cover!(flags.bits() != 0 && call.len == 3);
    std::mem::forget(op);
}
