//! C08 — vectored positional file I/O: the iovec array each driver hands to the OS.
use super::*;
use rustix::io::Result as RxResult;
use std::io::{IoSlice, IoSliceMut};

/// what the polling driver's preadv/pwritev saw: up to 2 (base, len) pairs
pub static mut VCALL: Option<(u8, i32, i64, usize, [(usize, usize); 2])> = None;

fn ret() -> RxResult<usize> {
    let r = unsafe { RET };
    if r >= 0 { Ok(r as usize) } else { Err(rustix::io::Errno::from_raw_os_error((-r) as i32)) }
}

pub fn stub_preadv(fd: BorrowedFd<'_>, bufs: &mut [IoSliceMut<'_>], pos: u64) -> RxResult<usize> {
    use std::os::fd::AsRawFd;
    let mut v = [(0usize, 0usize); 2];
    if bufs.len() > 0 {
        v[0] = (bufs[0].as_ptr() as usize, bufs[0].len());
    }
    if bufs.len() > 1 {
        v[1] = (bufs[1].as_ptr() as usize, bufs[1].len());
    }
    unsafe { VCALL = Some((5, fd.as_raw_fd(), pos as i64, bufs.len(), v)) };
    ret()
}

pub fn stub_pwritev(fd: BorrowedFd<'_>, bufs: &[IoSlice<'_>], pos: u64) -> RxResult<usize> {
    use std::os::fd::AsRawFd;
    let mut v = [(0usize, 0usize); 2];
    if bufs.len() > 0 {
        v[0] = (bufs[0].as_ptr() as usize, bufs[0].len());
    }
    if bufs.len() > 1 {
        v[1] = (bufs[1].as_ptr() as usize, bufs[1].len());
    }
    unsafe { VCALL = Some((6, fd.as_raw_fd(), pos as i64, bufs.len(), v)) };
    ret()
}

pub fn stub_readv(fd: BorrowedFd<'_>, bufs: &mut [IoSliceMut<'_>]) -> RxResult<usize> {
    use std::os::fd::AsRawFd;
    let mut v = [(0usize, 0usize); 2];
    if bufs.len() > 0 {
        v[0] = (bufs[0].as_ptr() as usize, bufs[0].len());
    }
    if bufs.len() > 1 {
        v[1] = (bufs[1].as_ptr() as usize, bufs[1].len());
    }
    unsafe { VCALL = Some((7, fd.as_raw_fd(), -1, bufs.len(), v)) };
    ret()
}

pub fn stub_writev(fd: BorrowedFd<'_>, bufs: &[IoSlice<'_>]) -> RxResult<usize> {
    use std::os::fd::AsRawFd;
    let mut v = [(0usize, 0usize); 2];
    if bufs.len() > 0 {
        v[0] = (bufs[0].as_ptr() as usize, bufs[0].len());
    }
    if bufs.len() > 1 {
        v[1] = (bufs[1].as_ptr() as usize, bufs[1].len());
    }
    unsafe { VCALL = Some((8, fd.as_raw_fd(), -1, bufs.len(), v)) };
    ret()
}

/// kernel ABI view of struct iovec
#[repr(C)]
#[derive(Clone, Copy)]
struct IoVec {
    base: usize,
    len: usize,
}

fn vec_any() -> (Vec<u8>, usize, usize) {
    let mut v: Vec<u8> = Vec::with_capacity(4);
    kani::assume(v.capacity() == 4);
    let len: usize = kani::any();
    kani::assume(len <= 4);
    unsafe { v.set_len(len) };
    let base = v.as_ptr() as usize;
    (v, base, len)
}

type VBuf = [Vec<u8>; 2];

#[kani::proof]
#[kani::unwind(4)]
#[kani::stub(rustix::backend::io::syscalls::preadv, stub_preadv)]
// bound: ReadVectoredAt<[Vec<u8>;2], BorrowedFd>, two heap members of capacity 4 with symbolic lengths, symbolic fd and offset; symbolic result
// stubs: rustix::backend::io::syscalls::preadv = recording stub
// claim: io_uring's READV entry (iovec array decoded through the kernel ABI) and the polling driver's preadv get the same two (base, len) pairs at the same offset: each member's whole capacity from its start (reads fill spare capacity), in order
pub fn c08_q_read_vectored_at() {
    let (fd, raw) = fd_any();
    let off: u64 = kani::any();
    kani::assume(off <= i64::MAX as u64);
    let (a, abase, _alen) = vec_any();
    let (b, bbase, _blen) = vec_any();
    let mut op = ReadVectoredAt::new(fd, off, [a, b]);
    let mut c1 = <<ReadVectoredAt<VBuf, BorrowedFd<'static>> as IourOpCode>::Control as Default>::default();
    unsafe { IourOpCode::init(&mut op, &mut c1) };
    let sqe = decode(IourOpCode::create_entry(&mut op, &mut c1));
    let mut c2 = <<ReadVectoredAt<VBuf, BorrowedFd<'static>> as PollOpCode>::Control as Default>::default();
    unsafe { PollOpCode::init(&mut op, &mut c2) };
    let r0: isize = kani::any();
    kani::assume(r0 >= 0 && r0 <= 8);
    unsafe { RET = r0 };
    let r = PollOpCode::operate(&mut op, &mut c2);
    let (kind, cfd, coff, n, v) = unsafe { VCALL }.expect("polling driver issued no syscall");
    assert!(sqe.opcode == IORING_OP_READV && kind == 5);
    assert!(sqe.fd == raw && cfd == raw && sqe.off == off && coff as u64 == off);
    assert!(sqe.len == 2 && n == 2, "number of iovecs");
    let iov = unsafe { std::slice::from_raw_parts(sqe.addr as *const IoVec, 2) };
    assert!(iov[0].base == v[0].0 && iov[0].len == v[0].1 && iov[1].base == v[1].0 && iov[1].len == v[1].1,
            "the two drivers pass different iovecs");
    assert!(v[0] == (abase, 4) && v[1] == (bbase, 4), "iovecs are not the members' full capacity from their start");
    match r {
        Poll::Ready(Ok(n)) => assert!(n as isize == r0),
        _ => unreachable!(),
    }
    kani::cover!(off > 0 && r0 == 5);
    std::mem::forget(op);
    std::mem::forget(c1);
    std::mem::forget(c2);
}

#[kani::proof]
#[kani::unwind(4)]
#[kani::stub(rustix::backend::io::syscalls::pwritev, stub_pwritev)]
// bound: WriteVectoredAt<[Vec<u8>;2], BorrowedFd>, two heap members of capacity 4 with symbolic lengths
// stubs: rustix::backend::io::syscalls::pwritev = recording stub
// claim: io_uring's WRITEV entry and the polling driver's pwritev get the same two (base, len) pairs at the same offset: exactly each member's initialized bytes, never spare capacity
pub fn c08_q_write_vectored_at() {
    let (fd, raw) = fd_any();
    let off: u64 = kani::any();
    kani::assume(off <= i64::MAX as u64);
    let (a, abase, alen) = vec_any();
    let (b, bbase, blen) = vec_any();
    let mut op = WriteVectoredAt::new(fd, off, [a, b]);
    let mut c1 = <<WriteVectoredAt<VBuf, BorrowedFd<'static>> as IourOpCode>::Control as Default>::default();
    unsafe { IourOpCode::init(&mut op, &mut c1) };
    let sqe = decode(IourOpCode::create_entry(&mut op, &mut c1));
    let mut c2 = <<WriteVectoredAt<VBuf, BorrowedFd<'static>> as PollOpCode>::Control as Default>::default();
    unsafe { PollOpCode::init(&mut op, &mut c2) };
    let r0: isize = kani::any();
    kani::assume(r0 >= 0 && r0 as usize <= alen + blen);
    unsafe { RET = r0 };
    let r = PollOpCode::operate(&mut op, &mut c2);
    let (kind, cfd, coff, n, v) = unsafe { VCALL }.expect("polling driver issued no syscall");
    assert!(sqe.opcode == IORING_OP_WRITEV && kind == 6);
    assert!(sqe.fd == raw && cfd == raw && sqe.off == off && coff as u64 == off);
    assert!(sqe.len == 2 && n == 2, "number of iovecs");
    let iov = unsafe { std::slice::from_raw_parts(sqe.addr as *const IoVec, 2) };
    assert!(iov[0].base == v[0].0 && iov[0].len == v[0].1 && iov[1].base == v[1].0 && iov[1].len == v[1].1,
            "the two drivers pass different iovecs");
    assert!(v[0].1 == alen && v[1].1 == blen, "an iovec is not exactly the member's initialized bytes");
    assert!((alen == 0 || v[0].0 == abase) && (blen == 0 || v[1].0 == bbase));
    match r {
        Poll::Ready(Ok(n)) => assert!(n as isize == r0),
        _ => unreachable!(),
    }
    kani::cover!(alen == 2 && blen == 3 && r0 == 4);
    std::mem::forget(op);
    std::mem::forget(c1);
    std::mem::forget(c2);
}

#[kani::proof]
#[kani::unwind(4)]
#[kani::stub(rustix::backend::io::syscalls::readv, stub_readv)]
// bound: ReadVectored<[Vec<u8>;2], BorrowedFd> (pipes, sockets, stdin), two heap members of capacity 4 with symbolic lengths
// stubs: rustix::backend::io::syscalls::readv = recording stub
// claim: io_uring's READV entry and the polling driver's readv get the same two (base, len) pairs: each member's whole capacity from its start
pub fn c08_q_read_vectored() {
    let (fd, raw) = fd_any();
    let (a, abase, _alen) = vec_any();
    let (b, bbase, _blen) = vec_any();
    let mut op = ReadVectored::new(fd, [a, b]);
    let mut c1 = <<ReadVectored<VBuf, BorrowedFd<'static>> as IourOpCode>::Control as Default>::default();
    unsafe { IourOpCode::init(&mut op, &mut c1) };
    let sqe = decode(IourOpCode::create_entry(&mut op, &mut c1));
    let mut c2 = <<ReadVectored<VBuf, BorrowedFd<'static>> as PollOpCode>::Control as Default>::default();
    unsafe { PollOpCode::init(&mut op, &mut c2) };
    let r0: isize = kani::any();
    kani::assume(r0 >= 0 && r0 <= 8);
    unsafe { RET = r0 };
    let r = PollOpCode::operate(&mut op, &mut c2);
    let (kind, cfd, _, n, v) = unsafe { VCALL }.expect("polling driver issued no syscall");
    assert!(sqe.opcode == IORING_OP_READV && kind == 7);
    assert!(sqe.fd == raw && cfd == raw);
    assert!(sqe.len == 2 && n == 2, "number of iovecs");
    let iov = unsafe { std::slice::from_raw_parts(sqe.addr as *const IoVec, 2) };
    assert!(iov[0].base == v[0].0 && iov[0].len == v[0].1 && iov[1].base == v[1].0 && iov[1].len == v[1].1,
            "the two drivers pass different iovecs");
    assert!(v[0] == (abase, 4) && v[1] == (bbase, 4), "iovecs are not the members' full capacity from their start");
    match r {
        Poll::Ready(Ok(n)) => assert!(n as isize == r0),
        _ => unreachable!(),
    }
    kani::cover!(r0 == 5);
    std::mem::forget(op);
    std::mem::forget(c1);
    std::mem::forget(c2);
}

#[kani::proof]
#[kani::unwind(4)]
#[kani::stub(rustix::backend::io::syscalls::writev, stub_writev)]
// bound: WriteVectored<[Vec<u8>;2], BorrowedFd>, two heap members of capacity 4 with symbolic lengths
// stubs: rustix::backend::io::syscalls::writev = recording stub
// claim: io_uring's WRITEV entry and the polling driver's writev get the same two (base, len) pairs: exactly each member's initialized bytes
pub fn c08_q_write_vectored() {
    let (fd, raw) = fd_any();
    let (a, abase, alen) = vec_any();
    let (b, bbase, blen) = vec_any();
    let mut op = WriteVectored::new(fd, [a, b]);
    let mut c1 = <<WriteVectored<VBuf, BorrowedFd<'static>> as IourOpCode>::Control as Default>::default();
    unsafe { IourOpCode::init(&mut op, &mut c1) };
    let sqe = decode(IourOpCode::create_entry(&mut op, &mut c1));
    let mut c2 = <<WriteVectored<VBuf, BorrowedFd<'static>> as PollOpCode>::Control as Default>::default();
    unsafe { PollOpCode::init(&mut op, &mut c2) };
    let r0: isize = kani::any();
    kani::assume(r0 >= 0 && r0 as usize <= alen + blen);
    unsafe { RET = r0 };
    let r = PollOpCode::operate(&mut op, &mut c2);
    let (kind, cfd, _, n, v) = unsafe { VCALL }.expect("polling driver issued no syscall");
    assert!(sqe.opcode == IORING_OP_WRITEV && kind == 8);
    assert!(sqe.fd == raw && cfd == raw);
    assert!(sqe.len == 2 && n == 2, "number of iovecs");
    let iov = unsafe { std::slice::from_raw_parts(sqe.addr as *const IoVec, 2) };
    assert!(iov[0].base == v[0].0 && iov[0].len == v[0].1 && iov[1].base == v[1].0 && iov[1].len == v[1].1,
            "the two drivers pass different iovecs");
    assert!(v[0].1 == alen && v[1].1 == blen, "an iovec is not exactly the member's initialized bytes");
    assert!((alen == 0 || v[0].0 == abase) && (blen == 0 || v[1].0 == bbase));
    match r {
        Poll::Ready(Ok(n)) => assert!(n as isize == r0),
        _ => unreachable!(),
    }
    kani::cover!(alen == 2 && blen == 3 && r0 == 4);
    std::mem::forget(op);
    std::mem::forget(c1);
    std::mem::forget(c2);
}
