//! C08 / C14 — both drivers ask the OS for the same thing.
//!
//! compio-driver is built with `io-uring` + `polling` (its fusion configuration).  The polling
//! driver's `operate` ends in rustix calls, which funnel into the private functions
//! `rustix::backend::{io,net}::syscalls::*`; those are replaced by recording stubs
//! (`#[kani::stub]`).  For the same op value: the io_uring SQE (decoded through the kernel ABI
//! layout) and the arguments of the syscall must agree, and both must equal the buffer contract
//! (C10): writes = exactly the initialized part, reads = the whole writable region.
#![cfg(kani)]
#![allow(clippy::all, static_mut_refs)]

use std::os::fd::BorrowedFd;
use std::task::Poll;

use compio_buf::*;
use compio_driver::op::*;
use compio_driver::{IourOpCode, OpEntry, PollOpCode};

/// Kernel ABI view of `struct io_uring_sqe` (first 48 bytes are what the ops here set).
#[repr(C)]
#[derive(Clone, Copy)]
pub struct Sqe {
    pub opcode: u8,
    pub flags: u8,
    pub ioprio: u16,
    pub fd: i32,
    pub off: u64,
    pub addr: u64,
    pub len: u32,
    pub rw_flags: u32,
    pub user_data: u64,
    pub buf_index: u16,
    pub personality: u16,
    pub splice_fd_in: i32,
    pub addr3: u64,
    pub _pad: u64,
}

pub const IORING_OP_READV: u8 = 1;
pub const IORING_OP_WRITEV: u8 = 2;
pub const IORING_OP_READ: u8 = 22;
pub const IORING_OP_WRITE: u8 = 23;

pub fn decode(e: OpEntry) -> Sqe {
    match e {
        OpEntry::Submission(s) => {
            assert!(std::mem::size_of::<io_uring::squeue::Entry>() == 64);
            unsafe { std::mem::transmute::<io_uring::squeue::Entry, Sqe>(s) }
        }
        _ => unreachable!("operation did not produce an SQE"),
    }
}

/// What the polling driver asked the syscall layer for.
#[derive(Clone, Copy, PartialEq, Eq, Debug)]
pub struct Call {
    pub kind: u8, // 1 pread 2 pwrite 3 read 4 write 5 preadv 6 pwritev 7 readv 8 writev
    pub fd: i32,
    pub ptr: usize,
    pub len: usize,
    pub off: i64,
}

pub static mut CALL: Option<Call> = None;
pub static mut RET: isize = 0;

pub fn fd_any() -> (BorrowedFd<'static>, i32) {
    let raw: i32 = kani::any();
    kani::assume(raw >= 0);
    (unsafe { BorrowedFd::borrow_raw(raw) }, raw)
}

mod file_ops;
pub mod socket_ops;
mod vectored_ops;
mod socket_vectored;
