//! Cross-thread half (`--features sync --cfg loom`, loom = /verif/shim/loom).
//!
//! Logical threads: T1 drops handle h1, T2 drops handle h2 (optional), TC is the task awaiting
//! close().  Every atomic / Arc-counter / waker-slot access of the *real* `fd.rs` code is a
//! preemption point of the shim; at each one the solver may run an enabled step of another
//! logical thread to completion (context-bounded interleaving, sequentially consistent).
use super::*;
use loom::sched;

static mut H2: Option<SharedFd<Fd>> = None;
// The closer future lives on the harness' stack; TC polls it through a one-method trait object
// (with -Z restrict-vtable the call has exactly one target).
trait PollMe {
    fn poll_me(&mut self, cx: &mut Context<'_>) -> Poll<Option<Fd>>;
}
impl<F: Future<Output = Option<Fd>>> PollMe for Pin<&mut F> {
    fn poll_me(&mut self, cx: &mut Context<'_>) -> Poll<Option<Fd>> {
        self.as_mut().poll(cx)
    }
}
static mut CLOSER: Option<*mut dyn PollMe> = None;
static mut SEEN: u32 = 0; // wake count observed by TC at its last poll
static mut RESOLVED: bool = false;
static mut LIVE: u32 = 0; // other handles still alive
static mut TC_IN_HOOK: bool = false;

fn poll_closer() {
    unsafe {
        let w = waker();
        let mut cx = Context::from_waker(&w);
        SEEN = wakes();
        if let Some(c) = CLOSER {
            match (*c).poll_me(&mut cx) {
                Poll::Ready(fd) => {
                    assert!(fd.is_some(), "registered closer must receive the descriptor");
                    assert!(closed() == 0, "descriptor dropped before delivery");
                    RESOLVED = true;
                    drop(fd);
                    assert!(closed() == 1);
                }
                Poll::Pending => {}
            }
        }
    }
}

/// An enabled step of another logical thread, chosen by the solver.
fn other_thread_step() {
    unsafe {
        let t2_enabled = H2.is_some();
        let tc_enabled = TC_IN_HOOK && !RESOLVED && wakes() > SEEN; // an executor polls a task after a wake-up
        if t2_enabled && (!tc_enabled || kani::any()) {
            let h = H2.take();
            drop(h);
            LIVE -= 1;
        } else if tc_enabled {
            poll_closer();
        }
    }
}

/// Everything happens in the harness' own frame (the closer future lives there).
macro_rules! run {
    ($two:expr, $tc_in_hook:expr) => {
        let two: bool = $two;
        let root = unsafe { SharedFd::<Fd>::new_unchecked(Fd(3)) };
        let h1 = root.clone();
        unsafe {
            LIVE = 1;
            if two {
                H2 = Some(root.clone());
                LIVE = 2;
            }
            TC_IN_HOOK = $tc_in_hook;
        }
        let mut closer = std::pin::pin!(root.take());
        let obj: &mut dyn PollMe = &mut closer;
        unsafe { CLOSER = Some(std::mem::transmute::<&mut dyn PollMe, *mut dyn PollMe>(obj)) };
        poll_closer();
        unsafe {
            assert!(!RESOLVED);
            sched::HOOK = Some(other_thread_step);
            sched::BUDGET = 1;
        }
        drop(h1); // T1, with one solver-chosen preemption inside
        unsafe {
            LIVE -= 1;
            sched::BUDGET = 0;
            // the remaining logical threads run to completion
            if H2.is_some() {
                let h = H2.take();
                drop(h);
                LIVE -= 1;
            }
            assert!(LIVE == 0);
            assert!(closed() == 0 || RESOLVED, "descriptor closed by a handle drop while a close() was pending");
        }
    };
}

#[kani::proof]
#[kani::unwind(4)]
// bound: 1 parked closer + 2 other handles dropped by two other logical threads, 1 solver-chosen preemption of the first dropper by the second at the atomic / Arc / waker-slot accesses of fd.rs, sequentially consistent
// claim: EXPECTED TO FAIL on the pinned tree (known finding F9): once every other handle has been released the closer has been woken after its last poll, i.e. close().await cannot park forever
pub fn c06_kf_sync_two_droppers() {
    run!(true, false);
    unsafe {
        if !RESOLVED && wakes() > SEEN {
            poll_closer();
        }
        kani::cover!(wakes() > 0);
        assert!(RESOLVED, "lost wake-up: every other handle released, closer parked with no wake-up pending");
        CLOSER = None;
    }
}

#[kani::proof]
#[kani::unwind(4)]
// bound: 1 parked closer + 1 other handle dropped by another logical thread; the closer task may run (when woken) at 1 solver-chosen point inside that drop
// claim: EXPECTED TO FAIL on the pinned tree (known finding F9): the drop wakes the closer before it releases its reference, the closer re-parks, nobody wakes it again
pub fn c06_kf_sync_wake_before_release() {
    run!(false, true);
    unsafe {
        if !RESOLVED && wakes() > SEEN {
            poll_closer();
        }
        kani::cover!(wakes() > 0);
        assert!(RESOLVED, "lost wake-up: every other handle released, closer parked with no wake-up pending");
        CLOSER = None;
    }
}

#[kani::proof]
#[kani::unwind(4)]
// bound: 1 parked closer + 1..=2 other handles, 1 solver-chosen preemption (second dropper or woken closer)
// claim: under every such interleaving the descriptor is never dropped while a handle is alive or before delivery, a closer that is polled once more completes, and the descriptor is closed exactly once
pub fn c06_q_sync_close_once() {
    run!(kani::any(), true);
    unsafe {
        if !RESOLVED {
            poll_closer();
        }
        assert!(RESOLVED, "close() does not complete although every handle is gone");
        assert!(closed() == 1, "descriptor closed != once");
        kani::cover!(wakes() > 0);
        CLOSER = None;
    }
}
