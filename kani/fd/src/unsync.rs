//! Single-threaded half: straight-line scenarios with solver-chosen shape (number of other
//! handles, where the closer is polled, whether a handle is re-cloned / closed a second time).
use super::*;
use std::pin::pin;

/// closer + 1..=2 other handles; handles released one by one, closer polled at solver-chosen points.
fn scenario(second_close: bool) {
    let root = unsafe { SharedFd::<Fd>::new_unchecked(Fd(7)) };
    let h1 = root.clone();
    let two: bool = kani::any();
    let h2 = if two { Some(root.clone()) } else { None };
    let mut closer = pin!(root.take());
    let w = waker();
    let mut cx = Context::from_waker(&w);
    // the closer registers first
    match closer.as_mut().poll(&mut cx) {
        Poll::Pending => {}
        Poll::Ready(_) => unreachable!("close completed while another handle is alive"),
    }
    let mut seen = wakes();
    // optionally h1 is re-cloned and the original dropped: net effect none
    let h1 = if kani::any() {
        let c = h1.clone();
        drop(h1);
        assert!(closed() == 0);
        if !two && kani::any() {
            // a spurious wake is allowed here, a completed close is not
            match closer.as_mut().poll(&mut cx) {
                Poll::Pending => {}
                Poll::Ready(_) => unreachable!("close completed while the clone is alive"),
            }
        }
        seen = wakes();
        c
    } else {
        h1
    };
    // first release
    if second_close && kani::any() {
        // released through a second close() instead of a plain drop
        let mut f2 = pin!(h1.take());
        match f2.as_mut().poll(&mut cx) {
            Poll::Ready(None) => {}
            Poll::Ready(Some(_)) => unreachable!("second close obtained the descriptor"),
            Poll::Pending => unreachable!("second close must not wait"),
        }
    } else {
        drop(h1);
    }
    assert!(closed() == 0, "descriptor closed while a close() is pending");
    if !two {
        assert!(wakes() > seen, "lost wake-up: last other handle released, closer not woken");
    }
    if kani::any() {
        match closer.as_mut().poll(&mut cx) {
            Poll::Pending => {
                assert!(two, "close still pending although every other handle is gone");
                seen = wakes();
            }
            Poll::Ready(fd) => {
                assert!(!two, "close completed while another handle was alive");
                assert!(fd.is_some() && closed() == 0);
                drop(fd);
                assert!(closed() == 1);
                kani::cover!(true);
                return;
            }
        }
    }
    if let Some(h2) = h2 {
        drop(h2);
        assert!(closed() == 0);
        assert!(wakes() > seen, "lost wake-up: last other handle released, closer not woken");
    }
    match closer.as_mut().poll(&mut cx) {
        Poll::Ready(Some(fd)) => {
            assert!(closed() == 0);
            drop(fd);
        }
        _ => unreachable!("close does not complete after every handle is gone"),
    }
    assert!(closed() == 1, "descriptor closed != once");
    kani::cover!(two);
}

#[kani::proof]
#[kani::unwind(4)]
// bound: 1 registered closer + 1..=2 other handles (optionally re-cloned), released in order with the closer polled at solver-chosen points; unsync build
// claim: descriptor dropped exactly once and only after every handle is gone; close resolves at the first poll after the last other handle dropped, never before; the closer's waker fires when the last other handle drops
pub fn c06_q_unsync_close() {
    scenario(false);
}

#[kani::proof]
#[kani::unwind(4)]
// bound: as above, the first release may be a second close() through that handle
// claim: a second close() neither obtains the descriptor nor waits, and when it releases the last other handle the first closer is woken
pub fn c06_q_unsync_second_close() {
    scenario(true);
}

#[kani::proof]
#[kani::unwind(4)]
// bound: try_unwrap on a handle with 0..=2 other live handles
// claim: try_unwrap yields the descriptor iff the handle is the only one; otherwise it gives the handle back and nothing is closed
pub fn c06_q_unsync_try_unwrap() {
    let root = unsafe { SharedFd::<Fd>::new_unchecked(Fd(1)) };
    let a = if kani::any() { Some(root.clone()) } else { None };
    let b = if kani::any() { Some(root.clone()) } else { None };
    let others = a.is_some() as usize + b.is_some() as usize;
    match root.try_unwrap() {
        Ok(fd) => {
            assert!(others == 0 && closed() == 0);
            drop(fd);
            assert!(closed() == 1);
        }
        Err(back) => {
            assert!(others > 0 && closed() == 0);
            drop(back);
            assert!(closed() == 0);
            drop(a);
            drop(b);
            assert!(closed() == 1, "last handle dropped but descriptor not closed");
        }
    }
    kani::cover!(others == 2);
    kani::cover!(others == 0);
}

#[kani::proof]
#[kani::unwind(4)]
// bound: 1 closer + 1..=2 other handles; the pending close future is polled again with a *different* waker (select/join/timeout combinators do that) before the last handle is released
// claim: the waker of the most recent poll is the one woken when the last other handle is released
pub fn c06_q_unsync_repoll_other_waker() {
    let root = unsafe { SharedFd::<Fd>::new_unchecked(Fd(9)) };
    let h1 = root.clone();
    let two: bool = kani::any();
    let h2 = if two { Some(root.clone()) } else { None };
    let mut closer = pin!(root.take());
    let w0 = waker_id(0);
    let w1 = waker_id(1);
    let mut cx0 = Context::from_waker(&w0);
    let mut cx1 = Context::from_waker(&w1);
    assert!(closer.as_mut().poll(&mut cx0).is_pending());
    if two {
        drop(h2);
    }
    // polled again by another task / with another waker
    assert!(closer.as_mut().poll(&mut cx1).is_pending());
    let before = wakes_by(1);
    drop(h1);
    assert!(wakes_by(1) > before, "the task that polled last was not woken (stale waker kept)");
    match closer.as_mut().poll(&mut cx1) {
        Poll::Ready(Some(fd)) => drop(fd),
        _ => unreachable!("close does not complete after every handle is gone"),
    }
    assert!(closed() == 1);
    kani::cover!(two);
    kani::cover!(!two);
}
