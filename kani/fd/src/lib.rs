//! C06 — SharedFd: the descriptor is closed exactly once, never while another handle is alive,
//! and an explicit close (take().await) completes as soon as every other handle is gone.
#![cfg(kani)]
#![allow(clippy::all)]

use std::cell::Cell;
use std::future::Future;
use std::pin::Pin;
use std::task::{Context, Poll, RawWaker, RawWakerVTable, Waker};

use compio_driver::SharedFd;

// ---- ghost state -----------------------------------------------------------------------------
static mut CLOSED: u32 = 0; // how many times the "descriptor" was closed (dropped)
static mut WAKES: u32 = 0; // how many times a closer's waker was invoked (any identity)
static mut WAKES_BY: [u32; 2] = [0, 0]; // per waker identity

/// Stand-in for an owned descriptor: counts its drops.
pub struct Fd(u32);
impl Drop for Fd {
    fn drop(&mut self) {
        unsafe { CLOSED += 1 };
    }
}

fn vt_clone(p: *const ()) -> RawWaker {
    RawWaker::new(p, &VT)
}
fn vt_wake(p: *const ()) {
    unsafe {
        WAKES += 1;
        WAKES_BY[(p as usize) & 1] += 1;
    }
}
fn vt_drop(_: *const ()) {}
static VT: RawWakerVTable = RawWakerVTable::new(vt_clone, vt_wake, vt_wake, vt_drop);
fn waker() -> Waker {
    waker_id(0)
}
/// a waker with identity 0 or 1 (different tasks / combinators polling the same close future)
fn waker_id(id: usize) -> Waker {
    unsafe { Waker::from_raw(RawWaker::new(id as *const (), &VT)) }
}
fn wakes_by(id: usize) -> u32 {
    unsafe { WAKES_BY[id] }
}

fn closed() -> u32 {
    unsafe { CLOSED }
}
fn wakes() -> u32 {
    unsafe { WAKES }
}

#[cfg(not(feature = "sync"))]
mod unsync;

#[cfg(feature = "sync")]
mod sync;
