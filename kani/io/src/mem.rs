//! C11: in-memory readers, writers and cursors (`&[u8]`, `[u8; N]`, `&mut [u8]`, `Cursor<_>`, `Vec<u8>`).
use super::*;
use arrayvec::ArrayVec;
use std::io::Cursor;

const M: usize = 4;

// Destinations of symbolic-size copies are tuples, not `[ArrayVec; 2]` (CBMC mis-models a
// symbolic-size memcpy into an array of inline structs; see DESIGN.md §4).
type D2 = (ArrayVec<u8, 2>, (ArrayVec<u8, 2>,));
fn dst2() -> D2 {
    (ArrayVec::new(), (ArrayVec::new(),))
}
fn d2_len(d: &D2) -> (usize, usize) {
    (d.0.len(), (d.1).0.len())
}
fn d2_at(d: &D2, i: usize) -> u8 {
    if i < 2 { d.0[i] } else { (d.1).0[i - 2] }
}

#[kani::proof]
#[kani::unwind(8)]
// bound: `&[u8]` of symbolic length <= 4 read into ArrayVec<u8,3> (symbolic initial length), twice
// claim: slice reader delivers min(len, cap) bytes from the front and advances; second read continues
pub fn c11_q_slice_read() {
    let data: [u8; M] = kani::any();
    let len: usize = kani::any();
    kani::assume(len <= M);
    let mut s: &[u8] = unsafe { std::slice::from_raw_parts(data.as_ptr(), len) };
    let BufResult(r1, d1) = block_on(s.read(ArrayVec::<u8, 3>::new()));
    let n1 = r1.unwrap_or_else(|_| unreachable!());
    assert!(n1 == len.min(3) && d1.len() == n1 && s.len() == len - n1);
    let BufResult(r2, d2) = block_on(s.read(ArrayVec::<u8, 3>::new()));
    let n2 = r2.unwrap_or_else(|_| unreachable!());
    assert!(n2 == (len - n1).min(3) && s.is_empty());
    let i: usize = kani::any();
    kani::assume(i < 3);
    if i < n1 {
        assert!(d1[i] == data[i]);
    }
    if i < n2 {
        assert!(d2[i] == data[n1 + i]);
    }
    kani::cover!(n1 == 3 && n2 == 1);
    kani::cover!(len == 0);
}

#[kani::proof]
#[kani::unwind(8)]
// bound: `&[u8]` of symbolic length <= 4 read_vectored into (ArrayVec<u8,2>, (ArrayVec<u8,2>,))
// claim: vectored slice reader fills members in order with min(len, 4) bytes
pub fn c11_q_slice_read_vectored() {
    let data: [u8; M] = kani::any();
    let len: usize = kani::any();
    kani::assume(len <= M);
    let mut s: &[u8] = unsafe { std::slice::from_raw_parts(data.as_ptr(), len) };
    let BufResult(r, d) = block_on(s.read_vectored(dst2()));
    let n = r.unwrap_or_else(|_| unreachable!());
    assert!(n == len && s.is_empty());
    assert!(d2_len(&d) == (n.min(2), n - n.min(2)));
    let i: usize = kani::any();
    kani::assume(i < 4);
    if i < n {
        assert!(d2_at(&d, i) == data[i]);
    }
    kani::cover!(n == 3);
}

#[kani::proof]
#[kani::unwind(8)]
// bound: [u8; 4] read_at at any u64 position into ArrayVec<u8,3>
// claim: positional array reader: min(len - min(pos,len), cap) bytes from pos; beyond the end = Ok(0), never a panic
pub fn c11_q_array_read_at() {
    let data: [u8; M] = kani::any();
    let pos: u64 = kani::any();
    let BufResult(r, d) = block_on(data.read_at(ArrayVec::<u8, 3>::new(), pos));
    let n = r.unwrap_or_else(|_| unreachable!());
    let p = if pos > M as u64 { M } else { pos as usize };
    assert!(n == (M - p).min(3) && d.len() == n);
    let i: usize = kani::any();
    kani::assume(i < 3);
    if i < n {
        assert!(d[i] == data[p + i]);
    }
    kani::cover!(pos > M as u64);
    kani::cover!(p == 2 && n == 2);
}

#[kani::proof]
#[kani::unwind(8)]
// bound: [u8; 4] read_vectored_at at any position 0..=4 (inside or at the end) into [ArrayVec<u8,2>; 2]
// claim: positional vectored array reader fills members in order from pos
pub fn c11_q_array_read_vectored_at_inside() {
    let data: [u8; M] = kani::any();
    let pos: u64 = kani::any();
    kani::assume(pos <= M as u64);
    let BufResult(r, d) = block_on(data.read_vectored_at(dst2(), pos));
    let n = r.unwrap_or_else(|_| unreachable!());
    let p = pos as usize;
    assert!(n == M - p);
    assert!(d2_len(&d) == (n.min(2), n - n.min(2)));
    let i: usize = kani::any();
    kani::assume(i < 4);
    if i < n {
        assert!(d2_at(&d, i) == data[p + i]);
    }
    kani::cover!(p == 1 && n == 3);
    kani::cover!(p == 4);
}

#[kani::proof]
#[kani::unwind(8)]
// bound: [u8; 4] / Cursor<[u8;4]> read_vectored at any u64 position (also beyond the end)
// claim: reading beyond the end is EOF (Ok(0)), never a panic — as read_at already behaves
pub fn c11_q_array_read_vectored_at_beyond() {
    let data: [u8; M] = kani::any();
    let pos: u64 = kani::any();
    kani::assume(pos > M as u64);
    if kani::any() {
        let BufResult(r, d) = block_on(data.read_vectored_at(dst2(), pos));
        let n = r.unwrap_or_else(|_| unreachable!());
        assert!(n == 0 && d2_len(&d) == (0, 0));
    } else {
        let mut c = Cursor::new(data);
        c.set_position(pos);
        let BufResult(r, d) = block_on(c.read_vectored(dst2()));
        let n = r.unwrap_or_else(|_| unreachable!());
        assert!(n == 0 && d2_len(&d) == (0, 0) && c.position() == pos);
    }
    kani::cover!(pos == M as u64 + 1);
}

#[kani::proof]
#[kani::unwind(8)]
// bound: Cursor<[u8;4]>, symbolic start position (any u64), two reads into ArrayVec<u8,3>
// claim: cursor reads continue where the previous one ended; position advances by the bytes delivered
pub fn c11_q_cursor_read() {
    let data: [u8; M] = kani::any();
    let pos: u64 = kani::any();
    let mut c = Cursor::new(data);
    c.set_position(pos);
    let p = if pos > M as u64 { M } else { pos as usize };
    let BufResult(r1, d1) = block_on(c.read(ArrayVec::<u8, 3>::new()));
    let n1 = r1.unwrap_or_else(|_| unreachable!());
    assert!(n1 == (M - p).min(3) && c.position() == pos + n1 as u64);
    let BufResult(r2, d2) = block_on(c.read(ArrayVec::<u8, 3>::new()));
    let n2 = r2.unwrap_or_else(|_| unreachable!());
    assert!(n2 == M - p - n1);
    let i: usize = kani::any();
    kani::assume(i < 3);
    if i < n1 {
        assert!(d1[i] == data[p + i]);
    }
    if i < n2 {
        assert!(d2[i] == data[p + n1 + i]);
    }
    kani::cover!(p == 0 && n2 == 1);
    kani::cover!(pos > 100);
}

fn payload3() -> (ArrayVec<u8, 3>, [u8; 3], usize) {
    let mut v = ArrayVec::<u8, 3>::new();
    let len: usize = kani::any();
    kani::assume(len <= 3);
    let c: [u8; 3] = kani::any();
    unsafe {
        std::ptr::copy_nonoverlapping(c.as_ptr(), v.as_mut_ptr(), 3);
        v.set_len(len);
    }
    (v, c, len)
}

fn vpayload2() -> ([ArrayVec<u8, 2>; 2], [u8; 4], usize, usize) {
    let mut a = ArrayVec::<u8, 2>::new();
    let mut b = ArrayVec::<u8, 2>::new();
    let (la, lb): (usize, usize) = kani::any();
    kani::assume(la <= 2 && lb <= 2);
    let c: [u8; 4] = kani::any();
    unsafe {
        std::ptr::copy_nonoverlapping(c.as_ptr(), a.as_mut_ptr(), 2);
        a.set_len(la);
        std::ptr::copy_nonoverlapping(c.as_ptr().add(2), b.as_mut_ptr(), 2);
        b.set_len(lb);
    }
    ([a, b], c, la, lb)
}

#[kani::proof]
#[kani::unwind(8)]
// bound: [u8; 4] write_at at any u64 position, payload ArrayVec<u8,3> symbolic length
// claim: positional array writer writes min(len, 4 - min(pos,4)) bytes at pos, rest untouched, never panics
pub fn c11_q_array_write_at() {
    let old: [u8; M] = kani::any();
    let mut a = old;
    let (p, c, len) = payload3();
    let pos: u64 = kani::any();
    let BufResult(r, _) = block_on(a.write_at(p, pos));
    let n = r.unwrap_or_else(|_| unreachable!());
    let q = if pos > M as u64 { M } else { pos as usize };
    assert!(n == len.min(M - q));
    let i: usize = kani::any();
    kani::assume(i < M);
    if i >= q && i < q + n {
        assert!(a[i] == c[i - q]);
    } else {
        assert!(a[i] == old[i], "byte outside the written range changed");
    }
    kani::cover!(q == 2 && len == 3);
    kani::cover!(pos > u32::MAX as u64);
}

#[kani::proof]
#[kani::unwind(8)]
// bound: [u8; 4] write_vectored_at at position <= 5, payload [ArrayVec<u8,2>; 2]
// claim: vectored positional array writer writes the concatenation at pos, truncated at the end
pub fn c11_q_array_write_vectored_at() {
    let old: [u8; M] = kani::any();
    let mut a = old;
    let (p, c, la, lb) = vpayload2();
    let pos: u64 = kani::any();
    kani::assume(pos <= 5);
    let BufResult(r, _) = block_on(a.write_vectored_at(p, pos));
    let n = r.unwrap_or_else(|_| unreachable!());
    let q = (pos as usize).min(M);
    let total = la + lb;
    assert!(n == total.min(M - q), "vectored write count");
    let i: usize = kani::any();
    kani::assume(i < M);
    if i >= q && i < q + n {
        let j = i - q;
        let want = if j < la { c[j] } else { c[2 + (j - la)] };
        assert!(a[i] == want);
    } else {
        assert!(a[i] == old[i]);
    }
    kani::cover!(q == 1 && la == 2 && lb == 2);
    kani::cover!(la == 0 && lb == 2);
}

#[kani::proof]
#[kani::unwind(8)]
// bound: `&mut [u8]` of symbolic length <= 4: write of ArrayVec<u8,3>, then write_vectored of [ArrayVec<u8,2>; 2]
// claim: slice writer copies to the front, shrinks, reports short counts when full
pub fn c11_q_mut_slice_write() {
    let mut store: [u8; M] = kani::any();
    let old = store;
    let len: usize = kani::any();
    kani::assume(len <= M);
    let mut s: &mut [u8] = unsafe { std::slice::from_raw_parts_mut(store.as_mut_ptr(), len) };
    let (p, c, pl) = payload3();
    let BufResult(r, _) = block_on(s.write(p));
    let n1 = r.unwrap_or_else(|_| unreachable!());
    assert!(n1 == pl.min(len) && s.len() == len - n1);
    let (vp, vc, la, lb) = vpayload2();
    let BufResult(r, _) = block_on(s.write_vectored(vp));
    let n2 = r.unwrap_or_else(|_| unreachable!());
    assert!(n2 == (la + lb).min(len - n1), "vectored slice write count");
    let i: usize = kani::any();
    kani::assume(i < M);
    if i < n1 {
        assert!(store[i] == c[i]);
    } else if i < n1 + n2 {
        let j = i - n1;
        let want = if j < la { vc[j] } else { vc[2 + (j - la)] };
        assert!(store[i] == want);
    } else {
        assert!(store[i] == old[i]);
    }
    kani::cover!(n1 == 1 && n2 == 3);
    kani::cover!(len == 0);
}

#[kani::proof]
#[kani::unwind(8)]
// bound: Cursor<[u8;4]> with symbolic u64 position: write of ArrayVec<u8,3> then read back through a second cursor
// claim: cursor writes land at the cursor position and advance it
pub fn c11_q_cursor_write() {
    let old: [u8; M] = kani::any();
    let mut c = Cursor::new(old);
    let pos: u64 = kani::any();
    c.set_position(pos);
    let (p, pc, len) = payload3();
    let BufResult(r, _) = block_on(c.write(p));
    let n = r.unwrap_or_else(|_| unreachable!());
    let q = if pos > M as u64 { M } else { pos as usize };
    assert!(n == len.min(M - q) && c.position() == pos + n as u64);
    let a = c.into_inner();
    let i: usize = kani::any();
    kani::assume(i < M);
    if i >= q && i < q + n {
        assert!(a[i] == pc[i - q]);
    } else {
        assert!(a[i] == old[i]);
    }
    kani::cover!(q == 3 && len == 2);
}

// ------------------------------------------------------------------ Vec<u8> as a writer
// Vec growth is expensive for CBMC: the destination gets a concrete spare capacity that covers
// every write of the harness, so no reallocation is *needed*; the reserve() calls are still
// executed with their real arguments (which is where the defects are).

fn vec_with(len_max: usize, cap: usize) -> (Vec<u8>, [u8; 4], usize) {
    let mut v: Vec<u8> = Vec::with_capacity(cap);
    let len: usize = kani::any();
    kani::assume(len <= len_max);
    let c: [u8; 4] = kani::any();
    unsafe {
        std::ptr::copy_nonoverlapping(c.as_ptr(), v.as_mut_ptr(), 4);
        v.set_len(len);
    }
    (v, c, len)
}

#[kani::proof]
#[kani::unwind(8)]
// bound: Vec<u8> (len <= 3, capacity 16) write_vectored of [ArrayVec<u8,2>; 2]
// claim: Vec writer appends the concatenation of the members; never panics
pub fn c11_q_vec_write_vectored() {
    let (mut v, c, l0) = vec_with(3, 16);
    let (p, pc, la, lb) = vpayload2();
    let BufResult(r, _) = block_on(v.write_vectored(p));
    let n = r.unwrap_or_else(|_| unreachable!());
    assert!(n == la + lb && v.len() == l0 + n);
    let i: usize = kani::any();
    kani::assume(i < 7);
    if i < l0 {
        assert!(v[i] == c[i], "existing content changed");
    } else if i < l0 + n {
        let j = i - l0;
        let want = if j < la { pc[j] } else { pc[2 + (j - la)] };
        assert!(v[i] == want);
    }
    kani::cover!(l0 == 3 && la + lb == 2);
    kani::cover!(l0 == 0 && la + lb == 4);
    std::mem::forget(v);
}

#[kani::proof]
#[kani::unwind(8)]
// bound: Vec<u8> (len <= 4, capacity 16) write_at of ArrayVec<u8,3> at position <= 6
// claim: Vec positional writer overwrites inside, extends at the end, zero-fills a gap
pub fn c11_q_vec_write_at() {
    let (mut v, c, l0) = vec_with(4, 16);
    let (p, pc, len) = payload3();
    let pos: u64 = kani::any();
    kani::assume(pos <= 6);
    let q = pos as usize;
    let BufResult(r, _) = block_on(v.write_at(p, pos));
    let n = r.unwrap_or_else(|_| unreachable!());
    assert!(n == len);
    let want_len = if len == 0 && q <= l0 { l0 } else { l0.max(q + len) };
    assert!(v.len() == want_len || (len == 0 && q > l0 && v.len() == q));
    let i: usize = kani::any();
    kani::assume(i < 9);
    if i < v.len() {
        if i >= q && i < q + len {
            assert!(v[i] == pc[i - q]);
        } else if i < l0 {
            assert!(v[i] == c[i]);
        } else {
            assert!(v[i] == 0, "gap not zero-filled");
        }
    }
    kani::cover!(q > l0 && len > 0);
    kani::cover!(q < l0 && q + len > l0);
    kani::cover!(q + len < l0);
    std::mem::forget(v);
}

#[kani::proof]
#[kani::unwind(8)]
// bound: Vec<u8> (len <= 4, capacity 16) write_vectored_at of [ArrayVec<u8,2>; 2] at position <= 6
// claim: Vec vectored positional writer == write_at of the concatenation; never panics
pub fn c11_t_vec_write_vectored_at() {
    let (mut v, c, l0) = vec_with(4, 16);
    let (p, pc, la, lb) = vpayload2();
    let pos: u64 = kani::any();
    kani::assume(pos <= 6);
    let q = pos as usize;
    let len = la + lb;
    let BufResult(r, _) = block_on(v.write_vectored_at(p, pos));
    let n = r.unwrap_or_else(|_| unreachable!());
    assert!(n == len);
    let i: usize = kani::any();
    kani::assume(i < 10);
    if i < v.len() {
        if i >= q && i < q + len {
            let j = i - q;
            let want = if j < la { pc[j] } else { pc[2 + (j - la)] };
            assert!(v[i] == want);
        } else if i < l0 {
            assert!(v[i] == c[i]);
        } else {
            assert!(v[i] == 0);
        }
    }
    assert!(v.len() >= l0 && (len == 0 || v.len() == l0.max(q + len)));
    kani::cover!(q + len < l0 && len > 0);
    kani::cover!(q > l0 && len == 4);
    std::mem::forget(v);
}
