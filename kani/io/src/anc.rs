//! C13 (ancillary): AncillaryBuilder / AncillaryIter round trip, BufferTooSmall exactly when the
//! space is insufficient, every data slice handed to a decoder lies inside the message.
use super::*;
use compio_io::ancillary::*;
use std::mem::MaybeUninit;

/// Address range of the control buffer currently iterated (for the in-bounds oracle).
static mut RANGE: (usize, usize) = (0, 0);

fn in_range(buf: &[u8]) -> bool {
    let (lo, hi) = unsafe { RANGE };
    let p = buf.as_ptr() as usize;
    p >= lo && p + buf.len() <= hi
}

/// A 4-byte payload type with a hand-written codec that *looks at the slice it is given*.
#[derive(Clone, Copy, PartialEq, Eq)]
pub struct W4(pub u32);

impl AncillaryData for W4 {
    const SIZE: usize = 4;
    fn encode(&self, buffer: &mut [MaybeUninit<u8>]) -> Result<(), CodecError> {
        assert!(buffer.len() == 4, "encode gets exactly SIZE bytes");
        let b = self.0.to_ne_bytes();
        buffer[0].write(b[0]);
        buffer[1].write(b[1]);
        buffer[2].write(b[2]);
        buffer[3].write(b[3]);
        Ok(())
    }
    fn decode(buffer: &[u8]) -> Result<Self, CodecError> {
        assert!(in_range(buffer), "data slice handed to decode leaves the control buffer");
        if buffer.len() < 4 {
            return Err(CodecError::BufferTooSmall);
        }
        Ok(W4(u32::from_ne_bytes([buffer[0], buffer[1], buffer[2], buffer[3]])))
    }
}

#[derive(Clone, Copy, PartialEq, Eq)]
pub struct W8(pub u64);

impl AncillaryData for W8 {
    const SIZE: usize = 8;
    fn encode(&self, buffer: &mut [MaybeUninit<u8>]) -> Result<(), CodecError> {
        assert!(buffer.len() == 8);
        let b = self.0.to_ne_bytes();
        let mut i = 0;
        while i < 8 {
            buffer[i].write(b[i]);
            i += 1;
        }
        Ok(())
    }
    fn decode(buffer: &[u8]) -> Result<Self, CodecError> {
        assert!(in_range(buffer), "data slice handed to decode leaves the control buffer");
        if buffer.len() < 8 {
            return Err(CodecError::BufferTooSmall);
        }
        let mut b = [0u8; 8];
        let mut i = 0;
        while i < 8 {
            b[i] = buffer[i];
            i += 1;
        }
        Ok(W8(u64::from_ne_bytes(b)))
    }
}

const S4: usize = ancillary_space::<W4>();
const S8: usize = ancillary_space::<W8>();
const HDR: usize = unsafe { libc::CMSG_LEN(0) } as usize;

fn is_too_small<T>(r: &Result<T, CodecError>) -> bool {
    matches!(r, Err(CodecError::BufferTooSmall))
}

/// push (W4, W8, W4) into AncillaryBuf<N>; iterate; compare.
fn roundtrip<const N: usize>() {
    let mut buf = AncillaryBuf::<N>::new();
    let (l1, t1, l2, t2, l3, t3): (i32, i32, i32, i32, i32, i32) = kani::any();
    let (v1, v2, v3): (u32, u64, u32) = kani::any();
    let mut pushed = 0usize;
    let mut used = 0usize;
    {
        let mut b = buf.builder();
        let r1 = b.push(l1, t1, &W4(v1));
        assert!(r1.is_ok() == (used + S4 <= N) && (r1.is_ok() || is_too_small(&r1)));
        if r1.is_ok() {
            pushed = 1;
            used += S4;
            let r2 = b.push(l2, t2, &W8(v2));
            assert!(r2.is_ok() == (used + S8 <= N) && (r2.is_ok() || is_too_small(&r2)));
            if r2.is_ok() {
                pushed = 2;
                used += S8;
                let r3 = b.push(l3, t3, &W4(v3));
                assert!(r3.is_ok() == (used + S4 <= N) && (r3.is_ok() || is_too_small(&r3)));
                if r3.is_ok() {
                    pushed = 3;
                    used += S4;
                }
                std::mem::forget(r3);
            }
            std::mem::forget(r2);
        }
        std::mem::forget(r1);
    }
    assert!(buf.len() == used, "control length != sum of CMSG_SPACE of the pushed messages");
    assert!(buf.len() <= N, "control length exceeds the buffer");
    kani::cover!(v1 != 0 && l1 != l2);
    if pushed == 0 {
        let fits0 = if S4 <= N { 1 } else { 0 };
        assert!(fits0 == 0, "message that fits was rejected");
        return;
    }
    let bytes: &[u8] = &buf;
    unsafe {
        RANGE = (bytes.as_ptr() as usize, bytes.as_ptr() as usize + bytes.len());
    }
    let mut it = unsafe { AncillaryIter::new(bytes) };
    let m1 = match it.next() {
        Some(m) => m,
        None => unreachable!("first message lost"),
    };
    assert!(m1.level() == l1 && m1.ty() == t1 && m1.len() == HDR + 4);
    match m1.data::<W4>() {
        Ok(w) => assert!(w.0 == v1),
        Err(_) => unreachable!(),
    }
    if pushed >= 2 {
        let m2 = match it.next() {
            Some(m) => m,
            None => unreachable!("second message lost"),
        };
        assert!(m2.level() == l2 && m2.ty() == t2 && m2.len() == HDR + 8);
        match m2.data::<W8>() {
            Ok(w) => assert!(w.0 == v2),
            Err(_) => unreachable!(),
        }
    }
    if pushed >= 3 {
        let m3 = match it.next() {
            Some(m) => m,
            None => unreachable!("third message lost"),
        };
        assert!(m3.level() == l3 && m3.ty() == t3 && m3.len() == HDR + 4);
        match m3.data::<W4>() {
            Ok(w) => assert!(w.0 == v3),
            Err(_) => unreachable!(),
        }
    }
    assert!(it.next().is_none(), "phantom message after the last one");
    // exactly the number of messages the buffer has room for
    let fits = if S4 + S8 + S4 <= N { 3 } else if S4 + S8 <= N { 2 } else if S4 <= N { 1 } else { 0 };
    assert!(pushed == fits);
}

#[kani::proof]
#[kani::unwind(82)]
// bound: AncillaryBuf<CMSG_SPACE(4)>: room for exactly one 4-byte message; symbolic level/type/value
// claim: push/iterate round trip; BufferTooSmall for the second message; decode's slice stays inside the buffer
pub fn c13_q_anc_one() {
    roundtrip::<{ S4 }>();
}

#[kani::proof]
#[kani::unwind(82)]
// bound: AncillaryBuf<CMSG_SPACE(4)+CMSG_SPACE(8)+8>: two messages fit, third does not
pub fn c13_q_anc_two() {
    roundtrip::<{ S4 + S8 + 8 }>();
}

#[kani::proof]
#[kani::unwind(82)]
// bound: AncillaryBuf<2*CMSG_SPACE(4)+CMSG_SPACE(8)>: exactly three messages
pub fn c13_q_anc_three() {
    roundtrip::<{ S4 + S8 + S4 }>();
}

#[kani::proof]
#[kani::unwind(82)]
// bound: AncillaryBuf<20>: at least CMSG_LEN(4) but less than CMSG_SPACE(4) bytes -- not a multiple of the cmsg alignment
// claim: a message whose CMSG_SPACE does not fit is rejected with BufferTooSmall; the control length never exceeds the buffer
pub fn c13_q_anc_unaligned_small() {
    roundtrip::<20>();
}

#[kani::proof]
#[kani::unwind(82)]
// bound: AncillaryBuf<CMSG_SPACE(4)+CMSG_SPACE(8)+20>: two messages fit, the third fits by CMSG_LEN but not by CMSG_SPACE
pub fn c13_q_anc_unaligned_third() {
    roundtrip::<{ S4 + S8 + 20 }>();
}

#[kani::proof]
#[kani::unwind(82)]
// bound: libc::in_pktinfo and libc::in6_pktinfo with symbolic fields through AncillaryBuf of exactly their combined space
// claim: the built-in payload codecs round-trip field by field
pub fn c13_q_anc_pktinfo() {
    const A: usize = ancillary_space::<libc::in_pktinfo>();
    const B: usize = ancillary_space::<libc::in6_pktinfo>();
    let mut buf = AncillaryBuf::<{ A + B }>::new();
    let (ifi, spec, addr, ifi6): (i32, u32, u32, u32) = kani::any();
    let a6: [u8; 16] = kani::any();
    let p4 = libc::in_pktinfo {
        ipi_ifindex: ifi,
        ipi_spec_dst: libc::in_addr { s_addr: spec },
        ipi_addr: libc::in_addr { s_addr: addr },
    };
    let p6 = libc::in6_pktinfo { ipi6_addr: libc::in6_addr { s6_addr: a6 }, ipi6_ifindex: ifi6 };
    {
        let mut b = buf.builder();
        assert!(b.push(libc::IPPROTO_IP, libc::IP_PKTINFO, &p4).is_ok());
        assert!(b.push(libc::IPPROTO_IPV6, libc::IPV6_PKTINFO, &p6).is_ok());
    }
    assert!(buf.len() == A + B);
    let mut it = unsafe { AncillaryIter::new(&buf) };
    let m = it.next().unwrap();
    assert!(m.level() == libc::IPPROTO_IP && m.ty() == libc::IP_PKTINFO);
    let d: libc::in_pktinfo = match m.data() {
        Ok(d) => d,
        Err(_) => unreachable!(),
    };
    assert!(d.ipi_ifindex == ifi && d.ipi_spec_dst.s_addr == spec && d.ipi_addr.s_addr == addr);
    let m = it.next().unwrap();
    assert!(m.level() == libc::IPPROTO_IPV6 && m.ty() == libc::IPV6_PKTINFO);
    let d: libc::in6_pktinfo = match m.data() {
        Ok(d) => d,
        Err(_) => unreachable!(),
    };
    let k: usize = kani::any();
    kani::assume(k < 16);
    assert!(d.ipi6_ifindex == ifi6 && d.ipi6_addr.s6_addr[k] == a6[k]);
    assert!(it.next().is_none());
    kani::cover!(ifi != 0 && ifi6 != 0);
}
