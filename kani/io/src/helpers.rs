//! C11: helper algorithms (exact / vectored-exact reads, write-all, take, copy, split, append,
//! scalars) against the chunking/faulting model streams, differential against the obvious reference.
use super::*;
use arrayvec::ArrayVec;
use std::io::ErrorKind;

pub const D: usize = 4;

fn vec_dst() -> Vec<u8> {
    let mut v: Vec<u8> = Vec::with_capacity(D);
    kani::assume(v.capacity() == D);
    let len: usize = kani::any();
    kani::assume(len <= D);
    let c: [u8; D] = kani::any();
    unsafe {
        std::ptr::copy_nonoverlapping(c.as_ptr(), v.as_mut_ptr(), D);
        v.set_len(len);
    }
    v
}

fn av_dst() -> ArrayVec<u8, D> {
    let mut v = ArrayVec::<u8, D>::new();
    let len: usize = kani::any();
    kani::assume(len <= D);
    let c: [u8; D] = kani::any();
    unsafe {
        std::ptr::copy_nonoverlapping(c.as_ptr(), v.as_mut_ptr(), D);
        v.set_len(len);
    }
    v
}

/// payload buffer with symbolic length and content
fn av_payload() -> (ArrayVec<u8, D>, [u8; D], usize) {
    let mut v = ArrayVec::<u8, D>::new();
    let len: usize = kani::any();
    kani::assume(len <= D);
    let c: [u8; D] = kani::any();
    unsafe {
        std::ptr::copy_nonoverlapping(c.as_ptr(), v.as_mut_ptr(), D);
        v.set_len(len);
    }
    (v, c, len)
}

// ------------------------------------------------------------------ read_exact

fn read_exact_g<B: IoBufMut>(dst: B, intr: u8, hard: u8) {
    let mut src = Src::any(intr, hard);
    let BufResult(res, dst) = block_on(src.read_exact(dst));
    assert!(src.pos <= D, "read more than needed to fill the buffer");
    match res {
        Ok(()) => {
            assert!(!src.faults.hard_fired.get(), "hard error swallowed");
            assert!(src.pos == D, "bytes consumed != bytes delivered");
            let d = dst.as_init();
            assert!(d.len() == D);
            let i: usize = kani::any();
            kani::assume(i < D);
            assert!(d[i] == src.data[i], "delivered byte differs / misplaced");
            kani::cover!(src.calls >= 3 && src.faults.intr_fired.get() >= 1);
            kani::cover!(src.calls == 1);
        }
        Err(e) => {
            let k = kind_of(e);
            if src.faults.hard_fired.get() {
                assert!(k == HARD, "injected error must surface unchanged");
                kani::cover!(src.pos > 0);
            } else {
                assert!(k == ErrorKind::UnexpectedEof);
                assert!(src.len < D && src.pos == src.len);
                kani::cover!(src.len > 0);
            }
        }
    }
    std::mem::forget(dst);
}

#[kani::proof]
#[kani::unwind(8)]
// bound: source <= 6 symbolic bytes in solver-chosen chunks, <= 1 Interrupted + <= 1 hard error at solver-chosen calls; dst [u8; 4]
// claim: read_exact == reference: Ok iff >= 4 bytes available, dst == first 4 source bytes in order, nothing skipped; UnexpectedEof / injected error otherwise
pub fn c11_q_read_exact_array() {
    read_exact_g::<[u8; D]>(kani::any(), 1, 1);
}

#[kani::proof]
#[kani::unwind(8)]
// bound: as above, dst Vec<u8> capacity 4 with symbolic initial length/content (overwritten from the start)
pub fn c11_q_read_exact_vec() {
    read_exact_g(vec_dst(), 1, 1);
}

#[kani::proof]
#[kani::unwind(8)]
// bound: as above with 2 Interrupted faults, dst ArrayVec<u8,4> symbolic initial length
pub fn c11_t_read_exact_arrayvec_2intr() {
    read_exact_g(av_dst(), 2, 1);
}

// ------------------------------------------------------------------ read_exact_at

fn read_exact_at_g<B: IoBufMut>(dst: B, intr: u8, hard: u8) {
    let src = SrcAt::any(intr, hard);
    let pos: u64 = kani::any();
    let BufResult(res, dst) = block_on(src.read_exact_at(dst, pos));
    let start = if pos > src.len as u64 { src.len } else { pos as usize };
    match res {
        Ok(()) => {
            assert!(!src.faults.hard_fired.get());
            assert!(src.len - start >= D);
            assert!(src.max_end.get() == start + D, "read beyond what was needed");
            let d = dst.as_init();
            assert!(d.len() == D);
            let i: usize = kani::any();
            kani::assume(i < D);
            assert!(d[i] == src.data[start + i]);
            kani::cover!(start > 0 && src.faults.intr_fired.get() >= 1);
        }
        Err(e) => {
            let k = kind_of(e);
            if src.faults.hard_fired.get() {
                assert!(k == HARD);
            } else {
                assert!(k == ErrorKind::UnexpectedEof && src.len - start < D);
                kani::cover!(pos > N as u64);
                kani::cover!(start < src.len);
            }
        }
    }
    std::mem::forget(dst);
}

#[kani::proof]
#[kani::unwind(8)]
// bound: positional source <= 6 bytes, any u64 start position, chunked, <= 1 Interrupted + <= 1 hard error; dst [u8; 4]
// claim: read_exact_at == reference at every position incl. beyond the end
pub fn c11_q_read_exact_at_array() {
    read_exact_at_g::<[u8; D]>(kani::any(), 1, 1);
}

#[kani::proof]
#[kani::unwind(8)]
// bound: as above, dst Vec<u8> capacity 4 symbolic initial length
pub fn c11_t_read_exact_at_vec() {
    read_exact_at_g(vec_dst(), 1, 1);
}

// ------------------------------------------------------------------ vectored exact reads

// NOTE: destinations of symbolic-size copies are tuples (or arrays of heap Vecs), never
// `[ArrayVec; 2]`: CBMC mis-models a symbolic-size memcpy into an array of inline structs
// (spurious counterexample that does not replay natively; see DESIGN.md §4).
type VDst = (ArrayVec<u8, 2>, (ArrayVec<u8, 1>,));
const VT: usize = 3;

fn vdst() -> VDst {
    (ArrayVec::new(), (ArrayVec::new(),))
}

fn check_vdst(d: &VDst, data: &[u8; N], start: usize) {
    assert!(d.0.len() == 2 && (d.1).0.len() == 1, "members not completely filled");
    let i: usize = kani::any();
    kani::assume(i < VT);
    let b = if i < 2 { d.0[i] } else { (d.1).0[i - 2] };
    assert!(b == data[start + i], "vectored byte misplaced");
}



// ------------------------------------------------------------------ default read_vectored / write_vectored

#[kani::proof]
#[kani::unwind(8)]
// bound: one default read_vectored call into ([u8;0], (ArrayVec<u8,2>, (ArrayVec<u8,2>,))); source <= 6 bytes
// claim: the default read_vectored reads into the first member with non-zero capacity only
pub fn c11_q_read_vectored_default() {
    let mut src = Src::any(0, 0);
    let dst: ([u8; 0], (ArrayVec<u8, 2>, (ArrayVec<u8, 2>,))) = ([], (ArrayVec::new(), (ArrayVec::new(),)));
    let BufResult(res, dst) = block_on(src.read_vectored(dst));
    let n = match res {
        Ok(n) => n,
        Err(_) => unreachable!("no faults injected"),
    };
    assert!(n == src.pos && n <= 2);
    assert!((dst.1).0.len() == n && ((dst.1).1).0.len() == 0);
    if n > 0 {
        assert!((dst.1).0[0] == src.data[0]);
    }
    kani::cover!(n == 2);
    kani::cover!(n == 0);
}

#[kani::proof]
#[kani::unwind(8)]
// bound: one default write_vectored call from [ArrayVec<u8,2>; 2] with symbolic member lengths; sink limit symbolic
// claim: the default write_vectored writes (part of) the first non-empty member only
pub fn c11_q_write_vectored_default() {
    let mut sink = Sink::any(0, 0);
    let mut a = ArrayVec::<u8, 2>::new();
    let mut b = ArrayVec::<u8, 2>::new();
    let (la, lb): (usize, usize) = kani::any();
    kani::assume(la <= 2 && lb <= 2);
    let c: [u8; 4] = kani::any();
    unsafe {
        std::ptr::copy_nonoverlapping(c.as_ptr(), a.as_mut_ptr(), 2);
        a.set_len(la);
        std::ptr::copy_nonoverlapping(c.as_ptr().add(2), b.as_mut_ptr(), 2);
        b.set_len(lb);
    }
    let BufResult(res, back) = block_on(sink.write_vectored([a, b]));
    let n = match res {
        Ok(n) => n,
        Err(_) => unreachable!(),
    };
    assert!(back[0].len() == la && back[1].len() == lb);
    assert!(n == sink.len);
    let first = if la > 0 { 0 } else { 2 };
    let flen = if la > 0 { la } else { lb };
    assert!(n <= flen);
    if n > 0 {
        assert!(sink.data[0] == c[first]);
        if n > 1 {
            assert!(sink.data[1] == c[first + 1]);
        }
    } else {
        assert!(flen == 0 || sink.limit == 0);
    }
    kani::cover!(la == 0 && n == 2);
    kani::cover!(la == 2 && n == 1);
}

// ------------------------------------------------------------------ write_all

#[kani::proof]
#[kani::unwind(8)]
// bound: payload ArrayVec<u8,4> symbolic length/content; sink accepts solver-chosen short writes, symbolic total capacity <= 8, <= 1 Interrupted + <= 1 hard error
// claim: write_all == reference: Ok iff everything fits, sink holds exactly the payload in order; WriteZero when the sink stops accepting; injected error surfaces
pub fn c11_q_write_all() {
    let mut sink = Sink::any(1, 1);
    let (payload, c, len) = av_payload();
    let BufResult(res, back) = block_on(sink.write_all(payload));
    assert!(back.len() == len, "payload buffer changed");
    assert!(sink.len <= len, "wrote more than the payload");
    let i: usize = kani::any();
    kani::assume(i < D);
    if i < sink.len {
        assert!(sink.data[i] == c[i], "byte lost, duplicated or reordered");
    }
    match res {
        Ok(()) => {
            assert!(!sink.faults.hard_fired.get() && sink.len == len);
            kani::cover!(len == 4 && sink.faults.intr_fired.get() == 1);
        }
        Err(e) => {
            let k = kind_of(e);
            if sink.faults.hard_fired.get() {
                assert!(k == HARD);
            } else {
                assert!(k == ErrorKind::WriteZero && sink.limit < len && sink.len == sink.limit);
                kani::cover!(sink.len > 0);
            }
        }
    }
}

#[kani::proof]
#[kani::unwind(10)]
// bound: payload ArrayVec<u8,4>; positional sink (symbolic capacity <= 8), start position <= 3, short writes, <= 1 Interrupted
// claim: write_all_at writes payload[i] at pos+i, nothing outside [pos, pos+len)
pub fn c11_q_write_all_at() {
    let mut sink = SinkAt::any(1, 0);
    let (payload, c, len) = av_payload();
    let pos: u64 = kani::any();
    kani::assume(pos <= 3);
    let BufResult(res, _back) = block_on(sink.write_all_at(payload, pos));
    let p = pos as usize;
    let i: usize = kani::any();
    kani::assume(i < SINK);
    if sink.written[i] {
        assert!(i >= p && i < p + len, "wrote outside the target range");
        assert!(sink.data[i] == c[i - p], "byte misplaced");
    }
    match res {
        Ok(()) => {
            if i >= p && i < p + len {
                assert!(sink.written[i], "byte not written");
            }
            kani::cover!(len == 4 && p == 2 && sink.faults.intr_fired.get() == 1);
        }
        Err(e) => {
            assert!(kind_of(e) == ErrorKind::WriteZero && sink.limit < p + len);
            kani::cover!(sink.limit > p);
        }
    }
}

fn vpayload() -> ((ArrayVec<u8, 2>, (ArrayVec<u8, 2>,)), [u8; 4], usize, usize) {
    let mut a = ArrayVec::<u8, 2>::new();
    let mut b = ArrayVec::<u8, 2>::new();
    let (la, lb): (usize, usize) = kani::any();
    kani::assume(la <= 2 && lb <= 2);
    let c: [u8; 4] = kani::any();
    unsafe {
        std::ptr::copy_nonoverlapping(c.as_ptr(), a.as_mut_ptr(), 2);
        a.set_len(la);
        std::ptr::copy_nonoverlapping(c.as_ptr().add(2), b.as_mut_ptr(), 2);
        b.set_len(lb);
    }
    ((a, (b,)), c, la, lb)
}




// ------------------------------------------------------------------ loop bodies as inductive steps
// The complete read_vectored_exact / write_vectored_all loops run CBMC out of memory (measured:
// > 16 GB even for 3 bytes without faults).  Their loop *bodies* are checked instead, from an
// arbitrary intermediate state: `read` / `needle` bytes already transferred.

#[kani::proof]
#[kani::unwind(6)]
// bound: one iteration of read_vectored_exact's loop from an arbitrary intermediate state: dst (ArrayVec<u8,2>, (ArrayVec<u8,2>,)) with `read` <= 4 bytes already filled, one read_vectored(buf.slice_mut(read)) from a chunking source
// claim: the step appends exactly the next n source bytes after the bytes already read (crossing member boundaries correctly) and leaves them untouched
pub fn c11_q_read_vectored_exact_step() {
    let read: usize = kani::any();
    kani::assume(read <= 4);
    let old: [u8; 4] = kani::any();
    let mut a = ArrayVec::<u8, 2>::new();
    let mut b = ArrayVec::<u8, 2>::new();
    unsafe {
        std::ptr::copy_nonoverlapping(old.as_ptr(), a.as_mut_ptr(), 2);
        a.set_len(read.min(2));
        std::ptr::copy_nonoverlapping(old.as_ptr().add(2), b.as_mut_ptr(), 2);
        b.set_len(read - read.min(2));
    }
    let mut src = Src::any(0, 0);
    kani::assume(src.len >= read);
    src.pos = read;
    let BufResult(res, v) = block_on(src.read_vectored((a, (b,)).slice_mut(read)));
    let n = match res {
        Ok(n) => n,
        Err(_) => unreachable!(),
    };
    let dst = v.into_inner();
    let t = read + n;
    assert!(src.pos == t && t <= 4);
    assert!(dst.0.len() == t.min(2) && (dst.1).0.len() == t - t.min(2), "member lengths after the step");
    let i: usize = kani::any();
    kani::assume(i < 4);
    if i < t {
        let got = if i < 2 { dst.0[i] } else { (dst.1).0[i - 2] };
        if i < read {
            assert!(got == old[i], "bytes read earlier were overwritten");
        } else {
            assert!(got == src.data[i], "new byte misplaced");
        }
    }
    if read < 4 && src.len > read {
        assert!(n >= 1, "no progress although data and space are available");
    }
    kani::cover!(read == 1 && n == 1);
    kani::cover!(read == 2 && n == 2);
    kani::cover!(read == 4 && n == 0);
}

#[kani::proof]
#[kani::unwind(6)]
// bound: one iteration of write_vectored_all's loop: payload (ArrayVec<u8,2>, (ArrayVec<u8,2>,)) symbolic member lengths, `needle` bytes already written, one write_vectored(buf.slice(needle)) into a chunking sink
// claim: the step writes bytes needle..needle+n of the concatenation, in order, and makes progress when possible
pub fn c11_q_write_vectored_all_step() {
    let (payload, c, la, lb) = vpayload();
    let total = la + lb;
    let needle: usize = kani::any();
    kani::assume(needle <= total);
    let mut sink = Sink::any(0, 0);
    let BufResult(res, v) = block_on(sink.write_vectored(payload.slice(needle)));
    let n = match res {
        Ok(n) => n,
        Err(_) => unreachable!(),
    };
    let back = v.into_inner();
    assert!(back.0.len() == la && (back.1).0.len() == lb);
    assert!(n == sink.len && needle + n <= total);
    let i: usize = kani::any();
    kani::assume(i < 4);
    if i < n {
        let j = needle + i;
        let want = if j < la { c[j] } else { c[2 + (j - la)] };
        assert!(sink.data[i] == want, "wrong byte sent");
    }
    if needle < total && sink.limit > 0 {
        assert!(n >= 1, "no progress");
    }
    kani::cover!(needle == 1 && la == 2 && n == 1);
    kani::cover!(needle == la && lb == 2 && n == 2 && la > 0);
}

// ------------------------------------------------------------------ take / append / scalars

#[kani::proof]
#[kani::unwind(8)]
// bound: Take over a chunking source (<= 6 bytes), symbolic u64 limit, two reads into [u8; 4] / [u8; 2]
// claim: Take never delivers more than `limit` bytes in total, delivers the source prefix, and reports EOF afterwards
pub fn c11_q_take() {
    let src = Src::any(0, 0);
    let limit: u64 = kani::any();
    let mut t = src.take(limit);
    let BufResult(r1, d1) = block_on(t.read([0u8; 4]));
    let n1 = match r1 {
        Ok(n) => n,
        Err(_) => unreachable!(),
    };
    assert!(n1 as u64 <= limit && n1 <= 4);
    assert!(t.limit() == limit - n1 as u64);
    let BufResult(r2, d2) = block_on(t.read([0u8; 2]));
    let n2 = match r2 {
        Ok(n) => n,
        Err(_) => unreachable!(),
    };
    assert!((n1 + n2) as u64 <= limit, "limit exceeded");
    assert!(t.limit() == limit - (n1 + n2) as u64);
    let src = t.into_inner();
    assert!(src.pos == n1 + n2, "bytes consumed != bytes delivered");
    let i: usize = kani::any();
    kani::assume(i < 4);
    if i < n1 {
        assert!(d1[i] == src.data[i]);
    }
    if i < n2 {
        assert!(d2[i] == src.data[n1 + i]);
    }
    if limit as usize as u64 == limit && (limit as usize) <= n1 {
        assert!(n2 == 0);
    }
    kani::cover!(limit == 3 && n1 == 2 && n2 == 1);
    kani::cover!(limit == 0);
    kani::cover!(limit > u32::MAX as u64 && n1 == 4);
}

#[kani::proof]
#[kani::unwind(8)]
// bound: append into ArrayVec<u8,4> with symbolic initial length; chunking source
// claim: append keeps existing content and adds the delivered bytes right after it
pub fn c11_q_append() {
    let mut src = Src::any(0, 1);
    let dst = av_dst();
    let l0 = dst.len();
    let old: [u8; D] = {
        let mut o = [0u8; D];
        let mut i = 0;
        while i < D {
            if i < l0 {
                o[i] = dst[i];
            }
            i += 1;
        }
        o
    };
    let BufResult(res, dst) = block_on(src.append(dst));
    match res {
        Ok(n) => {
            assert!(n == src.pos && dst.len() == l0 + n);
            let i: usize = kani::any();
            kani::assume(i < D);
            if i < l0 {
                assert!(dst[i] == old[i], "existing content overwritten");
            } else if i < l0 + n {
                assert!(dst[i] == src.data[i - l0]);
            }
            kani::cover!(l0 == 1 && n == 2);
            kani::cover!(l0 == 4 && n == 0);
        }
        Err(e) => {
            assert!(kind_of(e) == HARD && dst.len() == l0);
        }
    }
}

#[kani::proof]
#[kani::unwind(8)]
// bound: read_u16 then read_u32_le over a chunking source with <= 1 Interrupted
// claim: scalar readers assemble exactly the next bytes in the stated endianness
pub fn c11_t_read_scalars() {
    let mut src = Src::any(1, 0);
    kani::assume(src.len == N);
    let a = match block_on(src.read_u16()) {
        Ok(v) => v,
        Err(_) => unreachable!(),
    };
    assert!(a == u16::from_be_bytes([src.data[0], src.data[1]]));
    let b = match block_on(src.read_u32_le()) {
        Ok(v) => v,
        Err(_) => unreachable!(),
    };
    assert!(b == u32::from_le_bytes([src.data[2], src.data[3], src.data[4], src.data[5]]));
    assert!(src.pos == 6);
    kani::cover!(src.calls >= 5);
}

#[kani::proof]
#[kani::unwind(8)]
// bound: write_u16_le then write_u32 into a chunking sink with <= 1 Interrupted
pub fn c11_t_write_scalars() {
    let mut sink = Sink::unlimited(1, 0);
    let (a, b): (u16, u32) = kani::any();
    if block_on(sink.write_u16_le(a)).is_err() || block_on(sink.write_u32(b)).is_err() {
        unreachable!();
    }
    assert!(sink.len == 6);
    assert!([sink.data[0], sink.data[1]] == a.to_le_bytes());
    assert!([sink.data[2], sink.data[3], sink.data[4], sink.data[5]] == b.to_be_bytes());
    kani::cover!(sink.faults.intr_fired.get() == 1);
}

#[kani::proof]
#[kani::unwind(6)]
// bound: read_u16_le over a chunking source (<= 1 Interrupted); write_u16 into a chunking sink
// claim: scalar helpers move exactly 2 bytes in the stated endianness
pub fn c11_q_scalar_u16() {
    let mut src = Src::any(1, 0);
    kani::assume(src.len >= 2);
    let a = match block_on(src.read_u16_le()) {
        Ok(v) => v,
        Err(_) => unreachable!(),
    };
    assert!(a == u16::from_le_bytes([src.data[0], src.data[1]]) && src.pos == 2);
    let mut sink = Sink::unlimited(0, 0);
    let b: u16 = kani::any();
    if block_on(sink.write_u16(b)).is_err() {
        unreachable!();
    }
    assert!(sink.len == 2 && [sink.data[0], sink.data[1]] == b.to_be_bytes());
    kani::cover!(src.calls == 3);
}

// ------------------------------------------------------------------ copy / split

#[kani::proof]
#[kani::unwind(4)]
// bound: copy_with_size, source of 0 or 1 byte, buffer size 1, no faults (anything larger runs CBMC out of memory)
// claim: copy delivers the source, returns the byte count, flushes and shuts down exactly once
pub fn c11_t_copy_tiny() {
    let mut src = Src::any(0, 0);
    kani::assume(src.len <= 1);
    let mut sink = Sink::unlimited(0, 0);
    let bs: usize = 1;
    let total = match block_on(copy_with_size(&mut src, &mut sink, bs)) {
        Ok(t) => t,
        Err(_) => unreachable!(),
    };
    assert!(total == src.len as u64 && sink.len == src.len && src.pos == src.len);
    let i: usize = kani::any();
    kani::assume(i < 3);
    if i < src.len {
        assert!(sink.data[i] == src.data[i]);
    }
    assert!(sink.flushed == 1 && sink.shut == 1);
    kani::cover!(src.len == 1);
}

pub struct Duplex {
    pub src: Src,
    pub sink: Sink,
}

impl AsyncRead for Duplex {
    async fn read<B: IoBufMut>(&mut self, buf: B) -> BufResult<usize, B> {
        self.src.read(buf).await
    }
}

impl AsyncWrite for Duplex {
    async fn write<T: IoBuf>(&mut self, buf: T) -> BufResult<usize, T> {
        self.sink.write(buf).await
    }
    async fn flush(&mut self) -> io::Result<()> {
        self.sink.flush().await
    }
    async fn shutdown(&mut self) -> io::Result<()> {
        self.sink.shutdown().await
    }
}


#[kani::proof]
#[kani::unwind(8)]
// bound: Take(limit) over a chunking source that fails one read with Interrupted or a hard error at a solver-chosen call; three reads into [u8; 2]
// claim: a failed read does not count against the limit: limit decreases exactly by the bytes delivered, and after the fault the remaining bytes up to the limit are still readable
pub fn c11_q_take_faults() {
    let src = Src::any(1, 1);
    let limit: u64 = kani::any();
    kani::assume(limit <= 8);
    let mut t = src.take(limit);
    let mut delivered = 0usize;
    let mut failed = 0u8;
    let mut k = 0;
    while k < 3 {
        let BufResult(r, d) = block_on(t.read([0u8; 2]));
        match r {
            Ok(n) => {
                assert!(n <= 2 && (delivered + n) as u64 <= limit);
                let i: usize = kani::any();
                kani::assume(i < 2);
                if i < n {
                    assert!(d[i] == t.get_ref().data[delivered + i], "byte misplaced after a failed read");
                }
                delivered += n;
            }
            Err(e) => {
                let kd = kind_of(e);
                assert!(kd == std::io::ErrorKind::Interrupted || kd == HARD);
                failed += 1;
            }
        }
        assert!(t.limit() == limit - delivered as u64, "limit changed by something other than delivered bytes");
        assert!(t.get_ref().pos == delivered, "bytes consumed != bytes delivered");
        k += 1;
    }
    kani::cover!(failed == 1 && delivered == 4);
    kani::cover!(failed == 2);
    std::mem::forget(t);
}
