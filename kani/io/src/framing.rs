//! C13 (framers): round trip under every fragmentation point, hostile input safety.
use super::*;
use arrayvec::ArrayVec;
use compio_io::framed::frame::*;

pub const FB: usize = 24;
type Buf = ArrayVec<u8, FB>;
pub const P: usize = 3;

fn payload() -> ([u8; P], usize) {
    let c: [u8; P] = kani::any();
    let l: usize = kani::any();
    kani::assume(l <= P);
    (c, l)
}

fn buf_from(bytes: &[u8; FB], len: usize) -> Buf {
    let mut b = Buf::new();
    unsafe {
        std::ptr::copy_nonoverlapping(bytes.as_ptr(), b.as_mut_ptr(), FB);
        b.set_len(len);
    }
    b
}

/// enclose one payload with the real framer, return the encoded bytes
fn encode<F: Framer<Buf>>(fr: &mut F, p: &[u8; P], l: usize) -> Buf {
    let mut b = Buf::new();
    unsafe {
        std::ptr::copy_nonoverlapping(p.as_ptr(), b.as_mut_ptr(), P);
        b.set_len(l);
    }
    fr.enclose(&mut b);
    b
}

/// Two frames, concatenated, cut at a solver-chosen prefix length: the real `extract` must
/// report each frame exactly from the prefix that contains its last byte.
fn roundtrip<F: Framer<Buf>>(fr: &mut F, overhead_pre: usize, overhead_suf: usize) {
    let (p1, l1) = payload();
    let (p2, l2) = payload();
    let e1 = encode(fr, &p1, l1);
    let e2 = encode(fr, &p2, l2);
    let n1 = e1.len();
    let n2 = e2.len();
    assert!(n1 == overhead_pre + l1 + overhead_suf, "encoded length of frame 1");
    assert!(n2 == overhead_pre + l2 + overhead_suf);
    // concatenate
    let mut stream = [0u8; FB];
    let mut i = 0;
    while i < FB {
        if i < n1 {
            stream[i] = e1[i];
        } else if i < n1 + n2 {
            stream[i] = e2[i - n1];
        }
        i += 1;
    }
    let cut: usize = kani::any();
    kani::assume(cut <= n1 + n2);
    let view = buf_from(&stream, cut).slice(..);
    let r = fr.extract(&view);
    let f1 = match r {
        Ok(f) => f,
        Err(e) => {
            std::mem::forget(e);
            unreachable!("extract failed on well-formed input")
        }
    };
    if cut < n1 {
        assert!(f1.is_none(), "frame reported before its last byte arrived");
        kani::cover!(cut > overhead_pre);
        return;
    }
    let f1 = match f1 {
        Some(f) => f,
        None => unreachable!("complete frame not reported"),
    };
    assert!(f1.len() == n1, "frame 1 length");
    let pl = f1.slice(view);
    assert!(pl.len() == l1, "payload 1 length");
    let k: usize = kani::any();
    kani::assume(k < P);
    if k < l1 {
        assert!(pl[k] == p1[k], "payload 1 content");
    }
    // advance past frame 1 and extract again from the remainder
    let rest = pl.into_inner().into_inner().slice(n1..);
    let f2 = match fr.extract(&rest) {
        Ok(f) => f,
        Err(e) => {
            std::mem::forget(e);
            unreachable!()
        }
    };
    if cut < n1 + n2 {
        assert!(f2.is_none(), "frame 2 reported early / frames merged");
        kani::cover!(cut > n1);
        return;
    }
    let f2 = match f2 {
        Some(f) => f,
        None => unreachable!("second frame dropped"),
    };
    assert!(f2.len() == n2);
    let pl2 = f2.slice(rest).flatten();
    assert!(pl2.len() == l2 && pl2.begin() == n1 + overhead_pre);
    if k < l2 {
        assert!(pl2[k] == p2[k], "payload 2 content");
    }
    // nothing left afterwards
    let tail = pl2.into_inner().slice(n1 + n2..);
    match fr.extract(&tail) {
        Ok(None) => {}
        _ => unreachable!("phantom third frame"),
    }
    kani::cover!(l1 > 0 && l2 > 0);
    kani::cover!(l1 == 0 && l2 == P);
}

macro_rules! ld_roundtrip {
    ($name:ident, $w:expr) => {
        #[kani::proof]
        #[kani::unwind(26)]
        // bound: LengthDelimited width $w (symbolic endianness), 2 frames x <= 3 symbolic payload bytes, ArrayVec<u8,24>, every cut point of the byte stream
        // claim: enclose -> concatenate -> cut anywhere -> extract yields each payload exactly when complete, in order, nothing merged/split/dropped
        pub fn $name() {
            let mut fr = LengthDelimited::new()
                .set_length_field_len($w)
                .set_length_field_is_big_endian(kani::any());
            roundtrip(&mut fr, $w, 0);
        }
    };
}
ld_roundtrip!(c13_q_ld_roundtrip_w1, 1);
ld_roundtrip!(c13_q_ld_roundtrip_w2, 2);
ld_roundtrip!(c13_q_ld_roundtrip_w4, 4);
ld_roundtrip!(c13_q_ld_roundtrip_w8, 8);
ld_roundtrip!(c13_t_ld_roundtrip_w3, 3);
ld_roundtrip!(c13_t_ld_roundtrip_w5, 5);
ld_roundtrip!(c13_t_ld_roundtrip_w6, 6);
ld_roundtrip!(c13_t_ld_roundtrip_w7, 7);

fn no_byte(p: &[u8; P], l: usize, d: u8) -> bool {
    let mut i = 0;
    let mut ok = true;
    while i < P {
        if i < l && p[i] == d {
            ok = false;
        }
        i += 1;
    }
    ok
}

/// Delimiter round trip: same as `roundtrip` but payloads must not contain delimiter bytes.
fn delim_roundtrip<F: Framer<Buf>>(fr: &mut F, delim: &[u8]) {
    let (p1, l1) = payload();
    let (p2, l2) = payload();
    let mut j = 0;
    while j < delim.len() {
        kani::assume(no_byte(&p1, l1, delim[j]) && no_byte(&p2, l2, delim[j]));
        j += 1;
    }
    let e1 = encode(fr, &p1, l1);
    let e2 = encode(fr, &p2, l2);
    let (n1, n2) = (e1.len(), e2.len());
    assert!(n1 == l1 + delim.len() && n2 == l2 + delim.len());
    let mut stream = [0u8; FB];
    let mut i = 0;
    while i < FB {
        if i < n1 {
            stream[i] = e1[i];
        } else if i < n1 + n2 {
            stream[i] = e2[i - n1];
        }
        i += 1;
    }
    let cut: usize = kani::any();
    kani::assume(cut <= n1 + n2);
    let view = buf_from(&stream, cut).slice(..);
    let f1 = match fr.extract(&view) {
        Ok(f) => f,
        Err(e) => {
            std::mem::forget(e);
            unreachable!()
        }
    };
    if cut < n1 {
        assert!(f1.is_none(), "frame reported before its delimiter arrived");
        kani::cover!(cut >= l1 && l1 > 0);
        return;
    }
    let f1 = match f1 {
        Some(f) => f,
        None => unreachable!("complete frame not reported"),
    };
    assert!(f1.len() == n1);
    let pl = f1.slice(view);
    assert!(pl.len() == l1);
    let k: usize = kani::any();
    kani::assume(k < P);
    if k < l1 {
        assert!(pl[k] == p1[k]);
    }
    let rest = pl.into_inner().into_inner().slice(n1..);
    let f2 = match fr.extract(&rest) {
        Ok(f) => f,
        Err(e) => {
            std::mem::forget(e);
            unreachable!()
        }
    };
    if cut < n1 + n2 {
        assert!(f2.is_none());
        return;
    }
    let f2 = match f2 {
        Some(f) => f,
        None => unreachable!("second frame dropped"),
    };
    assert!(f2.len() == n2);
    let pl2 = f2.slice(rest);
    assert!(pl2.len() == l2);
    if k < l2 {
        assert!(pl2[k] == p2[k]);
    }
    kani::cover!(l1 == 0 && l2 > 0);
    kani::cover!(l1 == P);
}

#[kani::proof]
#[kani::unwind(26)]
// bound: CharDelimited<'\n'>, 2 frames x <= 3 payload bytes without '\n', every cut point
// claim: line framing round-trips under every fragmentation
pub fn c13_q_line_roundtrip() {
    let mut fr = LineDelimited::new();
    delim_roundtrip(&mut fr, b"\n");
}

#[kani::proof]
#[kani::unwind(26)]
// bound: AnyDelimited(b"\r\n"), 2 frames x <= 3 payload bytes containing neither '\r' nor '\n', every cut point
pub fn c13_q_crlf_roundtrip() {
    let mut fr = AnyDelimited::new(b"\r\n");
    delim_roundtrip(&mut fr, b"\r\n");
}

// ------------------------------------------------------------------ hostile input

pub const H: usize = 10;

fn hostile_buf() -> (Buf, usize) {
    let bytes: [u8; FB] = kani::any();
    let len: usize = kani::any();
    kani::assume(len <= H);
    (buf_from(&bytes, len), len)
}

macro_rules! ld_hostile {
    ($name:ident, $w:expr) => {
        #[kani::proof]
        #[kani::unwind(26)]
        // bound: LengthDelimited width $w, either endianness, arbitrary peer bytes (<= 10)
        // claim: extract never panics/overflows; a reported frame lies inside the buffer, slicing it is safe, and consuming it makes progress; oversize lengths wait for more data or fail with an error
        pub fn $name() {
            let mut fr = LengthDelimited::new()
                .set_length_field_len($w)
                .set_length_field_is_big_endian(kani::any());
            let (b, len) = hostile_buf();
            let view = b.slice(..);
            match Framer::<Buf>::extract(&mut fr, &view) {
                Ok(Some(f)) => {
                    assert!(f.len() <= len, "frame extends beyond the received bytes");
                    assert!(f.len() >= $w, "no progress");
                    let pl = f.slice(view);
                    assert!(pl.len() == f.len() - $w);
                    kani::cover!(pl.len() > 0);
                }
                Ok(None) => {
                    kani::cover!(len >= $w);
                }
                Err(e) => {
                    assert!(kind_of(e) == io::ErrorKind::InvalidData);
                }
            }
        }
    };
}
ld_hostile!(c13_q_ld_hostile_w1, 1);
ld_hostile!(c13_q_ld_hostile_w2, 2);
ld_hostile!(c13_q_ld_hostile_w4, 4);
ld_hostile!(c13_q_ld_hostile_w8, 8);
ld_hostile!(c13_t_ld_hostile_w3, 3);
ld_hostile!(c13_t_ld_hostile_w5, 5);
ld_hostile!(c13_t_ld_hostile_w6, 6);
ld_hostile!(c13_t_ld_hostile_w7, 7);

fn delim_hostile<F: Framer<Buf>>(fr: &mut F, delim: &[u8]) {
    let (b, len) = hostile_buf();
    let view = b.slice(..);
    match fr.extract(&view) {
        Ok(Some(f)) => {
            assert!(f.len() <= len && f.len() >= delim.len());
            let pl = f.slice(view);
            let n = pl.len();
            assert!(n + delim.len() == f.len());
            // the payload is followed by the delimiter and is the *first* such position
            let inner = pl.into_inner();
            let mut j = 0;
            while j < delim.len() {
                assert!(inner[n + j] == delim[j], "frame does not end in the delimiter");
                j += 1;
            }
            // ... and it is the first occurrence: no delimiter starts inside the payload
            let k: usize = kani::any();
            kani::assume(k < n);
            let mut all = true;
            let mut j = 0;
            while j < delim.len() {
                if inner[k + j] != delim[j] {
                    all = false;
                }
                j += 1;
            }
            assert!(!all, "payload contains an earlier delimiter");
            kani::cover!(n > 1);
        }
        Ok(None) => {
            // no delimiter anywhere in the buffer (checked at one symbolic position)
            let k: usize = kani::any();
            kani::assume(k <= H && k + delim.len() <= len);
            let mut all = true;
            let mut j = 0;
            while j < delim.len() {
                if view[k + j] != delim[j] {
                    all = false;
                }
                j += 1;
            }
            assert!(!all, "delimiter present but no frame reported");
            kani::cover!(len == H);
        }
        Err(e) => {
            std::mem::forget(e);
            unreachable!("delimiter framers have no error path")
        }
    }
}

#[kani::proof]
#[kani::unwind(26)]
// bound: CharDelimited<'\n'> on arbitrary peer bytes (<= 10)
// claim: reports a frame iff a delimiter is present; frame inside buffer; progress >= 1
pub fn c13_q_line_hostile() {
    let mut fr = LineDelimited::new();
    delim_hostile(&mut fr, b"\n");
}

#[kani::proof]
#[kani::unwind(26)]
// bound: AnyDelimited(b"\r\n") on arbitrary peer bytes (<= 10)
pub fn c13_q_crlf_hostile() {
    let mut fr = AnyDelimited::new(b"\r\n");
    delim_hostile(&mut fr, b"\r\n");
}

#[kani::proof]
#[kani::unwind(26)]
// bound: NoopFramer (max 4096) on arbitrary bytes (<= 10); enclose is the identity
// claim: a non-empty buffer is one frame covering it; empty buffer = no frame
pub fn c13_q_noop() {
    let mut fr = NoopFramer::new();
    let (b, len) = hostile_buf();
    let mut c = b.clone();
    Framer::<Buf>::enclose(&mut fr, &mut c);
    assert!(c.len() == len);
    let view = b.slice(..);
    match Framer::<Buf>::extract(&mut fr, &view) {
        Ok(Some(f)) => {
            assert!(len > 0 && f.len() == len);
            assert!(f.slice(view).len() == len);
            kani::cover!(len == H);
        }
        Ok(None) => assert!(len == 0),
        Err(_) => unreachable!(),
    }
}
