//! C11 / C13 — Kani harnesses over the real `compio_io`.
//!
//! Model streams: a reader/writer that never returns Pending and, per call, transfers a
//! solver-chosen number of bytes within the call's contract, or (budgeted) an Interrupted /
//! hard error.  `block_on` polls once.
#![cfg(kani)]
#![allow(clippy::all)]

use std::cell::Cell;
use std::future::Future;
use std::io;
use std::pin::pin;
use std::task::{Context, Poll, Waker};

use compio_buf::*;
use compio_io::*;
use compio_io::util::*;

mod helpers;
mod mem;
mod framing;
mod anc;

pub const N: usize = 6;

pub fn block_on<F: Future>(f: F) -> F::Output {
    let mut f = pin!(f);
    let mut cx = Context::from_waker(Waker::noop());
    match f.as_mut().poll(&mut cx) {
        Poll::Ready(v) => v,
        Poll::Pending => {
            // model streams never return Pending
            kani::assume(false);
            unreachable!()
        }
    }
}

pub const HARD: io::ErrorKind = io::ErrorKind::ConnectionReset;

/// Fault plan shared by the model streams.
pub struct Faults {
    pub intr_left: Cell<u8>,
    pub hard_left: Cell<u8>,
    pub hard_fired: Cell<bool>,
    pub intr_fired: Cell<u8>,
}

impl Faults {
    pub fn new(intr: u8, hard: u8) -> Self {
        Faults {
            intr_left: Cell::new(intr),
            hard_left: Cell::new(hard),
            hard_fired: Cell::new(false),
            intr_fired: Cell::new(0),
        }
    }
    /// Solver decides whether this call fails.
    pub fn inject(&self) -> Option<io::Error> {
        if self.intr_left.get() > 0 && kani::any() {
            self.intr_left.set(self.intr_left.get() - 1);
            self.intr_fired.set(self.intr_fired.get() + 1);
            return Some(io::Error::from(io::ErrorKind::Interrupted));
        }
        if self.hard_left.get() > 0 && kani::any() {
            self.hard_left.set(self.hard_left.get() - 1);
            self.hard_fired.set(true);
            return Some(io::Error::from(HARD));
        }
        None
    }
}

/// Sequential source of `len` symbolic bytes; each read delivers 1..=min(cap, remaining) bytes.
pub struct Src {
    pub data: [u8; N],
    pub len: usize,
    pub pos: usize,
    pub faults: Faults,
    pub calls: usize,
}

impl Src {
    pub fn any(intr: u8, hard: u8) -> Self {
        let len: usize = kani::any();
        kani::assume(len <= N);
        Src { data: kani::any(), len, pos: 0, faults: Faults::new(intr, hard), calls: 0 }
    }
}

fn choose(max: usize) -> usize {
    if max == 0 {
        return 0;
    }
    let n: usize = kani::any();
    kani::assume(n >= 1 && n <= max);
    n
}

impl AsyncRead for Src {
    async fn read<B: IoBufMut>(&mut self, mut buf: B) -> BufResult<usize, B> {
        self.calls += 1;
        if let Some(e) = self.faults.inject() {
            return BufResult(Err(e), buf);
        }
        let u = buf.as_uninit();
        let n = choose(u.len().min(self.len - self.pos));
        unsafe {
            std::ptr::copy_nonoverlapping(self.data.as_ptr().add(self.pos), u.as_mut_ptr() as *mut u8, n);
            buf.advance_to(n);
        }
        self.pos += n;
        BufResult(Ok(n), buf)
    }
}

/// Positional source.
pub struct SrcAt {
    pub data: [u8; N],
    pub len: usize,
    pub faults: Faults,
    /// highest position+1 any read touched / bytes handed out, for "never reads more than needed"
    pub max_end: Cell<usize>,
}

impl SrcAt {
    pub fn any(intr: u8, hard: u8) -> Self {
        let len: usize = kani::any();
        kani::assume(len <= N);
        SrcAt { data: kani::any(), len, faults: Faults::new(intr, hard), max_end: Cell::new(0) }
    }
}

impl AsyncReadAt for SrcAt {
    async fn read_at<B: IoBufMut>(&self, mut buf: B, pos: u64) -> BufResult<usize, B> {
        if let Some(e) = self.faults.inject() {
            return BufResult(Err(e), buf);
        }
        let pos = if pos > self.len as u64 { self.len } else { pos as usize };
        let u = buf.as_uninit();
        let n = choose(u.len().min(self.len - pos));
        unsafe {
            std::ptr::copy_nonoverlapping(self.data.as_ptr().add(pos), u.as_mut_ptr() as *mut u8, n);
            buf.advance_to(n);
        }
        if pos + n > self.max_end.get() {
            self.max_end.set(pos + n);
        }
        BufResult(Ok(n), buf)
    }
}

pub const SINK: usize = N + 2;

/// Sequential sink with a symbolic total capacity; each write accepts 1..=min(len, free) bytes.
pub struct Sink {
    pub data: [u8; SINK],
    pub len: usize,
    pub limit: usize,
    pub faults: Faults,
    pub flushed: u8,
    pub shut: u8,
}

impl Sink {
    pub fn any(intr: u8, hard: u8) -> Self {
        let limit: usize = kani::any();
        kani::assume(limit <= SINK);
        Sink { data: [0; SINK], len: 0, limit, faults: Faults::new(intr, hard), flushed: 0, shut: 0 }
    }
    pub fn unlimited(intr: u8, hard: u8) -> Self {
        Sink { data: [0; SINK], len: 0, limit: SINK, faults: Faults::new(intr, hard), flushed: 0, shut: 0 }
    }
}

impl AsyncWrite for Sink {
    async fn write<T: IoBuf>(&mut self, buf: T) -> BufResult<usize, T> {
        if let Some(e) = self.faults.inject() {
            return BufResult(Err(e), buf);
        }
        let s = buf.as_init();
        let n = choose(s.len().min(self.limit - self.len));
        unsafe {
            std::ptr::copy_nonoverlapping(s.as_ptr(), self.data.as_mut_ptr().add(self.len), n);
        }
        self.len += n;
        BufResult(Ok(n), buf)
    }
    async fn flush(&mut self) -> io::Result<()> {
        self.flushed += 1;
        Ok(())
    }
    async fn shutdown(&mut self) -> io::Result<()> {
        self.shut += 1;
        Ok(())
    }
}

/// Positional sink: records bytes at their positions.
pub struct SinkAt {
    pub data: [u8; SINK],
    pub written: [bool; SINK],
    pub limit: usize,
    pub faults: Faults,
}

impl SinkAt {
    pub fn any(intr: u8, hard: u8) -> Self {
        let limit: usize = kani::any();
        kani::assume(limit <= SINK);
        SinkAt { data: [0; SINK], written: [false; SINK], limit, faults: Faults::new(intr, hard) }
    }
}

impl AsyncWriteAt for SinkAt {
    async fn write_at<T: IoBuf>(&mut self, buf: T, pos: u64) -> BufResult<usize, T> {
        if let Some(e) = self.faults.inject() {
            return BufResult(Err(e), buf);
        }
        let s = buf.as_init();
        let pos = if pos > self.limit as u64 { self.limit } else { pos as usize };
        let n = choose(s.len().min(self.limit - pos));
        let mut i = 0;
        while i < SINK {
            if i >= pos && i < pos + n {
                self.data[i] = s[i - pos];
                self.written[i] = true;
            }
            i += 1;
        }
        BufResult(Ok(n), buf)
    }
}

/// Error kind without running the drop glue of heap-carrying io::Errors.
pub fn kind_of(e: io::Error) -> io::ErrorKind {
    let k = e.kind();
    std::mem::forget(e);
    k
}
