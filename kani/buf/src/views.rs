//! Contiguous views: Slice, Uninit, their compositions, and the IoBufMutExt utilities.
use super::*;

/// slice(range) geometry == reference, for every RangeBounds form.
pub fn slice_geom<R: Root>() {
    let mut root = R::make();
    let ri = root.info();
    let rg = geom(&mut root, &ri);
    assert!(rg.off == 0 && rg.init == ri.len && rg.cap == ri.cap);
    let range = any_range();
    let Some((b, e)) = range_ref(&range) else { return };
    kani::assume(b <= ri.len);
    if let Some(e) = e {
        kani::assume(b <= e);
    }
    let mut v = root.slice(range);
    assert!(v.begin() == b && v.end() == e);
    let g = geom(&mut v, &ri);
    assert!(g == slice_ref(rg, b, e), "slice geometry differs from &buf[b..e]");
    // Deref / DerefMut expose exactly as_init
    assert!(v.len() == g.init);
    let rp = v.root_ptr();
    let dm: &mut [u8] = &mut v;
    assert!(dm.as_ptr() as usize == rp + g.off && dm.len() == g.init);
    let ms = v.as_mut_slice();
    assert!(ms.as_ptr() as usize == rp + g.off && ms.len() == g.init);
    kani::cover!(if R::GROWS { g.init > 0 && g.cap > g.init && g.off > 0 } else { g.init > 0 && g.off > 0 });
    kani::cover!(matches!(range.0, Bound::Excluded(_)) && matches!(range.1, Bound::Included(_)));
    kani::cover!(e.is_some() && e.unwrap() > ri.cap);
    let back = v.into_inner();
    assert!(back.as_init().len() == ri.len);
}

/// one driver-style fill through slice(b..e): bytes land at root[b..b+k], nothing else changes.
pub fn slice_fill<R: Root>() {
    let mut root = R::make();
    let ri = root.info();
    let rg = geom(&mut root, &ri);
    let b: usize = kani::any();
    let e: usize = kani::any();
    kani::assume(b <= ri.len && b <= e);
    let bounded: bool = kani::any();
    let mut v = if bounded { root.slice(b..e) } else { root.slice(b..) };
    let g = geom(&mut v, &ri);
    let data: [u8; CAP] = kani::any();
    let k: usize = kani::any();
    kani::assume(k <= g.cap);
    fill_to(&mut v, &data, k);
    // clause 1 still holds after the fill, geometry follows the new root length
    let g2 = geom(&mut v, &ri);
    let new_len = if R::GROWS && k > 0 { ri.len.max(g.off + k) } else { ri.len };
    let want = slice_ref(Geom { off: 0, init: new_len, cap: rg.cap }, b,
                         if bounded { Some(e) } else { None });
    assert!(g2 == want, "slice geometry after fill");
    kani::cover!(if R::GROWS { k > 0 && g.off + k > ri.len && ri.len > 0 } else { k > 1 && g.off > 0 });
    kani::cover!(k > 0 && g.off + k < ri.len);
    kani::cover!(k == g.cap && g.cap > 0 && bounded);
    let root = v.into_inner();
    check_root_after(&root, &ri, g.off, k, &data);
}

/// two consecutive fills of the same view (both start at the view's beginning).
pub fn slice_fill_twice<R: Root>() {
    let mut root = R::make();
    let ri = root.info();
    let b: usize = kani::any();
    let e: usize = kani::any();
    kani::assume(b <= ri.len && b <= e);
    let mut v = root.slice(b..e);
    let g = geom(&mut v, &ri);
    let d1: [u8; CAP] = kani::any();
    let d2: [u8; CAP] = kani::any();
    let k1: usize = kani::any();
    let k2: usize = kani::any();
    kani::assume(k1 <= g.cap && k2 <= g.cap);
    fill_to(&mut v, &d1, k1);
    let _ = geom(&mut v, &ri);
    fill_to(&mut v, &d2, k2);
    let _ = geom(&mut v, &ri);
    let root = v.into_inner();
    let now = root.as_init();
    let kmax = k1.max(k2);
    let want_len = if R::GROWS && kmax > 0 { ri.len.max(g.off + kmax) } else { ri.len };
    assert!(now.len() == want_len);
    let p: usize = kani::any();
    kani::assume(p < CAP);
    if p < now.len() {
        if p >= g.off && p < g.off + k2 {
            assert!(now[p] == d2[p - g.off]);
        } else if p >= g.off && p < g.off + k1 {
            assert!(now[p] == d1[p - g.off]);
        } else if p < ri.len {
            assert!(now[p] == ri.old[p]);
        }
    }
    kani::cover!(k1 > k2 && k2 > 0);
    kani::cover!(if R::GROWS { k2 > k1 && k1 > 0 && g.off + k2 > ri.len } else { k2 > k1 && k1 > 0 });
}

/// appending fill: write after the initialized part of the view, record with advance(k).
pub fn slice_append<R: Root>() {
    let mut root = R::make();
    let ri = root.info();
    let b: usize = kani::any();
    kani::assume(b <= ri.len);
    let mut v = root.slice(b..);
    let g = geom(&mut v, &ri);
    let data: [u8; CAP] = kani::any();
    let k: usize = kani::any();
    kani::assume(k <= g.cap - g.init);
    unsafe {
        let u = v.as_uninit();
        std::ptr::copy_nonoverlapping(data.as_ptr(), (u.as_mut_ptr() as *mut u8).add(g.init), k);
        v.advance(k);
    }
    let g2 = geom(&mut v, &ri);
    if R::GROWS {
        assert!(g2.init == g.init + k && g2.off == g.off && g2.cap == g.cap);
    }
    let root = v.into_inner();
    if R::GROWS {
        // bytes were appended at root[len..len+k]
        check_root_after(&root, &ri, ri.len, k, &data);
    }
    kani::cover!(if R::GROWS { k > 0 && b > 0 && ri.len + k < CAP } else { k == 0 && b > 0 });
}

/// uninit(): the writable tail; one fill appends at root[len..len+k].
pub fn uninit_fill<R: Root>() {
    let mut root = R::make();
    let ri = root.info();
    let mut v = root.uninit();
    assert!(v.begin() == ri.len);
    let g = geom(&mut v, &ri);
    assert!(g == Geom { off: ri.len, init: 0, cap: ri.cap - ri.len }, "uninit geometry");
    let data: [u8; CAP] = kani::any();
    let k: usize = kani::any();
    kani::assume(k <= g.cap);
    fill_to(&mut v, &data, k);
    let root = v.into_inner();
    check_root_after(&root, &ri, ri.len, k, &data);
    kani::cover!(if R::GROWS { k > 0 && ri.len > 0 && ri.len + k < CAP } else { g.cap == 0 });
    kani::cover!(g.cap == 0);
}

/// slice(b1..e1).slice(b2..e2): geometry composes, equals flatten(), fill lands at b1+b2.
pub fn nested_slice<R: Root>() {
    let mut root = R::make();
    let ri = root.info();
    let rg = geom(&mut root, &ri);
    let (b1, e1, b2, e2): (usize, usize, usize, usize) = kani::any();
    let (has1, has2): (bool, bool) = kani::any();
    kani::assume(b1 <= ri.len && b1 <= e1);
    let o1 = if has1 { Some(e1) } else { None };
    let o2 = if has2 { Some(e2) } else { None };
    let mut s1 = if has1 { root.slice(b1..e1) } else { root.slice(b1..) };
    let g1 = geom(&mut s1, &ri);
    assert!(g1 == slice_ref(rg, b1, o1));
    kani::assume(b2 <= g1.init && b2 <= e2);
    let mut s2 = if has2 { s1.slice(b2..e2) } else { s1.slice(b2..) };
    let g2 = geom(&mut s2, &ri);
    assert!(g2 == slice_ref(g1, b2, o2), "nested slice geometry");
    let do_flatten: bool = kani::any();
    let data: [u8; CAP] = kani::any();
    let k: usize = kani::any();
    kani::assume(k <= g2.cap);
    kani::cover!(k > 0 && b1 > 0 && b2 > 0 && do_flatten);
    kani::cover!(k > 0 && has1 && has2 && e2 > g1.cap && !do_flatten);
    if do_flatten {
        let mut f = s2.flatten();
        let gf = geom(&mut f, &ri);
        assert!(gf == g2, "flatten() changes the view");
        fill_to(&mut f, &data, k);
        let _ = geom(&mut f, &ri);
        let root = f.into_inner();
        check_root_after(&root, &ri, g2.off, k, &data);
    } else {
        fill_to(&mut s2, &data, k);
        let _ = geom(&mut s2, &ri);
        let root = s2.into_inner().into_inner();
        check_root_after(&root, &ri, g2.off, k, &data);
    }
}

/// slice(b..e).uninit(): the writable tail of a slice.
pub fn uninit_of_slice<R: Root>() {
    let mut root = R::make();
    let ri = root.info();
    let rg = geom(&mut root, &ri);
    let (b, e): (usize, usize) = kani::any();
    let has: bool = kani::any();
    kani::assume(b <= ri.len && b <= e);
    let mut s = if has { root.slice(b..e) } else { root.slice(b..) };
    let gs = geom(&mut s, &ri);
    let _ = rg;
    let mut v = s.uninit();
    let g = geom(&mut v, &ri);
    assert!(g == Geom { off: gs.off + gs.init, init: 0, cap: gs.cap - gs.init });
    let data: [u8; CAP] = kani::any();
    let k: usize = kani::any();
    kani::assume(k <= g.cap);
    fill_to(&mut v, &data, k);
    let root = v.into_inner().into_inner();
    check_root_after(&root, &ri, g.off, k, &data);
    kani::cover!(if R::GROWS { k > 0 && b > 0 && g.off + k < CAP && has } else { b > 0 && has && g.cap == 0 });
}

/// uninit().slice(..e): a bounded window of the writable tail.
pub fn slice_of_uninit<R: Root>() {
    let mut root = R::make();
    let ri = root.info();
    let mut u = root.uninit();
    let gu = geom(&mut u, &ri);
    let e: usize = kani::any();
    let has: bool = kani::any();
    let mut v = if has { u.slice(0..e) } else { u.slice(0..) };
    let g = geom(&mut v, &ri);
    assert!(g == slice_ref(gu, 0, if has { Some(e) } else { None }));
    let data: [u8; CAP] = kani::any();
    let k: usize = kani::any();
    kani::assume(k <= g.cap);
    fill_to(&mut v, &data, k);
    let root = v.into_inner().into_inner();
    check_root_after(&root, &ri, ri.len, k, &data);
    kani::cover!(if R::GROWS { k > 0 && has && e < gu.cap && ri.len > 0 } else { has && gu.cap == 0 });
}

/// set_begin / set_end re-target an existing slice exactly like a fresh slice(b..e).
pub fn slice_retarget<R: Root>() {
    let mut root = R::make();
    let ri = root.info();
    let rg = geom(&mut root, &ri);
    let mut v = root.slice(..);
    let (b, e): (usize, usize) = kani::any();
    kani::assume(b <= ri.len && b <= e);
    v.set_begin(b);
    v.set_end(e);
    let g = geom(&mut v, &ri);
    assert!(g == slice_ref(rg, b, Some(e)));
    let data: [u8; CAP] = kani::any();
    let k: usize = kani::any();
    kani::assume(k <= g.cap);
    fill_to(&mut v, &data, k);
    let root = v.into_inner();
    check_root_after(&root, &ri, b, k, &data);
    kani::cover!(k > 0 && b > 0 && e < CAP);
}

/// IoBufMutExt / SetLenExt utilities through a slice view.
pub fn utilities<R: Root>() {
    let mut root = R::make();
    let ri = root.info();
    let (b, e): (usize, usize) = kani::any();
    kani::assume(b <= ri.len && b <= e);
    let mut v = root.slice(b..e);
    let g = geom(&mut v, &ri);
    assert!(v.is_filled() == (g.init == g.cap));
    assert!(v.is_empty() == (g.init == 0));
    let rp = v.root_ptr();
    assert!(v.buf_ptr() as usize == rp + g.off);
    assert!(v.buf_mut_ptr() as usize == rp + g.off);
    // default reserve: Ok iff it fits; a bounded slice never grows
    let n: usize = kani::any();
    kani::assume(n <= 2 * CAP);
    match IoBufMut::reserve(&mut v, n) {
        Ok(()) => unreachable!("bounded slice reserved"),
        Err(err) => assert!(err.is_not_supported()),
    }
    match kani::any::<u8>() % 3 {
        0 => {
            // ensure_init: whole capacity returned, init prefix kept, tail zeroed
            let p: usize = kani::any();
            kani::assume(p < CAP);
            let s = v.ensure_init();
            assert!(s.len() == g.cap && s.as_ptr() as usize == rp + g.off);
            if p < g.cap {
                if p < g.init {
                    assert!(s[p] == ri.old[g.off + p]);
                } else {
                    assert!(s[p] == 0);
                }
            }
            kani::cover!(if R::GROWS { g.cap > g.init && g.init > 0 } else { g.init > 1 });
        }
        1 => {
            // copy_within inside the initialised part of the view
            let (s0, s1, d): (usize, usize, usize) = kani::any();
            kani::assume(s0 <= s1 && s1 <= g.init && d <= g.init - (s1 - s0));
            v.copy_within(s0..s1, d);
            let p: usize = kani::any();
            kani::assume(p < CAP);
            let now = (*v).as_init();
            assert!(now.len() == g.init);
            if p < g.init {
                if p >= d && p < d + (s1 - s0) {
                    assert!(now[p] == ri.old[g.off + s0 + (p - d)]);
                } else {
                    assert!(now[p] == ri.old[g.off + p]);
                }
            }
            kani::cover!(s1 - s0 > 1 && d > s0 && d < s1);
        }
        _ => {
            // clear(): length 0 for growable roots, content and capacity untouched
            v.clear();
            let g2 = geom(&mut v, &ri);
            assert!(g2.off == g.off);
            if R::SHRINKS {
                assert!(g2.init == 0);
                let root = v.into_inner();
                assert!(root.as_init().len() == b);
            }
            kani::cover!(g.init > 0);
        }
    }
}

/// extend_from_slice on a fixed-capacity root: Ok iff it fits, bytes appended after init.
pub fn extend_fixed<R: Root>() {
    let mut root = R::make();
    let ri = root.info();
    let data: [u8; CAP] = kani::any();
    let k: usize = kani::any();
    kani::assume(k <= CAP);
    let fits = k <= ri.cap - ri.len;
    let res = root.extend_from_slice(&data[..k]);
    match res {
        Ok(()) => {
            assert!(fits);
            if R::GROWS {
                check_root_after(&root, &ri, ri.len, k, &data);
            }
        }
        Err(e) => {
            assert!(!fits && e.is_not_supported());
            std::mem::forget(e);
            check_root_after(&root, &ri, 0, 0, &data);
        }
    }
    kani::cover!(if R::GROWS { fits && k > 0 && ri.len > 0 } else { fits });
    kani::cover!(!fits);
}

macro_rules! view_harnesses {
    ($m:ident, $t:ty) => {
        pub mod $m {
            use super::*;
            #[kani::proof]
            #[kani::unwind(10)]
            // bound: root cap 8, symbolic len/content, every RangeBounds form with symbolic ends
            // claim: slice(range) == &buf[b..e] geometry; init prefix of uninit; inside root
            pub fn slice_geom() { super::slice_geom::<$t>() }
            #[kani::proof]
            #[kani::unwind(10)]
            // bound: root cap 8, symbolic b,e,k,data; one fill + advance_to
            // claim: k bytes written through slice(b..e) appear at root[b..b+k], rest untouched, len = max(old,b+k)
            pub fn slice_fill() { super::slice_fill::<$t>() }
            #[kani::proof]
            #[kani::unwind(10)]
            // bound: root cap 8, two fills k1,k2 of one slice view
            // claim: repeated fills of one view: last writer wins per position, len = max
            pub fn slice_fill_twice() { super::slice_fill_twice::<$t>() }
            #[kani::proof]
            #[kani::unwind(10)]
            // bound: root cap 8, append k after init, advance(k)
            // claim: advance(k) appends exactly k bytes after the initialized part
            pub fn slice_append() { super::slice_append::<$t>() }
            #[kani::proof]
            #[kani::unwind(10)]
            // bound: root cap 8, one fill of the uninit() tail
            // claim: uninit() = root[len..cap], a fill appends at root[len..len+k]
            pub fn uninit_fill() { super::uninit_fill::<$t>() }
            #[kani::proof]
            #[kani::unwind(10)]
            // bound: root cap 8, nesting depth 2, flatten or not, one fill
            // claim: slice of slice composes offsets; flatten() is the same view
            pub fn nested_slice() { super::nested_slice::<$t>() }
            #[kani::proof]
            #[kani::unwind(10)]
            // bound: root cap 8, slice(b..e).uninit(), one fill
            pub fn uninit_of_slice() { super::uninit_of_slice::<$t>() }
            #[kani::proof]
            #[kani::unwind(10)]
            // bound: root cap 8, uninit().slice(0..e), one fill
            pub fn slice_of_uninit() { super::slice_of_uninit::<$t>() }
            #[kani::proof]
            #[kani::unwind(10)]
            // bound: root cap 8, set_begin/set_end with symbolic b,e then one fill
            pub fn slice_retarget() { super::slice_retarget::<$t>() }
            #[kani::proof]
            #[kani::unwind(10)]
            // bound: root cap 8, slice(b..e); ensure_init / copy_within / clear / reserve
            pub fn utilities() { super::utilities::<$t>() }
        }
    };
}

view_harnesses!(q_arr, [u8; CAP]);
view_harnesses!(q_vec, Vec<u8>);
view_harnesses!(q_arrayvec, arrayvec::ArrayVec<u8, CAP>);
view_harnesses!(t_boxed, Box<[u8; CAP]>);
view_harnesses!(t_smallvec, smallvec::SmallVec<[u8; CAP]>);

pub mod q_fixed {
    use super::*;
    #[kani::proof]
    #[kani::unwind(10)]
    // bound: [u8; 8], extend_from_slice of k <= 8 bytes
    // claim: fixed roots: Ok iff fits (NotSupported otherwise), content untouched on error
    pub fn extend_arr() { super::extend_fixed::<[u8; CAP]>() }
    #[kani::proof]
    #[kani::unwind(10)]
    // bound: ArrayVec<u8, 8>, symbolic len, extend_from_slice of k <= 8 bytes
    pub fn extend_arrayvec() { super::extend_fixed::<arrayvec::ArrayVec<u8, CAP>>() }
}

/// Known finding F8 (see known_findings.json): `Uninit` after a fill.
pub mod kf {
    use super::*;
    type A = arrayvec::ArrayVec<u8, CAP>;

    #[kani::proof]
    #[kani::unwind(10)]
    // bound: ArrayVec<u8,8>, symbolic len, one fill k >= 1 of uninit(), then the view contract again
    // claim: EXPECTED TO FAIL on the pinned tree: after a fill Uninit::as_init is the filled bytes while as_uninit starts after them
    pub fn c10_kf_uninit_prefix_after_fill() {
        let mut root = A::make();
        let ri = root.info();
        let mut v = root.uninit();
        let g = geom(&mut v, &ri);
        let data: [u8; CAP] = kani::any();
        let k: usize = kani::any();
        kani::assume(k >= 1 && k <= g.cap);
        fill_to(&mut v, &data, k);
        kani::cover!(k < g.cap);
        let _ = geom(&mut v, &ri);
    }

    #[kani::proof]
    #[kani::unwind(10)]
    // bound: ArrayVec<u8,8>, two consecutive fills k1,k2 >= 1 of one uninit() view, each recorded with advance_to
    // claim: EXPECTED TO FAIL on the pinned tree: the second fill is written after the first but recorded as if it started at the view's begin
    pub fn c10_kf_uninit_second_fill() {
        let mut root = A::make();
        let ri = root.info();
        let mut v = root.uninit();
        let d1: [u8; CAP] = kani::any();
        let d2: [u8; CAP] = kani::any();
        let (k1, k2): (usize, usize) = kani::any();
        kani::assume(k1 >= 1 && k1 <= ri.cap - ri.len);
        fill_to(&mut v, &d1, k1);
        let c2 = v.as_uninit().len();
        kani::assume(k2 >= 1 && k2 <= c2);
        kani::cover!(k2 > k1);
        fill_to(&mut v, &d2, k2);
        let root = v.into_inner();
        // both fills must be visible: k1 bytes at len.., then k2 bytes after them
        assert!(root.as_init().len() == ri.len + k1 + k2, "second fill of Uninit not recorded");
    }

    #[kani::proof]
    #[kani::unwind(10)]
    // bound: ArrayVec<u8,8>, two consecutive fills k1,k2 >= 1 of one uninit() view
    // claim: (holds on the pinned tree, next to known finding F8b) the second fill is written after the first and never overwrites it: the first fill's bytes stay visible at root[len..len+k1)
    pub fn c10_q_uninit_second_fill_keeps_first() {
        let mut root = A::make();
        let ri = root.info();
        let mut v = root.uninit();
        let d1: [u8; CAP] = kani::any();
        let d2: [u8; CAP] = kani::any();
        let (k1, k2): (usize, usize) = kani::any();
        kani::assume(k1 >= 1 && k1 <= ri.cap - ri.len);
        fill_to(&mut v, &d1, k1);
        let c2 = v.as_uninit().len();
        kani::assume(k2 >= 1 && k2 <= c2);
        fill_to(&mut v, &d2, k2);
        let root = v.into_inner();
        let now = root.as_init();
        assert!(now.len() >= ri.len + k1, "first fill no longer recorded");
        let p: usize = kani::any();
        kani::assume(p < CAP);
        if p >= ri.len && p < ri.len + k1 {
            assert!(now[p] == d1[p - ri.len], "second fill overwrote the first one");
        } else if p < ri.len {
            assert!(now[p] == ri.old[p], "content before the view changed");
        }
        kani::cover!(k2 > k1 && ri.len > 0);
    }
}
