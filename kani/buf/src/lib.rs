//! C10 — all buffer views obey one contract.  Kani harnesses over the real `compio_buf`.
//!
//! Conventions: every container has a concrete capacity (`CAP`), symbolic length, symbolic
//! contents; offsets / range bounds / fill sizes are symbolic; element-wise checks use one
//! symbolic probe index instead of loops.  Every harness carries `kani::cover!` vacuity witnesses.
#![cfg(kani)]
#![allow(clippy::all)]

use std::mem::MaybeUninit;
use std::ops::Bound;

use compio_buf::*;

mod vectored;
mod views;

pub const CAP: usize = 8;

/// What the harness knows about the root allocation.
#[derive(Clone, Copy)]
pub struct RootInfo {
    pub ptr: usize,
    pub cap: usize,
    pub len: usize,
    pub old: [u8; CAP],
}

/// A root buffer kind with concrete capacity CAP, symbolic length and content.
pub trait Root: IoBufMut + RootPtr + Sized {
    /// true if `set_len` changes the observable length (Vec-like); arrays are always "full"
    const GROWS: bool;
    /// true if SetLen::set_len may also shrink (Vec); ArrayVec/SmallVec only ever grow
    const SHRINKS: bool = false;
    fn make() -> Self;
    fn info(&mut self) -> RootInfo {
        let len = (*self).as_init().len();
        let u = self.as_uninit();
        let cap = u.len();
        let ptr = u.as_ptr() as usize;
        let mut old = [0u8; CAP];
        // only the initialised prefix is meaningful
        let init = (*self).as_init();
        let mut i = 0;
        while i < CAP {
            if i < len {
                old[i] = init[i];
            }
            i += 1;
        }
        RootInfo { ptr, cap, len, old }
    }
}

impl Root for [u8; CAP] {
    const GROWS: bool = false;
    fn make() -> Self {
        kani::any()
    }
}

impl Root for Box<[u8; CAP]> {
    const GROWS: bool = false;
    fn make() -> Self {
        Box::new(kani::any())
    }
}

impl Root for Vec<u8> {
    const GROWS: bool = true;
    const SHRINKS: bool = true;
    fn make() -> Self {
        let mut v: Vec<u8> = Vec::with_capacity(CAP);
        let content: [u8; CAP] = kani::any();
        let len: usize = kani::any();
        kani::assume(len <= CAP);
        kani::assume(v.capacity() == CAP);
        unsafe {
            std::ptr::copy_nonoverlapping(content.as_ptr(), v.as_mut_ptr(), CAP);
            v.set_len(len);
        }
        v
    }
}

impl Root for arrayvec::ArrayVec<u8, CAP> {
    const GROWS: bool = true;
    fn make() -> Self {
        let mut v = arrayvec::ArrayVec::<u8, CAP>::new();
        let content: [u8; CAP] = kani::any();
        let len: usize = kani::any();
        kani::assume(len <= CAP);
        unsafe {
            std::ptr::copy_nonoverlapping(content.as_ptr(), v.as_mut_ptr(), CAP);
            v.set_len(len);
        }
        v
    }
}

impl Root for smallvec::SmallVec<[u8; CAP]> {
    const GROWS: bool = true;
    fn make() -> Self {
        let mut v = smallvec::SmallVec::<[u8; CAP]>::new();
        let content: [u8; CAP] = kani::any();
        let len: usize = kani::any();
        kani::assume(len <= CAP);
        unsafe {
            std::ptr::copy_nonoverlapping(content.as_ptr(), v.as_mut_ptr(), CAP);
            v.set_len(len);
        }
        v
    }
}

/// Address of the root allocation as seen *through* a view (inline roots move with the view).
pub trait RootPtr {
    fn root_ptr(&mut self) -> usize;
}
impl<const N: usize> RootPtr for [u8; N] {
    fn root_ptr(&mut self) -> usize { self.as_ptr() as usize }
}
impl RootPtr for Box<[u8; CAP]> {
    fn root_ptr(&mut self) -> usize { self.as_ptr() as usize }
}
impl RootPtr for Vec<u8> {
    fn root_ptr(&mut self) -> usize { self.as_ptr() as usize }
}
impl<const N: usize> RootPtr for arrayvec::ArrayVec<u8, N> {
    fn root_ptr(&mut self) -> usize { self.as_ptr() as usize }
}
impl RootPtr for smallvec::SmallVec<[u8; CAP]> {
    fn root_ptr(&mut self) -> usize { self.as_ptr() as usize }
}
impl<T: RootPtr> RootPtr for Slice<T> {
    fn root_ptr(&mut self) -> usize { self.as_inner_mut().root_ptr() }
}
impl<T: RootPtr> RootPtr for Uninit<T> {
    fn root_ptr(&mut self) -> usize { self.as_inner_mut().root_ptr() }
}

/// A view's geometry relative to the root allocation.
#[derive(Clone, Copy, PartialEq, Eq, Debug)]
pub struct Geom {
    pub off: usize,
    pub init: usize,
    pub cap: usize,
}

/// Clause 1 of the contract: init is a prefix of uninit, both inside the root allocation.
pub fn geom<V: IoBufMut + RootPtr>(v: &mut V, r: &RootInfo) -> Geom {
    let rp = v.root_ptr();
    let (ip, il) = {
        let s = (*v).as_init();
        (s.as_ptr() as usize, s.len())
    };
    let (up, ul) = {
        let s = v.as_uninit();
        (s.as_ptr() as usize, s.len())
    };
    assert!(ip == up, "as_init and as_uninit start at different addresses");
    assert!(il <= ul, "initialized length exceeds capacity");
    assert!(up >= rp, "view starts before the root allocation");
    assert!(up - rp + ul <= r.cap, "view ends after the root allocation");
    // derived accessors agree
    assert!((*v).buf_len() == il);
    assert!(v.buf_capacity() == ul);
    Geom { off: up - rp, init: il, cap: ul }
}

/// A driver-style fill: write k bytes at the start of the writable region, record with
/// `advance_to(k)` (what every driver completion path does).
pub fn fill_to<V: IoBufMut>(v: &mut V, data: &[u8; CAP], k: usize) {
    let u = v.as_uninit();
    assert!(k <= u.len());
    unsafe {
        std::ptr::copy_nonoverlapping(data.as_ptr(), u.as_mut_ptr() as *mut u8, k);
        v.advance_to(k);
    }
}

/// Check the root after `k` bytes of `data` were written at root offset `off` and recorded.
/// `probe` is one symbolic index (instead of a loop over all positions).
pub fn check_root_after<R: Root>(root: &R, r: &RootInfo, off: usize, k: usize, data: &[u8; CAP]) {
    let now = root.as_init();
    let want_len = if R::GROWS && k > 0 { r.len.max(off + k) } else { r.len };
    assert!(now.len() == want_len, "root length after fill is not max(old, off+k)");
    let probe: usize = kani::any();
    kani::assume(probe < CAP);
    if probe < now.len() {
        if probe >= off && probe < off + k {
            assert!(now[probe] == data[probe - off], "written byte not visible at its position");
        } else if probe < r.len {
            assert!(now[probe] == r.old[probe], "byte outside the written range changed");
        }
    }
}

/// A symbolic range in every `RangeBounds` form (Included/Excluded/Unbounded on both sides).
pub fn any_range() -> (Bound<usize>, Bound<usize>) {
    let a: usize = kani::any();
    let b: usize = kani::any();
    let s = match kani::any::<u8>() % 3 {
        0 => Bound::Included(a),
        1 => Bound::Excluded(a),
        _ => Bound::Unbounded,
    };
    let e = match kani::any::<u8>() % 3 {
        0 => Bound::Included(b),
        1 => Bound::Excluded(b),
        _ => Bound::Unbounded,
    };
    (s, e)
}

/// Reference semantics of a range: (begin, Option<end exclusive>), None if the form overflows.
pub fn range_ref(r: &(Bound<usize>, Bound<usize>)) -> Option<(usize, Option<usize>)> {
    let b = match r.0 {
        Bound::Included(n) => n,
        Bound::Excluded(n) => n.checked_add(1)?,
        Bound::Unbounded => 0,
    };
    let e = match r.1 {
        Bound::Included(n) => Some(n.checked_add(1)?),
        Bound::Excluded(n) => Some(n),
        Bound::Unbounded => None,
    };
    Some((b, e))
}

/// Expected geometry of `slice(range)` over a parent view with geometry `p`
/// (documented: like `&buf[begin..end]`, end clamped).
pub fn slice_ref(p: Geom, b: usize, e: Option<usize>) -> Geom {
    let ei = e.unwrap_or(p.init).min(p.init);
    let ec = e.unwrap_or(p.cap).min(p.cap);
    Geom { off: p.off + b, init: ei.saturating_sub(b), cap: ec.saturating_sub(b) }
}

#[allow(dead_code)]
pub fn as_u8(s: &[MaybeUninit<u8>], i: usize) -> u8 {
    unsafe { s[i].assume_init() }
}
