//! Vectored views: VectoredSlice (slice / slice_mut), VectoredBufIter (owned_iter), SetLen
//! distribution over members (arrays, Vec of buffers, tuples).
use super::*;

pub const MCAP: usize = 4;
type Member = arrayvec::ArrayVec<u8, MCAP>;

fn member() -> (Member, usize, [u8; MCAP]) {
    let mut v = Member::new();
    let content: [u8; MCAP] = kani::any();
    let len: usize = kani::any();
    kani::assume(len <= MCAP);
    unsafe {
        std::ptr::copy_nonoverlapping(content.as_ptr(), v.as_mut_ptr(), MCAP);
        v.set_len(len);
    }
    (v, len, content)
}

fn vmember() -> (Vec<u8>, usize, [u8; MCAP]) {
    let mut v: Vec<u8> = Vec::with_capacity(MCAP);
    kani::assume(v.capacity() == MCAP);
    let content: [u8; MCAP] = kani::any();
    let len: usize = kani::any();
    kani::assume(len <= MCAP);
    unsafe {
        std::ptr::copy_nonoverlapping(content.as_ptr(), v.as_mut_ptr(), MCAP);
        v.set_len(len);
    }
    (v, len, content)
}

/// Collect (ptr, len) of up to 2 init slices / uninit slices of a vectored view.
fn init_parts<V: IoVectoredBuf>(v: &V) -> ([(usize, usize); 2], usize) {
    let mut out = [(0usize, 0usize); 2];
    let mut n = 0;
    for s in v.iter_slice() {
        assert!(n < 2, "more slices than members");
        out[n] = (s.as_ptr() as usize, s.len());
        n += 1;
    }
    (out, n)
}

fn uninit_parts<V: IoVectoredBufMut>(v: &mut V) -> ([(usize, usize); 2], usize) {
    let mut out = [(0usize, 0usize); 2];
    let mut n = 0;
    for s in v.iter_uninit_slice() {
        assert!(n < 2, "more slices than members");
        out[n] = (s.as_ptr() as usize, s.len());
        n += 1;
    }
    (out, n)
}

/// `slice(begin)` skips `begin` initialized bytes: the remaining init slices are the
/// concatenation of all init bytes from position `begin`.
fn slice_init_generic<V: IoVectoredBufMut>(bufs: V, ptrs: fn(&V) -> [usize; 2], l: [usize; 2]) {
    let begin: usize = kani::any();
    kani::assume(begin <= l[0] + l[1] + 1);
    let total = l[0] + l[1];
    let v = bufs.slice(begin);
    assert!(v.begin() == begin);
    let p = ptrs(v.as_inner());
    let (parts, n) = init_parts(&v);
    // reference: skip whole members while their length <= remaining offset
    let (want, wn): ([(usize, usize); 2], usize) = if begin < l[0] {
        ([(p[0] + begin, l[0] - begin), (p[1], l[1])], 2)
    } else if begin - l[0] < l[1] {
        ([(p[1] + (begin - l[0]), l[1] - (begin - l[0])), (0, 0)], 1)
    } else {
        ([(0, 0), (0, 0)], 0)
    };
    assert!(n == wn, "number of remaining slices");
    let mut i = 0;
    while i < 2 {
        if i < n {
            assert!(parts[i] == want[i], "remaining init slice differs");
        }
        i += 1;
    }
    assert!(v.total_len() == total.saturating_sub(begin));
    kani::cover!(begin > 0 && begin < l[0]);
    kani::cover!(begin > l[0] && wn == 1 && l[0] > 0);
    kani::cover!(wn == 0);
    let _ = v.into_inner();
}

/// `slice_mut(begin)` + vectored fill of n bytes (in member order, each from the member's
/// start / the view's offset) + advance_vec_to(n): the bytes are visible at their positions.
/// Precondition taken from the only in-tree use (read loops): everything before `begin` in
/// capacity space is already initialized, members after it are empty.
fn slice_mut_fill_generic<V: IoVectoredBufMut>(
    bufs: V,
    ptrs: fn(&V) -> [usize; 2],
    l: [usize; 2],
    members: fn(&V) -> [(usize, usize); 2],
) {
    let begin: usize = kani::any();
    kani::assume(begin <= 2 * MCAP);
    // precondition: prefix initialised, nothing initialised beyond
    if begin <= MCAP {
        kani::assume(l[0] == begin && l[1] == 0);
    } else {
        kani::assume(l[0] == MCAP && l[1] == begin - MCAP);
    }
    let mut v = bufs.slice_mut(begin);
    let p = ptrs(v.as_inner());
    let (parts, n) = uninit_parts(&mut v);
    // geometry: writable region = capacity space [begin, 2*MCAP)
    if begin < MCAP {
        assert!(n == 2 && parts[0] == (p[0] + begin, MCAP - begin) && parts[1] == (p[1], MCAP));
    } else if begin < 2 * MCAP {
        assert!(n == 1 && parts[0] == (p[1] + (begin - MCAP), 2 * MCAP - begin));
    } else {
        assert!(n == 0);
    }
    assert!(v.total_capacity() == 2 * MCAP - begin);
    let data: [u8; 2 * MCAP] = kani::any();
    let k: usize = kani::any();
    kani::assume(k <= 2 * MCAP - begin);
    // scatter `data[..k]` over the writable slices, in order
    {
        let mut left = k;
        let mut src = 0;
        for s in v.iter_uninit_slice() {
            let c = left.min(s.len());
            unsafe {
                std::ptr::copy_nonoverlapping(data.as_ptr().add(src), s.as_mut_ptr() as *mut u8, c);
            }
            src += c;
            left -= c;
        }
        assert!(left == 0);
    }
    unsafe { v.advance_vec_to(k) };
    assert!(v.total_len() == k, "recorded length of the view");
    let m = members(v.as_inner());
    // members now hold begin + k initialised bytes, laid out in capacity order
    let tot = begin + k;
    let w0 = tot.min(MCAP);
    let w1 = tot - w0;
    assert!(m[0] == (p[0], w0), "first member length after vectored fill");
    assert!(m[1] == (p[1], w1), "second member length after vectored fill");
    kani::cover!(begin > 0 && begin < MCAP && tot > MCAP);
    kani::cover!(begin > MCAP && k > 0);
    kani::cover!(k == 0);
    let probe: usize = kani::any();
    if probe >= begin && probe < tot {
        let byte = unsafe {
            if probe < MCAP { *((p[0] + probe) as *const u8) } else { *((p[1] + probe - MCAP) as *const u8) }
        };
        assert!(byte == data[probe - begin], "scattered byte not at its position");
    }
    std::mem::forget(v);
}

/// owned_iter(): visits each member once, in order; a fill of member i is recorded in member i
/// and leaves earlier members' recorded lengths intact.
fn owned_iter_generic<V: IoVectoredBufMut>(
    bufs: V,
    members: fn(&V) -> [(usize, usize); 2],
) {
    let it = match bufs.owned_iter() {
        Ok(it) => it,
        Err(_) => unreachable!("two members"),
    };
    let mut it = it;
    // member 0: fresh fill (members start empty in the read-loop use)
    let d0: [u8; MCAP] = kani::any();
    let k0: usize = kani::any();
    let k1: usize = kani::any();
    kani::assume(k0 <= MCAP && k1 <= MCAP);
    // Sharp edge excluded by precondition: the iterator records *total* lengths through the
    // container's SetLen, which assumes each earlier member was filled completely.
    kani::assume(k0 == MCAP || k1 == 0);
    {
        let u = it.as_uninit();
        assert!(u.len() == MCAP);
        unsafe {
            std::ptr::copy_nonoverlapping(d0.as_ptr(), u.as_mut_ptr() as *mut u8, k0);
            it.advance_to(k0);
        }
    }
    let mut it = match it.next() {
        Ok(it) => it,
        Err(_) => unreachable!("second member exists"),
    };
    let d1: [u8; MCAP] = kani::any();
    {
        let u = it.as_uninit();
        assert!(u.len() == MCAP);
        unsafe {
            std::ptr::copy_nonoverlapping(d1.as_ptr(), u.as_mut_ptr() as *mut u8, k1);
            it.advance_to(k1);
        }
    }
    let bufs = match it.next() {
        Ok(_) => unreachable!("only two members"),
        Err(b) => b,
    };
    let m = members(&bufs);
    let p: usize = kani::any();
    kani::assume(p < MCAP);
    assert!(m[0].1 == k0);
    assert!(m[1].1 == k1);
    if p < k0 {
        assert!(unsafe { *((m[0].0 + p) as *const u8) } == d0[p], "member 0 content");
    }
    if p < k1 {
        assert!(unsafe { *((m[1].0 + p) as *const u8) } == d1[p], "member 1 content");
    }
    kani::cover!(k0 == MCAP && k1 > 0 && k1 < MCAP);
    kani::cover!(k0 < MCAP && k1 == 0);
    std::mem::forget(bufs);
}

fn arr2() -> ([Member; 2], [usize; 2]) {
    let (a, la, _) = member();
    let (b, lb, _) = member();
    ([a, b], [la, lb])
}

fn arr_ptrs(b: &[Member; 2]) -> [usize; 2] {
    [b[0].as_ptr() as usize, b[1].as_ptr() as usize]
}

fn arr_members(b: &[Member; 2]) -> [(usize, usize); 2] {
    [(b[0].as_ptr() as usize, b[0].len()), (b[1].as_ptr() as usize, b[1].len())]
}

pub mod q_array_of_arrayvec {
    use super::*;
    #[kani::proof]
    #[kani::unwind(6)]
    // bound: [ArrayVec<u8,4>; 2], symbolic member lengths, begin <= total+1
    // claim: slice(begin) skips exactly `begin` initialized bytes
    pub fn slice_init() {
        let (bufs, l) = arr2();
        slice_init_generic(bufs, arr_ptrs, l);
    }
    #[kani::proof]
    #[kani::unwind(6)]
    // bound: [ArrayVec<u8,4>; 2], begin <= 8 (prefix initialised), k <= 8-begin scattered bytes
    // claim: slice_mut(begin) exposes capacity space [begin, 8); advance_vec_to(k) records k bytes at their positions
    pub fn slice_mut_fill() {
        let (bufs, l) = arr2();
        slice_mut_fill_generic(bufs, arr_ptrs, l, arr_members);
    }
    #[kani::proof]
    #[kani::unwind(6)]
    // bound: [ArrayVec<u8,4>; 2] empty members, fills k0,k1 <= 4 via owned_iter()/next()
    // claim: VectoredBufIter visits members in order once; fills recorded in the right member
    pub fn owned_iter() {
        let (bufs, l) = arr2();
        kani::assume(l[0] == 0 && l[1] == 0);
        owned_iter_generic(bufs, arr_members);
    }
}

pub mod q_tuple {
    use super::*;
    type T = (Member, (Member,));
    fn mk() -> (T, [usize; 2]) {
        let (a, la, _) = member();
        let (b, lb, _) = member();
        ((a, (b,)), [la, lb])
    }
    fn ptrs(t: &T) -> [usize; 2] {
        [t.0.as_ptr() as usize, (t.1).0.as_ptr() as usize]
    }
    fn members(t: &T) -> [(usize, usize); 2] {
        [(t.0.as_ptr() as usize, t.0.len()), ((t.1).0.as_ptr() as usize, (t.1).0.len())]
    }
    #[kani::proof]
    #[kani::unwind(6)]
    // bound: (ArrayVec<u8,4>, (ArrayVec<u8,4>,)), symbolic member lengths
    pub fn slice_init() {
        let (t, l) = mk();
        slice_init_generic(t, ptrs, l);
    }
    #[kani::proof]
    #[kani::unwind(6)]
    // bound: tuple of two ArrayVec<u8,4>, begin <= 8, k <= 8-begin
    pub fn slice_mut_fill() {
        let (t, l) = mk();
        slice_mut_fill_generic(t, ptrs, l, members);
    }
    #[kani::proof]
    #[kani::unwind(6)]
    // bound: tuple of two empty ArrayVec<u8,4>, fills k0,k1 <= 4
    pub fn owned_iter() {
        let (t, l) = mk();
        kani::assume(l[0] == 0 && l[1] == 0);
        owned_iter_generic(t, members);
    }
}

pub mod q_vec_of_vec {
    use super::*;
    fn mk() -> (Vec<Vec<u8>>, [usize; 2]) {
        let (a, la, _) = vmember();
        let (b, lb, _) = vmember();
        (vec![a, b], [la, lb])
    }
    fn ptrs(v: &Vec<Vec<u8>>) -> [usize; 2] {
        [v[0].as_ptr() as usize, v[1].as_ptr() as usize]
    }
    fn members(v: &Vec<Vec<u8>>) -> [(usize, usize); 2] {
        [(v[0].as_ptr() as usize, v[0].len()), (v[1].as_ptr() as usize, v[1].len())]
    }
    #[kani::proof]
    #[kani::unwind(6)]
    // bound: Vec<Vec<u8>> with 2 members of capacity 4, symbolic lengths
    pub fn slice_init() {
        let (v, l) = mk();
        slice_init_generic(v, ptrs, l);
    }
    #[kani::proof]
    #[kani::unwind(6)]
    // bound: Vec<Vec<u8>> 2 members cap 4, begin <= 8, k <= 8-begin
    pub fn slice_mut_fill() {
        let (v, l) = mk();
        slice_mut_fill_generic(v, ptrs, l, members);
    }
    #[kani::proof]
    #[kani::unwind(6)]
    // bound: Vec<Vec<u8>> 2 empty members cap 4, fills k0,k1 <= 4
    pub fn owned_iter() {
        let (v, l) = mk();
        kani::assume(l[0] == 0 && l[1] == 0);
        owned_iter_generic(v, members);
    }
}
