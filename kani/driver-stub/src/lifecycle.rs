use super::*;

fn unwrap_ready(e: PushEntry<Key<Op>, BufResult<usize, Op>>) -> BufResult<usize, Op> {
    match e {
        PushEntry::Ready(r) => r,
        PushEntry::Pending(_) => unreachable!("completed operation reported as pending"),
    }
}
fn unwrap_pending(e: PushEntry<Key<Op>, BufResult<usize, Op>>) -> Key<Op> {
    match e {
        PushEntry::Pending(k) => k,
        PushEntry::Ready(_) => unreachable!("result fabricated before the driver completed the operation"),
    }
}

#[kani::proof]
#[kani::unwind(4)]
#[kani::stub(compio_driver::panic::resume_unwind_io, resume_unwind_io_stub)]
// bound: one operation; 0..=2 waker registrations (ids solver-chosen), an early pop, one completion with a symbolic result (Ok(n) or OS error), final pop
// stubs: compio_driver::panic::resume_unwind_io = identity
// claim: C02 — pop is Pending until the driver completes, then Ready exactly once with the driver's result and the submitted buffer; the waker registered last is woken exactly once; C01 — the buffer is not dropped before the caller gets it back
pub fn c02_q_single_op() {
    let mut p = proactor();
    let payload: u32 = kani::any();
    let key = hook::pending_key(&p, Op::new(0, payload), DriverType::Poll);
    let kernel = hook::kernel_ref(&key);
    assert!(hook::strong_count(&key) == 2);
    let w1: usize = kani::any();
    let w2: usize = kani::any();
    kani::assume(w1 < 3 && w2 < 3);
    let reg1: bool = kani::any();
    let reg2: bool = kani::any();
    if reg1 {
        p.update_waker(&key, &waker(w1));
    }
    // an early pop: no result yet
    let key = if kani::any() { unwrap_pending(p.pop(key)) } else { key };
    if reg2 {
        p.update_waker(&key, &waker(w2));
    }
    assert!(!hook::has_result(&key) && drops(0) == 0);
    let r = Res::any();
    hook::complete(kernel, r.make());
    // exactly the last registered waker was woken, once
    let last = if reg2 { Some(w2) } else if reg1 { Some(w1) } else { None };
    let mut i = 0;
    while i < 3 {
        let want = if last == Some(i) { 1 } else { 0 };
        assert!(wakes(i) == want, "wrong waker woken / woken more than once");
        i += 1;
    }
    assert!(hook::has_result(&key) && hook::strong_count(&key) == 1 && drops(0) == 0);
    // a waker registered after completion is not needed and must not disturb the result
    if kani::any() {
        p.update_waker(&key, &waker(2));
    }
    let BufResult(res, op) = unwrap_ready(p.pop(key));
    assert!(r.matches(&res), "result differs from what the driver reported");
    std::mem::forget(res);
    assert!(drops(0) == 0, "buffer dropped before it was handed back");
    let buf = op.into_inner();
    assert!(buf.tag == 0 && buf.payload == payload, "not the submitted buffer");
    drop(buf);
    assert!(drops(0) == 1, "buffer not released exactly once");
    kani::cover!(reg1 && reg2 && w1 != w2 && !r.ok);
    kani::cover!(!reg1 && !reg2 && r.ok);
}

#[kani::proof]
#[kani::unwind(4)]
#[kani::stub(compio_driver::panic::resume_unwind_io, resume_unwind_io_stub)]
// bound: two concurrently pending operations, completions and pops in solver-chosen order, symbolic results
// stubs: compio_driver::panic::resume_unwind_io = identity
// claim: C02 — outcomes are never swapped, duplicated or lost between concurrent operations; each submitter's own waker is woken
pub fn c02_q_two_ops_no_swap() {
    let mut p = proactor();
    let (pa, pb): (u32, u32) = kani::any();
    let ka = hook::pending_key(&p, Op::new(0, pa), DriverType::Poll);
    let kb = hook::pending_key(&p, Op::new(1, pb), DriverType::Poll);
    let na = hook::kernel_ref(&ka);
    let nb = hook::kernel_ref(&kb);
    p.update_waker(&ka, &waker(0));
    p.update_waker(&kb, &waker(1));
    let (ra, rb) = (Res::any(), Res::any());
    let b_first: bool = kani::any();
    if b_first {
        hook::complete(nb, rb.make());
        assert!(wakes(1) == 1 && wakes(0) == 0);
        // A is still pending
        let ka2 = unwrap_pending(p.pop(ka));
        hook::complete(na, ra.make());
        let BufResult(res_a, op_a) = unwrap_ready(p.pop(ka2));
        let BufResult(res_b, op_b) = unwrap_ready(p.pop(kb));
        assert!(ra.matches(&res_a) && rb.matches(&res_b), "results swapped");
        assert!(op_a.buf.tag == 0 && op_a.buf.payload == pa && op_b.buf.tag == 1 && op_b.buf.payload == pb);
        std::mem::forget((res_a, res_b));
    } else {
        hook::complete(na, ra.make());
        assert!(wakes(0) == 1 && wakes(1) == 0);
        let BufResult(res_a, op_a) = unwrap_ready(p.pop(ka));
        assert!(ra.matches(&res_a) && op_a.buf.tag == 0 && op_a.buf.payload == pa);
        assert!(drops(1) == 0, "neighbour's buffer touched");
        let kb2 = unwrap_pending(p.pop(kb));
        hook::complete(nb, rb.make());
        let BufResult(res_b, op_b) = unwrap_ready(p.pop(kb2));
        assert!(rb.matches(&res_b) && op_b.buf.tag == 1 && op_b.buf.payload == pb);
        std::mem::forget((res_a, res_b));
    }
    assert!(wakes(0) == 1 && wakes(1) == 1 && wakes(2) == 0);
    assert!(drops(0) == 1 && drops(1) == 1);
    kani::cover!(b_first && ra.ok && !rb.ok);
    kani::cover!(!b_first);
}

#[kani::proof]
#[kani::unwind(4)]
#[kani::stub(compio_driver::panic::resume_unwind_io, resume_unwind_io_stub)]
// bound: one operation; the submitter cancels (drops its future) before or after the driver's completion; the driver's reference is returned by its completion
// stubs: compio_driver::panic::resume_unwind_io = identity
// claim: C01 — the operation's buffer stays alive until BOTH the kernel's final completion arrived AND the submitter let go, in either order, and is then dropped exactly once; C05 — cancel after completion returns the genuine result, cancel while pending returns nothing and fabricates nothing
pub fn c01_q_cancel_vs_completion() {
    let mut p = proactor();
    let payload: u32 = kani::any();
    let key = hook::pending_key(&p, Op::new(0, payload), DriverType::Poll);
    let kernel = hook::kernel_ref(&key);
    p.update_waker(&key, &waker(0));
    let r = Res::any();
    if kani::any() {
        // cancel while in flight: nothing comes back, the buffer must survive
        let out = p.cancel(key);
        assert!(out.is_none(), "cancel of a pending operation fabricated a result");
        assert!(drops(0) == 0, "buffer freed while the kernel may still use it");
        // ... until the kernel reports the final completion
        hook::complete(kernel, r.make());
        assert!(drops(0) == 1, "buffer leaked or double-freed after the final completion");
        kani::cover!(true);
    } else {
        hook::complete(kernel, r.make());
        assert!(drops(0) == 0);
        match p.cancel(key) {
            Some(BufResult(res, op)) => {
                assert!(r.matches(&res), "cancel after completion must report the genuine result");
                std::mem::forget(res);
                assert!(op.buf.payload == payload && drops(0) == 0);
                drop(op);
            }
            None => unreachable!("completed, uniquely owned operation: result lost"),
        }
        assert!(drops(0) == 1);
        kani::cover!(!r.ok);
    }
}

#[kani::proof]
#[kani::unwind(4)]
#[kani::stub(compio_driver::panic::resume_unwind_io, resume_unwind_io_stub)]
// bound: two operations, one cancel token for the first; the token is fired 0..=2 times before / after completion / after the key is gone
// stubs: compio_driver::panic::resume_unwind_io = identity
// claim: C05 — a token cancels only its own operation, issues at most one cancellation, never after completion, never keeps the operation alive, is inert once the operation is gone; the neighbour is untouched and the genuine result is never overwritten
pub fn c05_q_cancel_token() {
    let mut p = proactor();
    let ka = hook::pending_key(&p, Op::new(0, 11), DriverType::Poll);
    let kb = hook::pending_key(&p, Op::new(1, 22), DriverType::Poll);
    let na = hook::kernel_ref(&ka);
    let nb = hook::kernel_ref(&kb);
    let token = p.register_cancel(&ka);
    assert!(token.cancels(&ka) && !token.cancels(&kb));
    assert!(hook::strong_count(&ka) == 2, "a cancel token must not keep the operation alive");
    let ra = Res::any();
    let before: bool = kani::any();
    let mut issued = 0u8;
    if before {
        if p.cancel_token(token.clone()) {
            issued += 1;
        }
        assert!(issued == 1, "cancellation of a pending operation not issued");
        // firing again is harmless and issues nothing
        assert!(!p.cancel_token(token.clone()), "second cancel issued again");
    }
    hook::complete(na, ra.make());
    // after completion a token is inert
    assert!(!p.cancel_token(token.clone()), "cancel issued after completion");
    let BufResult(res, op) = match p.pop(ka) {
        PushEntry::Ready(r) => r,
        PushEntry::Pending(_) => unreachable!(),
    };
    assert!(ra.matches(&res), "genuine result overwritten by cancellation");
    std::mem::forget(res);
    drop(op);
    assert!(drops(0) == 1);
    // the key is gone: the token cannot resurrect or cancel anything
    assert!(!p.cancel_token(token), "token fired on a finished operation");
    // neighbour untouched throughout
    assert!(drops(1) == 0 && !hook::has_result(&kb) && hook::strong_count(&kb) == 2);
    let rb = Res::any();
    hook::complete(nb, rb.make());
    let BufResult(res_b, op_b) = match p.pop(kb) {
        PushEntry::Ready(r) => r,
        PushEntry::Pending(_) => unreachable!(),
    };
    assert!(rb.matches(&res_b) && op_b.buf.payload == 22);
    std::mem::forget(res_b);
    kani::cover!(before);
    kani::cover!(!before);
}

#[kani::proof]
#[kani::unwind(4)]
#[kani::stub(compio_driver::panic::resume_unwind_io, resume_unwind_io_stub)]
// bound: one pending operation; the Proactor (runtime) is dropped while it is in flight, before or after the submitter's key; the kernel's reference is released last or first
// stubs: compio_driver::panic::resume_unwind_io = identity
// claim: C01 — dropping the runtime / the future early never frees the in-flight buffer; it is freed exactly once when the last of {submitter, kernel} lets go
pub fn c01_q_runtime_drop() {
    let p = proactor();
    let key = hook::pending_key(&p, Op::new(0, 5), DriverType::Poll);
    let kernel = hook::kernel_ref(&key);
    let order: u8 = kani::any();
    kani::assume(order < 3);
    match order {
        0 => {
            drop(p);
            assert!(drops(0) == 0);
            drop(key);
            assert!(drops(0) == 0, "buffer freed while the kernel still owns the operation");
            hook::release(kernel);
        }
        1 => {
            drop(key);
            assert!(drops(0) == 0, "buffer freed while the kernel still owns the operation");
            drop(p);
            assert!(drops(0) == 0);
            hook::complete(kernel, Res::any().make());
        }
        _ => {
            hook::complete(kernel, Res::any().make());
            assert!(drops(0) == 0, "buffer freed while the submitter still holds the key");
            drop(p);
            assert!(drops(0) == 0);
            drop(key);
        }
    }
    assert!(drops(0) == 1, "buffer not released exactly once");
    kani::cover!(order == 0);
    kani::cover!(order == 2);
}
