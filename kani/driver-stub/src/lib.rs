//! C01 / C02 / C05 at the Proactor / key layer.
//!
//! compio-driver is built without io-uring/polling (its `stub` driver: no syscalls); the harness
//! plays an adversarial but contract-abiding driver through the `__verif` hook: it holds the
//! reference a real driver leaks to the kernel for every accepted submission and delivers exactly
//! one final completion per operation, at a solver-chosen moment with a solver-chosen result.
#![cfg(kani)]
#![allow(clippy::all, static_mut_refs)]

use std::io;
use std::task::{RawWaker, RawWakerVTable, Waker};

use compio_buf::{BufResult, IntoInner};
use compio_driver::__verif as hook;
use compio_driver::{DriverType, Key, OpCode, Proactor, PushEntry};

// ---- ghost state --------------------------------------------------------------------------
static mut DROPS: [u8; 2] = [0, 0]; // per tag: how often the op (and its buffer) was dropped
static mut WAKES: [u8; 3] = [0, 0, 0]; // per waker id

pub struct Buf {
    tag: u8,
    payload: u32,
}
impl Drop for Buf {
    fn drop(&mut self) {
        unsafe { DROPS[self.tag as usize] += 1 };
    }
}

/// A harness operation: carries a tagged, drop-counted buffer.
pub struct Op {
    buf: Buf,
}
impl Op {
    fn new(tag: u8, payload: u32) -> Self {
        Op { buf: Buf { tag, payload } }
    }
}
impl OpCode for Op {
    type Control = ();
}
impl IntoInner for Op {
    type Inner = Buf;
    fn into_inner(self) -> Buf {
        self.buf
    }
}

fn drops(tag: u8) -> u8 {
    unsafe { DROPS[tag as usize] }
}
fn wakes(id: usize) -> u8 {
    unsafe { WAKES[id] }
}

fn vt_clone(p: *const ()) -> RawWaker {
    RawWaker::new(p, &VT)
}
fn vt_wake(p: *const ()) {
    unsafe { WAKES[p as usize] += 1 };
}
fn vt_drop(_: *const ()) {}
static VT: RawWakerVTable = RawWakerVTable::new(vt_clone, vt_wake, vt_wake, vt_drop);
fn waker(id: usize) -> Waker {
    unsafe { Waker::from_raw(RawWaker::new(id as *const (), &VT)) }
}

/// A completion result as a driver would deliver it: Ok(n) or an OS error code.
#[derive(Clone, Copy)]
pub struct Res {
    ok: bool,
    val: u16,
}
impl Res {
    fn any() -> Self {
        let val: u16 = kani::any();
        let ok: bool = kani::any();
        kani::assume(ok || (val >= 1 && val <= 130));
        Res { ok, val }
    }
    fn make(&self) -> io::Result<usize> {
        if self.ok {
            Ok(self.val as usize)
        } else {
            Err(io::Error::from_raw_os_error(self.val as i32))
        }
    }
    fn matches(&self, r: &io::Result<usize>) -> bool {
        match r {
            Ok(n) => self.ok && *n == self.val as usize,
            Err(e) => !self.ok && e.raw_os_error() == Some(self.val as i32),
        }
    }
}

fn proactor() -> Proactor {
    match Proactor::new() {
        Ok(p) => p,
        Err(_) => unreachable!("stub proactor"),
    }
}

/// identity stand-in for `compio_driver::panic::resume_unwind_io` (panic transport of thread-pool
/// jobs is outside the claim; the real function downcasts the error's heap payload)
pub fn resume_unwind_io_stub<T>(res: io::Result<T>) -> io::Result<T> {
    res
}

mod lifecycle;
