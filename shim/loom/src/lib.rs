//! Sequential, Kani-friendly stand-in for the `loom` API subset used by compio.
#![allow(dead_code)]

pub mod sched {
    //! Logical threads + preemption hook.
    pub static mut CURRENT: usize = 0;
    pub static mut HOOK: Option<fn()> = None;
    pub static mut BUDGET: u8 = 0;
    pub static mut IN_HOOK: bool = false;

    pub fn current() -> usize { unsafe { CURRENT } }

    /// Called at every visible operation (atomic op, yield).
    pub fn point() {
        unsafe {
            if BUDGET > 0 && !IN_HOOK {
                if let Some(h) = HOOK {
                    if nondet_bool() {
                        BUDGET -= 1;
                        let saved = CURRENT;
                        IN_HOOK = true;
                        h();
                        IN_HOOK = false;
                        CURRENT = saved;
                    }
                }
            }
        }
    }

    #[cfg(kani)]
    fn nondet_bool() -> bool { kani::any() }
    #[cfg(not(kani))]
    fn nondet_bool() -> bool { false }
}

pub mod hint {
    pub fn spin_loop() { crate::sched::point(); }
}

pub mod thread {
    #[derive(Clone, Copy, PartialEq, Eq, Debug, Hash)]
    pub struct ThreadId(pub usize);
    pub struct Thread(ThreadId);
    impl Thread { pub fn id(&self) -> ThreadId { self.0 } }
    pub fn current() -> Thread { Thread(ThreadId(crate::sched::current())) }
    pub fn yield_now() { crate::sched::point(); }
    pub fn panicking() -> bool { false }

    pub struct LocalKey<T: 'static> { pub init: fn() -> T }
    impl<T: 'static> LocalKey<T> {
        pub fn with<R>(&'static self, f: impl FnOnce(&T) -> R) -> R {
            let v = (self.init)();
            f(&v)
        }
    }
}

#[macro_export]
macro_rules! thread_local {
    ($(#[$attr:meta])* $vis:vis static $name:ident: $t:ty = $init:expr; $($rest:tt)*) => {
        $(#[$attr])* $vis static $name: $crate::thread::LocalKey<$t> = {
            fn __init() -> $t { $init }
            $crate::thread::LocalKey { init: __init }
        };
        $crate::thread_local!($($rest)*);
    };
    () => {};
}

pub mod cell {
    pub use std::cell::Cell;

    pub struct UnsafeCell<T> { inner: std::cell::UnsafeCell<T>, writers: std::cell::Cell<u8>, readers: std::cell::Cell<u8> }
    unsafe impl<T: Send> Send for UnsafeCell<T> {}
    unsafe impl<T: Sync> Sync for UnsafeCell<T> {}
    impl<T> UnsafeCell<T> {
        pub fn new(v: T) -> Self { Self { inner: std::cell::UnsafeCell::new(v), writers: std::cell::Cell::new(0), readers: std::cell::Cell::new(0) } }
        pub fn with<R>(&self, f: impl FnOnce(*const T) -> R) -> R {
            assert!(self.writers.get() == 0, "data race: read while written");
            self.readers.set(self.readers.get() + 1);
            let r = f(self.inner.get());
            self.readers.set(self.readers.get() - 1);
            r
        }
        pub fn with_mut<R>(&self, f: impl FnOnce(*mut T) -> R) -> R {
            assert!(self.writers.get() == 0 && self.readers.get() == 0, "data race: write while accessed");
            self.writers.set(1);
            let r = f(self.inner.get());
            self.writers.set(0);
            r
        }
    }
}

pub mod task {
    use std::task::Waker;
    use crate::sched::point;
    /// Model of futures' AtomicWaker: a single slot, every access is a visible step.
    #[derive(Debug, Default)]
    pub struct AtomicWaker(std::cell::RefCell<Option<Waker>>);
    unsafe impl Sync for AtomicWaker {}
    unsafe impl Send for AtomicWaker {}
    impl AtomicWaker {
        pub const fn new() -> Self { Self(std::cell::RefCell::new(None)) }
        pub fn register(&self, w: &Waker) { point(); *self.0.borrow_mut() = Some(w.clone()); }
        pub fn take(&self) -> Option<Waker> { point(); self.0.borrow_mut().take() }
        pub fn wake(&self) { if let Some(w) = self.take() { w.wake() } }
    }
}

pub mod sync {
    use std::ptr::NonNull;
    use crate::sched::point;
    struct Inner<T> { strong: std::cell::Cell<usize>, data: std::mem::ManuallyDrop<T> }
    /// Model of std::sync::Arc with the counter operations as visible steps.
    pub struct Arc<T> { p: NonNull<Inner<T>> }
    unsafe impl<T: Send + Sync> Send for Arc<T> {}
    unsafe impl<T: Send + Sync> Sync for Arc<T> {}
    pub struct Weak<T>(std::marker::PhantomData<T>);
    pub use std::sync::{Mutex, MutexGuard};
    impl<T> Arc<T> {
        pub fn new(v: T) -> Self {
            let b = Box::new(Inner { strong: std::cell::Cell::new(1), data: std::mem::ManuallyDrop::new(v) });
            Self { p: unsafe { NonNull::new_unchecked(Box::into_raw(b)) } }
        }
        fn inner(&self) -> &Inner<T> { unsafe { self.p.as_ref() } }
        pub fn strong_count(this: &Self) -> usize { point(); this.inner().strong.get() }
        pub fn try_unwrap(this: Self) -> Result<T, Self> {
            point();
            if this.inner().strong.get() == 1 {
                let this = std::mem::ManuallyDrop::new(this);
                let mut b = unsafe { Box::from_raw(this.p.as_ptr()) };
                Ok(unsafe { std::mem::ManuallyDrop::take(&mut b.data) })
            } else { Err(this) }
        }
    }
    impl<T> Clone for Arc<T> {
        fn clone(&self) -> Self { point(); let i = self.inner(); i.strong.set(i.strong.get() + 1); Self { p: self.p } }
    }
    impl<T> std::ops::Deref for Arc<T> { type Target = T; fn deref(&self) -> &T { &self.inner().data } }
    impl<T> Drop for Arc<T> {
        fn drop(&mut self) {
            point();
            let n = self.inner().strong.get();
            self.inner().strong.set(n - 1);
            if n == 1 {
                let mut b = unsafe { Box::from_raw(self.p.as_ptr()) };
                unsafe { std::mem::ManuallyDrop::drop(&mut b.data) };
            }
        }
    }
    impl<T: std::fmt::Debug> std::fmt::Debug for Arc<T> {
        fn fmt(&self, f: &mut std::fmt::Formatter<'_>) -> std::fmt::Result { (**self).fmt(f) }
    }

    pub mod atomic {
        pub use std::sync::atomic::Ordering;
        use crate::sched::point;

        macro_rules! atomic_int {
            ($name:ident, $t:ty) => {
                #[derive(Debug, Default)]
                pub struct $name(std::cell::Cell<$t>);
                unsafe impl Sync for $name {}
                unsafe impl Send for $name {}
                impl $name {
                    pub fn new(v: $t) -> Self { Self(std::cell::Cell::new(v)) }
                    pub fn load(&self, _: Ordering) -> $t { point(); self.0.get() }
                    pub fn store(&self, v: $t, _: Ordering) { point(); self.0.set(v) }
                    pub fn swap(&self, v: $t, _: Ordering) -> $t { point(); self.0.replace(v) }
                    pub fn fetch_add(&self, v: $t, _: Ordering) -> $t { point(); let o = self.0.get(); self.0.set(o.wrapping_add(v)); o }
                    pub fn fetch_sub(&self, v: $t, _: Ordering) -> $t { point(); let o = self.0.get(); self.0.set(o.wrapping_sub(v)); o }
                    pub fn fetch_or(&self, v: $t, _: Ordering) -> $t { point(); let o = self.0.get(); self.0.set(o | v); o }
                    pub fn fetch_and(&self, v: $t, _: Ordering) -> $t { point(); let o = self.0.get(); self.0.set(o & v); o }
                    pub fn compare_exchange(&self, c: $t, n: $t, _: Ordering, _: Ordering) -> Result<$t, $t> {
                        point(); let o = self.0.get(); if o == c { self.0.set(n); Ok(o) } else { Err(o) }
                    }
                    pub fn compare_exchange_weak(&self, c: $t, n: $t, s: Ordering, f: Ordering) -> Result<$t, $t> { self.compare_exchange(c, n, s, f) }
                    pub fn fetch_update<F: FnMut($t) -> Option<$t>>(&self, _: Ordering, _: Ordering, mut f: F) -> Result<$t, $t> {
                        point(); let o = self.0.get(); match f(o) { Some(n) => { self.0.set(n); Ok(o) } None => Err(o) }
                    }
                    pub fn fetch_xor(&self, v: $t, _: Ordering) -> $t { point(); let o = self.0.get(); self.0.set(o ^ v); o }
                    pub fn fetch_max(&self, v: $t, _: Ordering) -> $t { point(); let o = self.0.get(); self.0.set(o.max(v)); o }
                    pub fn fetch_min(&self, v: $t, _: Ordering) -> $t { point(); let o = self.0.get(); self.0.set(o.min(v)); o }
                    pub fn get_mut(&mut self) -> &mut $t { self.0.get_mut() }
                    pub fn into_inner(self) -> $t { self.0.into_inner() }
                }
            };
        }
        atomic_int!(AtomicUsize, usize);
        atomic_int!(AtomicU8, u8);
        atomic_int!(AtomicU32, u32);
        atomic_int!(AtomicU64, u64);
        atomic_int!(AtomicU16, u16);
        atomic_int!(AtomicI8, i8);
        atomic_int!(AtomicI16, i16);
        atomic_int!(AtomicI32, i32);
        atomic_int!(AtomicI64, i64);
        atomic_int!(AtomicIsize, isize);

        #[derive(Debug)]
        pub struct AtomicBool(std::cell::Cell<bool>);
        unsafe impl Sync for AtomicBool {}
        unsafe impl Send for AtomicBool {}
        impl AtomicBool {
            pub fn new(v: bool) -> Self { Self(std::cell::Cell::new(v)) }
            pub fn load(&self, _: Ordering) -> bool { point(); self.0.get() }
            pub fn store(&self, v: bool, _: Ordering) { point(); self.0.set(v) }
            pub fn swap(&self, v: bool, _: Ordering) -> bool { point(); self.0.replace(v) }
            pub fn fetch_or(&self, v: bool, _: Ordering) -> bool { point(); let o = self.0.get(); self.0.set(o | v); o }
            pub fn fetch_and(&self, v: bool, _: Ordering) -> bool { point(); let o = self.0.get(); self.0.set(o & v); o }
            pub fn compare_exchange(&self, c: bool, n: bool, _: Ordering, _: Ordering) -> Result<bool, bool> {
                point(); let o = self.0.get(); if o == c { self.0.set(n); Ok(o) } else { Err(o) }
            }
            pub fn compare_exchange_weak(&self, c: bool, n: bool, s: Ordering, f: Ordering) -> Result<bool, bool> { self.compare_exchange(c, n, s, f) }
        }

        #[derive(Debug)]
        pub struct AtomicPtr<T>(std::cell::Cell<*mut T>);
        unsafe impl<T> Sync for AtomicPtr<T> {}
        unsafe impl<T> Send for AtomicPtr<T> {}
        impl<T> AtomicPtr<T> {
            pub fn new(v: *mut T) -> Self { Self(std::cell::Cell::new(v)) }
            pub fn load(&self, _: Ordering) -> *mut T { point(); self.0.get() }
            pub fn store(&self, v: *mut T, _: Ordering) { point(); self.0.set(v) }
            pub fn swap(&self, v: *mut T, _: Ordering) -> *mut T { point(); self.0.replace(v) }
        }
        pub fn fence(_: Ordering) { point(); }
    }
}
