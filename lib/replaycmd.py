"""--replay for Kani-produced replay files: re-run the generated concrete tests natively."""
import re
import kanirun
from common import log


def replay_kani(prop, group, path):
    src = open(path).read()
    tests = {}
    for m in re.finditer(r"(///[^\n]*\n)*#\[test\]\nfn (kani_concrete_playback_\w+)\(\) \{.*?\n\}\n", src, re.S):
        tests[m.group(2)] = m.group(0)
    if not tests:
        log("no concrete tests in replay file (UB-class or stubbed harness): see header comments")
        print(src[:2000])
        return 2
    m = re.search(r"harness (\S+) \(group", src)
    res = kanirun.native_replay(group, tests, harness=m.group(1) if m else None)
    for k, v in res.items():
        print("%s: %s" % (k, "REPRODUCED (panics natively)" if v else "did not reproduce" if v is False else "could not run"))
    return 1 if any(v for v in res.values()) else 0
