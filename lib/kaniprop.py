"""Generic driver for a property decided by Kani harness groups."""
import os
import re

import kanirun
from common import (OK, VIOLATION, INCONCLUSIVE, BROKEN, VERIF, load_known, write_evidence, log,
                    Timer)


def harness_meta(crate):
    """Parse `// bound:` / `// claim:` / `// stubs:` comment lines preceding each #[kani::proof]."""
    meta = {}
    src_dir = os.path.join(kanirun.KANI_DIR, crate, "src")
    for root, _d, files in os.walk(src_dir):
        for fn in files:
            if not fn.endswith(".rs"):
                continue
            lines = open(os.path.join(root, fn)).read().splitlines()
            for i, l in enumerate(lines):
                if l.strip().startswith("#[kani::proof"):
                    # find fn name
                    name = None
                    for j in range(i, min(i + 12, len(lines))):
                        m = re.match(r"\s*(?:pub\s+)?fn\s+(\w+)", lines[j])
                        if m:
                            name = m.group(1)
                            break
                    if not name:
                        continue
                    info = {}
                    k = i - 1
                    while k >= 0 and (lines[k].strip().startswith("//") or
                                      lines[k].strip().startswith("#[")):
                        k -= 1
                    fn_line = i
                    for j in range(i, min(i + 14, len(lines))):
                        if re.match(r"\s*(?:pub\s+)?fn\s+\w+", lines[j]):
                            fn_line = j
                            break
                    for j in range(k + 1, fn_line + 1):
                        m = re.match(r"\s*//+\s*(bound|claim|stubs|outside):\s*(.*)", lines[j])
                        if m:
                            info[m.group(1)] = (info.get(m.group(1), "") + " " + m.group(2)).strip()
                        m = re.search(r"kani::unwind\((\d+)\)", lines[j])
                        if m:
                            info["unwind"] = int(m.group(1))
                    meta.setdefault(name, info)
                    meta[(os.path.splitext(fn)[0], name)] = info
    return meta


def match_known(prop, r, known):
    """A failing harness is a known finding iff an entry names the harness and every failed
    check matches one of the entry's patterns (substring of 'class | description | function')."""
    for e in known.get("findings", []):
        if e.get("property") != prop or e.get("engine", "kani") != "kani":
            continue
        if not (r.name == e.get("harness") or r.name.endswith("::" + e.get("harness", "?"))):
            continue
        pats = e.get("checks", [])
        if all(any(p in c.key() for p in pats) for c in r.failed):
            return e
    return None


def run(prop, tier, plan, level_text_assumptions, extra_coverage=None):
    """plan: list of (Group, {tier: [filters]}).  Returns exit code."""
    timer = Timer()
    known = load_known()
    all_results = []
    cmds = []
    broken, violations, inconclusive = [], [], []
    known_hits = []
    for group, filt in plan:
        filters = list(filt.get("quick", []))
        if tier == "thorough":
            filters += filt.get("thorough", [])
        if not filters:
            continue
        try:
            results, wall, cmdline = kanirun.run_group(group, filters)
        except Exception as e:  # build failure etc.
            log("BROKEN: %s" % e)
            broken.append("%s: %s" % (group.name, e))
            continue
        cmds.append(cmdline)
        for r in results:
            all_results.append(r)
            st = r.status()
            log("  [%s] %-60s %-7s checks=%d covers=%d/%d %.1fs %s" % (
                group.name, r.name, st, r.n_obligations,
                len([c for c in r.covers if c.status == "SATISFIED"]), len(r.covers), r.time_s,
                r.note))
            if st == "ok":
                continue
            if st == "broken":
                broken.append("%s: %s" % (r.name, r.note or "no verdict / undetermined / unwinding"))
                for c in r.failed + r.undetermined:
                    log("      %s: %s @ %s" % (c.status, c.desc, c.loc))
                continue
            e = match_known(prop, r, known)
            if e is not None:
                known_hits.append((r, e))
                continue
            # unknown failure: extract counterexample and replay natively
            for c in r.failed:
                log("      FAILED [%s] %s @ %s in %s" % (c.klass(), c.desc, c.loc, c.func))
            tests = {} if os.environ.get("VERIF_NO_REPLAY") else kanirun.concrete_playback(group, r.name)
            replayed = "not attempted"
            reproduced = None
            if tests and not group.stubbed:
                res = kanirun.native_replay(group, tests, harness=r.name)
                reproduced = any(v is True for v in res.values())
                ran = any(v is not None for v in res.values())
                replayed = "dev profile: %s" % res
                if not ran:
                    reproduced = None
            elif group.stubbed:
                replayed = ("not replayable natively: harness relies on #[kani::stub] "
                            "environment stubs that only exist under the verifier")
            only_ub = all(c.is_ub() for c in r.failed)
            path = kanirun.write_replay_file(prop, r, tests, replayed, cmdline)
            if reproduced or reproduced is None or only_ub or group.stubbed:
                violations.append((r, path))
            else:
                # functional counterexample that does not reproduce natively
                if any(c.is_ub() for c in r.failed):
                    violations.append((r, path))
                else:
                    inconclusive.append((r, path))

    ok_results = [r for r in all_results if r.status() == "ok"]
    meta = {}
    for group, _ in plan:
        meta.update(harness_meta(group.crate))
    funcs = sorted({f for r in all_results for f in r.functions_encoded()})
    samples = []
    for r in all_results:
        m = meta.get(r.name.split("::")[-1], {})
        samples.append({
            "harness": r.name, "group": r.group.name, "status": r.status(),
            "bound": m.get("bound", ""), "claim": m.get("claim", ""),
            "unwind": m.get("unwind"), "stubs": m.get("stubs", ""),
            "cbmc_properties": r.n_obligations,
            "covers_satisfied": len([c for c in r.covers if c.status == "SATISFIED"]),
            "solver_s": r.time_s,
        })
    obligations = sum(r.n_obligations for r in ok_results)
    coverage = {
        "obligations": obligations,
        "discharged": sum(r.n_discharged for r in ok_results),
        "checker_cmd": " ;; ".join(cmds),
        "trusted_base": ["Kani 0.68.0 (rustc MIR -> goto translation)", "CBMC 6.11.0",
                         "cadical (SAT back end)", "stubs and bounds listed per harness"],
        "harnesses_run": len(all_results),
        "harnesses_verified": len(ok_results),
        "harnesses_known_finding": [r.name for r, _ in known_hits],
        "vacuity_witnesses_satisfied": sum(
            len([c for c in r.covers if c.status == "SATISFIED"]) for r in ok_results),
        "functions_encoded": funcs,
        "solver_seconds": round(sum(r.time_s for r in all_results), 2),
        "samples": samples,
        "explanation": "obligations = CBMC properties (assertions, overflow, memory-safety, "
                       "unwinding assertions) of harnesses that verified; each harness quantifies "
                       "over all values of its kani::any() inputs within the stated bound",
    }
    if extra_coverage:
        coverage.update(extra_coverage)
    write_evidence(prop, tier, "proof", coverage, level_text_assumptions, timer.s(),
                   len(violations))

    for r, e in known_hits:
        print("KNOWN-FINDING: property=%s %s [harness %s]" % (prop, e.get("what", ""), r.name))
    for r, path in violations:
        print("VIOLATION property=%s replay=%s" % (prop, path))
    if violations:
        return VIOLATION
    if inconclusive:
        for r, path in inconclusive:
            log("INCONCLUSIVE: %s counterexample did not reproduce natively (%s)" % (r.name, path))
        return INCONCLUSIVE
    if broken:
        for b in broken:
            log("BROKEN: " + b)
        return BROKEN
    return OK
