"""Engine A: run Kani harness crates against /repo and digest the results.

One `cargo kani` invocation per harness group (crate + cfg shape); harnesses run
in parallel (-j) with per-harness output files, a per-harness timeout and an
address-space cap.  A harness counts as passed only if CBMC reported
VERIFICATION SUCCESSFUL, no check is FAILURE/UNDETERMINED (unwinding
assertions included) and every kani::cover! in it is SATISFIED (vacuity witness).
"""
import hashlib
import os
import re
import shutil
import subprocess
import time

from common import REPO, VERIF, REPLAY_DIR, scratch, rm, log

KANI_DIR = os.path.join(VERIF, "kani")

UB_CLASSES = ("pointer_dereference", "safety_check", "pointer_arithmetic", "memory-leak",
              "pointer_primitives", "pointer", "bounds", "array_bounds")


class Group:
    def __init__(self, crate, name=None, features=(), no_default_features=False, rustflags="",
                 zflags=("restrict-vtable",), extra=(), jobs=8, mem_gb=16, timeout_s=900,
                 functional_only=False, stubbed=False, env=None):
        self.crate = crate
        self.name = name or crate
        self.features = list(features)
        self.no_default_features = no_default_features
        self.rustflags = rustflags
        self.zflags = list(zflags)
        self.extra = list(extra)
        self.jobs = jobs
        self.mem_gb = mem_gb
        self.timeout_s = timeout_s
        self.functional_only = functional_only
        self.stubbed = stubbed
        self.env = env or {}
        if functional_only:
            if "unstable-options" not in self.zflags:
                self.zflags.append("unstable-options")
            self.extra += ["--no-memory-safety-checks", "--no-assertion-reach-checks"]

    def target_dir(self):
        return scratch("kani-" + self.name)

    def base_cmd(self):
        cmd = ["cargo", "kani", "--target-dir", self.target_dir()]
        if self.no_default_features:
            cmd.append("--no-default-features")
        if self.features:
            cmd += ["--features", ",".join(self.features)]
        for z in self.zflags:
            cmd += ["-Z", z]
        cmd += self.extra
        return cmd

    def environ(self):
        env = dict(os.environ)
        env["CARGO_NET_OFFLINE"] = "true"
        if self.rustflags:
            env["RUSTFLAGS"] = (env.get("RUSTFLAGS", "") + " " + self.rustflags).strip()
        env.update(self.env)
        return env


class Check:
    __slots__ = ("name", "status", "desc", "loc", "func")

    def __init__(self, name):
        self.name = name
        self.status = None
        self.desc = ""
        self.loc = ""
        self.func = ""

    def klass(self):
        # e.g. "foo::bar.pointer_dereference.3" -> pointer_dereference
        parts = self.name.rsplit(".", 2)
        return parts[1] if len(parts) == 3 else ""

    def in_repo(self):
        return "repo/" in self.loc

    def is_ub(self):
        return self.klass() in UB_CLASSES

    def key(self):
        return "%s | %s | %s" % (self.klass(), self.desc, self.func)


class HarnessResult:
    def __init__(self, name, group):
        self.name = name
        self.group = group
        self.checks = []
        self.verdict = None      # 'SUCCESSFUL' | 'FAILED' | None
        self.time_s = 0.0
        self.note = ""
        self.raw_path = None

    @property
    def failed(self):
        return [c for c in self.checks if c.status == "FAILURE"]

    @property
    def undetermined(self):
        return [c for c in self.checks if c.status == "UNDETERMINED"]

    @property
    def covers(self):
        return [c for c in self.checks if c.klass() == "cover"]

    @property
    def n_obligations(self):
        return len([c for c in self.checks if c.klass() != "cover"])

    @property
    def n_discharged(self):
        return len([c for c in self.checks
                    if c.klass() != "cover" and c.status in ("SUCCESS", "UNREACHABLE")])

    def functions_encoded(self):
        return sorted({c.func for c in self.checks if c.in_repo() and c.func})

    def status(self):
        """ok | fail | broken"""
        if self.verdict is None:
            return "broken"
        if self.failed:
            # an unwinding assertion failure is a too-small bound, not a violation
            if all(c.klass() == "unwind" or "unwinding assertion" in c.desc for c in self.failed):
                return "broken"
            return "fail"
        if self.undetermined or self.verdict != "SUCCESSFUL":
            return "broken"
        unsat = [c for c in self.covers if c.status != "SATISFIED"]
        if unsat:
            self.note = "vacuity witness not satisfied: " + "; ".join(c.desc for c in unsat)
            return "broken"
        if not self.covers:
            self.note = "harness has no kani::cover! vacuity witness"
            return "broken"
        return "ok"


_CHECK_RE = re.compile(r"^Check \d+: (.*)$")


def parse_harness_output(path, name, group):
    r = HarnessResult(name, group)
    r.raw_path = path
    try:
        text = open(path, errors="replace").read()
    except OSError:
        r.note = "no output file"
        return r
    cur = None
    for line in text.splitlines():
        m = _CHECK_RE.match(line)
        if m:
            cur = Check(m.group(1).strip())
            r.checks.append(cur)
            continue
        s = line.strip()
        if cur is not None and s.startswith("- Status:"):
            cur.status = s.split(":", 1)[1].strip()
        elif cur is not None and s.startswith("- Description:"):
            cur.desc = s.split(":", 1)[1].strip().strip('"')
        elif cur is not None and s.startswith("- Location:"):
            loc = s.split(":", 1)[1].strip()
            if " in function " in loc:
                cur.loc, cur.func = loc.split(" in function ", 1)
            else:
                cur.loc = loc
        elif s.startswith("VERIFICATION:-"):
            r.verdict = s.split(":-", 1)[1].strip()
            cur = None
        elif s.startswith("Verification Time:"):
            try:
                r.time_s = float(s.split(":", 1)[1].strip().rstrip("s"))
            except ValueError:
                pass
        elif s.startswith("CBMC timed out"):
            r.note = "CBMC timed out"
            r.verdict = None
        elif s.startswith("CBMC failed") and not r.checks:
            r.note = r.note or "CBMC failed (out of memory / crash)"
    if r.verdict == "FAILED" and not r.failed and not r.undetermined:
        # OOM / crash / timeout: no property-level verdict
        r.verdict = None
        r.note = r.note or "CBMC gave no verdict"
    return r


def sync_lock(crate_dir):
    """Harness crates resolve against /repo's lock file (offline)."""
    src = os.path.join(REPO, "Cargo.lock")
    dst = os.path.join(crate_dir, "Cargo.lock")
    if not os.path.exists(dst):
        shutil.copyfile(src, dst)


def run_group(group, filters, exact=False):
    """Run every harness of `group` whose name matches one of `filters`."""
    crate_dir = os.path.join(KANI_DIR, group.crate)
    sync_lock(crate_dir)
    tdir = group.target_dir()
    outdir = os.path.join(tdir, "result_output_dir")
    rm(outdir)
    cmd = group.base_cmd() + ["-j", str(group.jobs), "--output-format", "terse",
                              "--output-into-files"]
    if "unstable-options" not in group.zflags:
        cmd += ["-Z", "unstable-options"]
    cmd += ["--harness-timeout", "%ds" % group.timeout_s]
    if exact:
        cmd.append("--exact")
    for f in filters:
        cmd += ["--harness", f]
    shell = "ulimit -v %d; exec %s" % (group.mem_gb * 1024 * 1024,
                                       " ".join(_q(c) for c in cmd))
    log("[kani:%s] %s" % (group.name, " ".join(cmd)))
    t0 = time.time()
    p = subprocess.run(["bash", "-c", shell], cwd=crate_dir, env=group.environ(),
                       stdout=subprocess.PIPE, stderr=subprocess.STDOUT, text=True,
                       timeout=group.timeout_s * 6 + 1800)
    wall = time.time() - t0
    out = p.stdout
    started = re.findall(r"Checking harness ([\w:]+)\.\.\.", out)
    results = []
    if not started:
        log(out[-4000:])
        raise RuntimeError("cargo kani produced no harness runs for %s %s (build failure?)"
                           % (group.name, filters))
    for h in dict.fromkeys(started):
        fname = h
        path = os.path.join(outdir, fname)
        if not os.path.exists(path):
            # kani names the file after the harness' pretty name
            cands = [f for f in os.listdir(outdir)] if os.path.isdir(outdir) else []
            cands = [f for f in cands if f.endswith(h.split("::")[-1])]
            path = os.path.join(outdir, cands[0]) if cands else path
        results.append(parse_harness_output(path, h, group))
    return results, wall, " ".join(cmd)


def _q(s):
    if re.match(r"^[\w@%+=:,./-]+$", s):
        return s
    return "'" + s.replace("'", "'\\''") + "'"


# ---------------------------------------------------------------- replay

_TEST_RE = re.compile(r"Concrete playback unit test for `([^`]+)`:\s*```\n(.*?)```", re.S)


def concrete_playback(group, harness):
    """Ask Kani for concrete values of a failing harness; returns {test_name: source}."""
    cmd = group.base_cmd() + ["--output-format", "terse", "-Z", "concrete-playback",
                              "--concrete-playback=print", "--exact", "--harness", harness]
    shell = "ulimit -v %d; exec %s" % (group.mem_gb * 1024 * 1024,
                                       " ".join(_q(c) for c in cmd))
    crate_dir = os.path.join(KANI_DIR, group.crate)
    try:
        p = subprocess.run(["bash", "-c", shell], cwd=crate_dir, env=group.environ(),
                           stdout=subprocess.PIPE, stderr=subprocess.STDOUT, text=True,
                           timeout=group.timeout_s * 2 + 600)
    except subprocess.TimeoutExpired:
        return {}
    tests = {}
    for _h, src in _TEST_RE.findall(p.stdout):
        if "Check for `cover`" in src:
            continue   # vacuity witnesses are not counterexamples
        m = re.search(r"fn (kani_concrete_playback_\w+)", src)
        if m:
            tests[m.group(1)] = src
    return tests


def native_replay(group, tests, profile_release=False, harness=None):
    """Compile the harness crate + generated tests natively against /repo and run them.
    Returns {test_name: reproduced(bool)} ; reproduced = the test panics natively."""
    crate_dir = os.path.join(KANI_DIR, group.crate)
    work = scratch("replay-" + group.name + ("-rel" if profile_release else ""))
    rm(work)
    shutil.copytree(crate_dir, work, ignore=shutil.ignore_patterns("target"))
    lib = os.path.join(work, "src", "lib.rs")
    with open(lib, "a") as f:
        f.write("\n// ---- concrete playback tests (generated) ----\n")
        for src in tests.values():
            if harness and "::" in harness:
                short = harness.split("::")[-1]
                src = src.replace("concrete_vals, %s)" % short, "concrete_vals, crate::%s)" % harness)
            f.write(src + "\n")
    res = {}
    env = group.environ()
    env["CARGO_TARGET_DIR"] = scratch("replay-target-" + group.name)
    for name in tests:
        cmd = ["cargo", "kani", "playback", "-Z", "concrete-playback"]
        if group.no_default_features:
            cmd.append("--no-default-features")
        if group.features:
            cmd += ["--features", ",".join(group.features)]
        cmd += ["--", name]
        try:
            p = subprocess.run(cmd, cwd=work, env=env, stdout=subprocess.PIPE,
                               stderr=subprocess.STDOUT, text=True, timeout=1800)
            out = p.stdout
            if re.search(r"test result: FAILED", out) or "panicked at" in out:
                res[name] = True
            elif re.search(r"test result: ok\. [1-9]", out):
                res[name] = False
            else:
                res[name] = None   # did not build / run
                log(out[-1500:])
        except subprocess.TimeoutExpired:
            res[name] = None
    rm(work)
    return res


def write_replay_file(prop, result, tests, replayed, cmdline):
    d = os.path.join(REPLAY_DIR, prop)
    os.makedirs(d, exist_ok=True)
    h = hashlib.sha1(("|".join(sorted(c.key() for c in result.failed))).encode()).hexdigest()[:8]
    path = os.path.join(d, "%s-%s.rs" % (result.name.replace("::", "_"), h))
    with open(path, "w") as f:
        f.write("// replay for property %s, harness %s (group %s)\n" % (prop, result.name,
                                                                    result.group.name))
        f.write("// kani command: %s\n" % cmdline)
        for c in result.failed:
            f.write("// FAILED CHECK [%s] %s @ %s in %s\n" % (c.klass(), c.desc, c.loc, c.func))
        f.write("// native replay: %s\n" % replayed)
        f.write("// to re-run: ./check %s --replay %s\n\n" % (prop, path))
        for src in tests.values():
            f.write(src + "\n")
    return path
