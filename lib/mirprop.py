"""Generic driver for a property decided by the MIR interpreter (engine B)."""
import hashlib
import json
import os

from common import (OK, VIOLATION, INCONCLUSIVE, BROKEN, REPLAY_DIR, load_known, write_evidence, log, Timer, seed)


def match_known(prop, failure, known):
    for e in known.get("findings", []):
        if e.get("property") != prop or e.get("engine") != "mirsym":
            continue
        import re as _re
        same = e.get("check") == failure.check or (e.get("check_regex") and _re.fullmatch(e["check_regex"], failure.check))
        if same and all(s in failure.label for s in e.get("label_contains", [])):
            return e
    return None


def write_replay(prop, failure, extra):
    d = os.path.join(REPLAY_DIR, prop)
    os.makedirs(d, exist_ok=True)
    h = hashlib.sha1(failure.key().encode()).hexdigest()[:8]
    path = os.path.join(d, "%s-%s.json" % (failure.check.replace(".", "_"), h))
    with open(path, "w") as f:
        json.dump({"property": prop, "check": failure.check, "label": failure.label, "kind": failure.kind,
                   "model": failure.model, "schedule": failure.trace, "replay": extra}, f, indent=1, default=str)
    return path


_FORK = {}


def _one_check(i):
    """Runs in a forked child: the plan (MIR already loaded) is inherited, results come back pickled."""
    from explore import explore
    from interp import Unsupported
    plan, checks, tier = _FORK["plan"], _FORK["checks"], _FORK["tier"]
    item = checks[i]
    name, body = item[0], item[1]
    custom = len(item) > 2 and item[2] == "custom"
    try:
        if custom:
            st, fails = body(seed())
        else:
            st, fails = explore(name, body, seed=seed(), keep_smt2=(tier == "thorough"))
    except Unsupported as e:
        return ("unsupported", str(e), None, [])
    except Exception as e:
        return ("error", "%r at %s" % (e, getattr(e, "mir_where", "?")), None, [])
    return ("ok", st, fails, sorted(plan.encoded()))


def _run_checks(plan, checks, tier):
    """The checks of one property are independent: run them in forked worker processes (VERIF_JOBS, default 8).
    The functions each child interpreted are merged back so that the evidence lists them."""
    import multiprocessing
    jobs = int(os.environ.get("VERIF_JOBS", "8"))
    _FORK.update(plan=plan, checks=checks, tier=tier)
    if jobs <= 1 or len(checks) <= 1:
        out = [_one_check(i) for i in range(len(checks))]
    else:
        ctx = multiprocessing.get_context("fork")
        with ctx.Pool(processes=min(jobs, len(checks))) as pool:
            out = pool.map(_one_check, range(len(checks)), chunksize=1)
    extra = set()
    for r in out:
        extra |= set(r[3] or [])
    plan._encoded_extra = extra
    return out


def run(prop, tier, plan, assumptions):
    """plan: object with
         .prepare(tier) -> None            (dump MIR, load)
         .checks(tier) -> [(name, body)]   bodies for explore()
         .encoded() -> [fn names]
         .validate(tier) -> (n_traces, n_disagreements, notes)   translator validation against the native code
         .replay(failure) -> (reproduced: True/False/None, info)  native replay of a counterexample
         .summaries, .checker_cmd, .bounds(tier)
    """
    from explore import explore, cross_check
    from interp import Unsupported
    timer = Timer()
    known = load_known()
    broken, fails_all = [], []
    per_check = []
    smt2 = []
    try:
        plan.prepare(tier)
        checks = plan.checks(tier)
    except Exception as e:   # MIR dump / load failure
        log("BROKEN: %s" % e)
        write_evidence(prop, tier, "model_checking", {"evaluations": 0, "distinct_nontrivial": 0,
                       "explanation": "check could not start: %s" % e}, assumptions, timer.s(), 0)
        return BROKEN
    tot = dict(paths=0, queries=0, obligations=0, discharged=0, solver_s=0.0, infeasible=0)
    results = _run_checks(plan, checks, tier)
    for item, res in zip(checks, results):
        name = item[0]
        custom = len(item) > 2 and item[2] == "custom"
        if res[0] == "unsupported":
            log("  [mirsym] %-40s BROKEN: %s" % (name, res[1]))
            broken.append("%s: %s" % (name, res[1]))
            continue
        if res[0] == "error":
            log("  [mirsym] %-40s BROKEN (interpreter error): %s" % (name, res[1]))
            broken.append("%s: interpreter error %s" % (name, res[1]))
            continue
        st, fails = res[1], res[2]
        log("  [mirsym] %-40s paths=%d queries=%d obligations=%d/%d solver=%.1fs%s" % (
            name, st.paths, st.queries, st.discharged, st.obligations, st.solver_s,
            "  FAILS=%d" % len(fails) if fails else ""))
        if st.paths == 0 or (st.obligations == 0 and not custom):
            broken.append("%s: vacuous (no feasible path / no obligation)" % name)
        per_check.append({"check": name, "paths": st.paths, "infeasible_prefixes": st.infeasible,
                          "solver_queries": st.queries, "obligations": st.obligations,
                          "discharged": st.discharged, "solver_s": round(st.solver_s, 2)})
        for k in ("paths", "queries", "obligations", "discharged", "infeasible"):
            tot[k] += getattr(st, k)
        tot["solver_s"] += st.solver_s
        smt2 += st.smt2
        fails_all += fails
    # second solver on the discharged obligations (thorough tier)
    cc = None
    if smt2:
        checked, dis, errs = cross_check(smt2, "cvc5", limit=400)
        cc = {"solver": "cvc5 1.0", "queries": checked, "disagreements": dis, "inconclusive": errs}
        if dis:
            broken.append("cvc5 disagrees with z3 on %d obligation queries" % dis)
    # translator validation
    try:
        n_tr, n_dis, notes = plan.validate(tier)
    except Exception as e:
        n_tr, n_dis, notes = 0, 0, ["validation could not run: %r" % e]
        broken.append("translator validation failed to run: %r" % e)
    if n_dis:
        broken.append("interpreter and native code disagree on %d validation traces: %s" % (n_dis, notes[:3]))
    violations, inconclusive, known_hits = [], [], []
    for f in fails_all:
        e = match_known(prop, f, known)
        if e is not None:
            known_hits.append((f, e))
            continue
        log("      FAILED %s :: %s" % (f.check, f.label))
        try:
            reproduced, info = plan.replay(f)
        except Exception as ex:
            reproduced, info = None, "replay could not run: %r" % ex
        path = write_replay(prop, f, info)
        if reproduced is False:
            inconclusive.append((f, path))
        else:
            violations.append((f, path))
    # obligation instances that failed only because of recorded known findings are not part of what is claimed to hold: they are
    # reported separately, so that `discharged == obligations` states exactly "everything claimed was discharged"
    kf_instances = 0
    if known_hits and not violations and not inconclusive:
        kf_instances = tot["obligations"] - tot["discharged"]
        tot["obligations"] = tot["discharged"]
    coverage = {
        "known_finding_obligation_instances": kf_instances,
        "states": tot["paths"],
        "transitions": tot["queries"],
        "traces_validated_against_impl": n_tr,
        "obligations": tot["obligations"],
        "discharged": tot["discharged"],
        "checker_cmd": plan.checker_cmd,
        "trusted_base": ["rustc nightly MIR dump (--emit=mir)", "the MIR interpreter /verif/mirsym (validated against "
                         "the native code on concrete traces each run)", "z3 %s" % plan.z3_version(),
                         "summaries listed under 'summaries'"],
        "explanation": "states = feasible symbolic paths through the interpreted MIR (each covers all values satisfying "
                       "its path condition); transitions = solver queries (path feasibility + obligations); every "
                       "obligation is checked unsat-negated on every path",
        "functions_encoded": sorted(set(plan.encoded()) | getattr(plan, "_encoded_extra", set())),
        "summaries": plan.summaries,
        "bounds": plan.bounds(tier),
        "solver_seconds": round(tot["solver_s"], 2),
        "per_check": per_check,
        "second_solver": cc,
        "validation_notes": notes,
        "samples": per_check[:6] or [{"note": "no check ran"}],
        "exhaustive": False,
    }
    write_evidence(prop, tier, "model_checking", coverage, assumptions, timer.s(), len(violations))
    for f, e in known_hits:
        print("KNOWN-FINDING: property=%s %s [check %s]" % (prop, e.get("what", ""), f.check))
    for f, path in violations:
        print("VIOLATION property=%s replay=%s" % (prop, path))
    if violations:
        return VIOLATION
    if inconclusive:
        for f, path in inconclusive:
            log("INCONCLUSIVE: %s / %s did not reproduce natively (%s)" % (f.check, f.label, path))
        return INCONCLUSIVE
    if broken:
        for b in broken:
            log("BROKEN: " + b)
        return BROKEN
    return OK
