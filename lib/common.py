"""Shared plumbing for /verif checks: scratch dirs, evidence, known findings."""
import json
import os
import shutil
import sys
import time

VERIF = os.path.dirname(os.path.dirname(os.path.abspath(__file__)))
REPO = os.environ.get("VERIF_REPO", "/repo")
SCRATCH = os.environ.get("VERIF_SCRATCH", "/root/.cache/verif-scratch")
EVIDENCE_DIR = os.environ.get("VERIF_EVIDENCE_DIR") or os.path.join(VERIF, "evidence")   # override: seeded-change evaluations
REPLAY_DIR = os.path.join(VERIF, "replays")
KNOWN = os.path.join(VERIF, "known_findings.json")

# exit codes
OK = 0
VIOLATION = 1
INCONCLUSIVE = 2   # counterexample that does not replay natively
BROKEN = 3         # timeout / OOM / solver error / vacuous harness


def seed():
    try:
        return int(os.environ.get("VERIF_SEED", "0"))
    except ValueError:
        return 0


def scratch(*parts):
    p = os.path.join(SCRATCH, *parts)
    os.makedirs(p, exist_ok=True)
    return p


def rm(path):
    shutil.rmtree(path, ignore_errors=True)


def load_known():
    """known_findings.json: {"findings": [ {property, key, what, match:{...}} ], "fixed": [str]}"""
    try:
        with open(KNOWN) as f:
            return json.load(f)
    except FileNotFoundError:
        return {"findings": [], "fixed": []}


def write_evidence(prop, tier, level, coverage, assumptions, wall_s, violations):
    os.makedirs(EVIDENCE_DIR, exist_ok=True)
    ev = {
        "property_id": prop,
        "tier": tier,
        "seed": seed(),
        "level": level,
        "coverage": coverage,
        "assumptions": assumptions,
        "wall_s": round(wall_s, 2),
        "violations": violations,
    }
    path = os.path.join(EVIDENCE_DIR, prop + ".json")
    tmp = path + ".tmp"
    with open(tmp, "w") as f:
        json.dump(ev, f, indent=1, sort_keys=False)
        f.write("\n")
    os.replace(tmp, path)
    return path


def log(*a):
    print(*a, file=sys.stderr, flush=True)


class Timer:
    def __init__(self):
        self.t0 = time.time()

    def s(self):
        return time.time() - self.t0
