"""A property decided by more than one engine/layer: run each part (each writes evidence/<id>.json), merge the evidence."""
import json
import os

from common import EVIDENCE_DIR, OK, VIOLATION, INCONCLUSIVE, BROKEN, write_evidence, log


def run(prop, tier, parts):
    """parts: [(layer name, callable returning an exit code)]"""
    path = os.path.join(EVIDENCE_DIR, prop + ".json")
    merged = None
    rcs = []
    for name, fn in parts:
        if os.path.exists(path):
            os.remove(path)
        rc = fn()
        rcs.append(rc)
        if not os.path.exists(path):
            log("BROKEN: layer %s of %s wrote no evidence" % (name, prop))
            rcs.append(BROKEN)
            continue
        ev = json.load(open(path))
        cov = ev["coverage"]
        if merged is None:
            merged = ev
            merged["coverage"] = dict(cov)
            merged["coverage"]["layers"] = {name: {"level": ev["level"], "coverage": cov}}
        else:
            mc = merged["coverage"]
            for k in ("obligations", "discharged", "known_finding_obligation_instances", "evaluations", "distinct_nontrivial", "states", "transitions",
                      "traces_validated_against_impl"):
                if k in cov:
                    mc[k] = mc.get(k, 0) + cov[k]
            for k in ("samples", "functions_encoded", "trusted_base", "summaries", "harnesses"):
                if k in cov and isinstance(cov[k], list):
                    mc[k] = list(mc.get(k, [])) + [x for x in cov[k] if x not in mc.get(k, [])]
            if "checker_cmd" in cov:
                mc["checker_cmd"] = (mc.get("checker_cmd", "") + " ;; " + cov["checker_cmd"]).strip(" ;")
            mc["layers"][name] = {"level": ev["level"], "coverage": cov}
            merged["assumptions"] = list(merged.get("assumptions", [])) + ["[%s] %s" % (name, a) for a in ev.get("assumptions", [])]
            merged["wall_s"] = round(merged.get("wall_s", 0) + ev.get("wall_s", 0), 2)
            merged["violations"] = merged.get("violations", 0) + ev.get("violations", 0)
    if merged is not None:
        write_evidence(prop, tier, merged["level"], merged["coverage"], merged.get("assumptions", []), merged["wall_s"],
                       merged.get("violations", 0))
    for code in (VIOLATION, INCONCLUSIVE, BROKEN):
        if code in rcs:
            return code
    return OK
