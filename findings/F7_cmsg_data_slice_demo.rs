// F7 (C13): the data slice handed to AncillaryData::decode is built with cmsg_len (which includes
// the header), so it extends CMSG_LEN(0) bytes past the message -- past the control buffer for
// the last message. A safe, hand-written decode() can read out of bounds.
use compio_io::ancillary::*;
use std::mem::MaybeUninit;
static mut END: usize = 0;
struct W4(u32);
impl AncillaryData for W4 {
    const SIZE: usize = 4;
    fn encode(&self, b: &mut [MaybeUninit<u8>]) -> Result<(), CodecError> {
        for (i, x) in self.0.to_ne_bytes().iter().enumerate() { b[i].write(*x); }
        Ok(())
    }
    fn decode(b: &[u8]) -> Result<Self, CodecError> {
        let end = b.as_ptr() as usize + b.len();
        println!("decode got {} bytes; slice ends {} bytes after the control buffer", b.len(), end as isize - unsafe { END } as isize);
        assert!(end <= unsafe { END }, "data slice leaves the control buffer");
        Ok(W4(u32::from_ne_bytes([b[0], b[1], b[2], b[3]])))
    }
}
fn main() {
    let mut buf = AncillaryBuf::<{ ancillary_space::<W4>() }>::new();
    buf.builder().push(1, 2, &W4(7)).unwrap();
    unsafe { END = buf.as_ptr() as usize + buf.len() };
    let mut it = unsafe { AncillaryIter::new(&buf) };
    let m = it.next().unwrap();
    let v: W4 = m.data().unwrap();
    assert_eq!(v.0, 7);
}
