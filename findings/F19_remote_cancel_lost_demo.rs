//! F19 (C04): a JoinHandle dropped (or cancelled) on another thread can fail to cancel the task.
//!
//! `Task::cancel` first schedules the task and only then sets the cancelled flag. If the executor thread
//! picks the task up inside that window it sees "not cancelled", polls the future (still Pending) and
//! parks the task again; the flag is set afterwards and nothing schedules the task a second time: its
//! future is never dropped (until an unrelated wake or executor teardown).
//!
//! Run: copy to compio-executor/tests/f19.rs, `cargo test -p compio-executor --offline --test f19`.
//! Deterministic: the window is held open from user code — `Remote::schedule` calls the driver waker
//! (`ExecutorConfig::waker`) before it returns, and the test's waker lets the executor tick meanwhile.
//! Found by mirsym/c04_task.py (task.remote.drop.preempt2).
use std::{
    future::poll_fn,
    sync::{
        Arc, Mutex,
        atomic::{AtomicBool, AtomicUsize, Ordering::SeqCst},
        mpsc,
    },
    task::{Poll, Wake, Waker},
    thread::ThreadId,
};

use compio_executor::{Executor, ExecutorConfig};

struct Gate {
    home: ThreadId,
    armed: AtomicBool,
    entered: Mutex<Option<mpsc::Sender<()>>>,
    release: Mutex<Option<mpsc::Receiver<()>>>,
}

impl Wake for Gate {
    fn wake(self: Arc<Self>) {
        self.wake_by_ref()
    }

    fn wake_by_ref(self: &Arc<Self>) {
        if std::thread::current().id() != self.home && self.armed.swap(false, SeqCst) {
            let tx = self.entered.lock().unwrap().take().unwrap();
            let rx = self.release.lock().unwrap().take().unwrap();
            tx.send(()).unwrap();
            rx.recv().unwrap();
        }
    }
}

struct DropFlag(Arc<AtomicBool>);
impl Drop for DropFlag {
    fn drop(&mut self) {
        self.0.store(true, SeqCst);
    }
}

#[test]
fn handle_dropped_on_another_thread_cancels_the_task() {
    static POLLS: AtomicUsize = AtomicUsize::new(0);
    let (entered_tx, entered_rx) = mpsc::channel();
    let (release_tx, release_rx) = mpsc::channel();
    let gate = Arc::new(Gate {
        home: std::thread::current().id(),
        armed: AtomicBool::new(true),
        entered: Mutex::new(Some(entered_tx)),
        release: Mutex::new(Some(release_rx)),
    });
    let ex = Executor::with_config(ExecutorConfig {
        waker: Some(Waker::from(gate.clone())),
        ..Default::default()
    });

    let dropped = Arc::new(AtomicBool::new(false));
    let guard = DropFlag(dropped.clone());
    let handle = ex.spawn(poll_fn(move |_cx| {
        let _keep = &guard;
        POLLS.fetch_add(1, SeqCst);
        Poll::<()>::Pending
    }));
    ex.tick();
    assert_eq!(POLLS.load(SeqCst), 1);

    // another thread drops the handle: cancel() = schedule(); set_cancelled()
    let j = std::thread::spawn(move || drop(handle));
    // ... and is now inside schedule(), in the driver waker, i.e. before set_cancelled()
    entered_rx.recv().unwrap();
    // the executor thread was woken for the scheduled task and runs it: it is not cancelled yet
    ex.tick();
    release_tx.send(()).unwrap();
    j.join().unwrap();

    // the handle is gone; the executor keeps ticking
    for _ in 0..16 {
        ex.tick();
    }
    assert!(
        dropped.load(SeqCst),
        "the JoinHandle was dropped on another thread, but the task was not cancelled: its future is still alive after 16 \
         ticks (polled {} times)",
        POLLS.load(SeqCst)
    );
}
