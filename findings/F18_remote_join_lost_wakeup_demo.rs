//! F18 (C04): a JoinHandle polled on another thread can miss the task's completion forever.
//!
//! `Remote::poll` registers the joiner's waker between `start_setting_waker` and `finish_setting_waker`
//! and then returns Pending without looking at the state again. If the task completes inside that
//! window, `Task::run` sees "a waker is being set" and does not wake anybody; the joiner has already
//! decided to return Pending: nobody will ever wake it although the output is there.
//!
//! Run: copy to compio-executor/tests/f18.rs, `cargo test -p compio-executor --offline --test f18`.
//! Deterministic: the joiner's `Waker::clone` (called by Remote::poll inside the window) hands control to
//! the executor thread and waits until the task has completed.
//! Found by mirsym/c04_task.py (remote handle, poll_until_ready).
use std::{
    future::Future,
    pin::Pin,
    sync::{
        Arc, Mutex,
        atomic::{AtomicBool, AtomicUsize, Ordering::SeqCst},
        mpsc,
    },
    task::{Context, Poll, RawWaker, RawWakerVTable, Waker},
    time::{Duration, Instant},
};

use compio_executor::Executor;

struct Gate {
    wakes: AtomicUsize,
    armed: AtomicBool,
    in_clone: Mutex<Option<mpsc::Sender<()>>>,
    go: Mutex<Option<mpsc::Receiver<()>>>,
}

unsafe fn g_clone(p: *const ()) -> RawWaker {
    let g = unsafe { &*(p as *const Gate) };
    if g.armed.swap(false, SeqCst) {
        let tx = g.in_clone.lock().unwrap().take().unwrap();
        let rx = g.go.lock().unwrap().take().unwrap();
        tx.send(()).unwrap();
        rx.recv().unwrap();
    }
    RawWaker::new(p, &VT)
}
unsafe fn g_wake(p: *const ()) {
    unsafe { &*(p as *const Gate) }.wakes.fetch_add(1, SeqCst);
}
unsafe fn g_drop(_: *const ()) {}
static VT: RawWakerVTable = RawWakerVTable::new(g_clone, g_wake, g_wake, g_drop);

#[test]
fn remote_joiner_is_woken_when_the_task_completes_while_it_registers() {
    let ex = Executor::new();
    let mut handle = ex.spawn(async { 42u32 });

    let (in_clone_tx, in_clone_rx) = mpsc::channel();
    let (go_tx, go_rx) = mpsc::channel();
    let gate: &'static Gate = Box::leak(Box::new(Gate {
        wakes: AtomicUsize::new(0),
        armed: AtomicBool::new(true),
        in_clone: Mutex::new(Some(in_clone_tx)),
        go: Mutex::new(Some(go_rx)),
    }));
    let done = Arc::new(Mutex::new(None::<u32>));
    let done2 = done.clone();

    // the joiner, on another thread
    let joiner = std::thread::spawn(move || {
        let waker = unsafe { Waker::from_raw(RawWaker::new(gate as *const Gate as *const (), &VT)) };
        let mut cx = Context::from_waker(&waker);
        let first = Pin::new(&mut handle).poll(&mut cx);
        if let Poll::Ready(r) = first {
            *done2.lock().unwrap() = Some(r.unwrap());
            return (true, true);
        }
        // Pending: a correct join handle wakes us once the task has completed
        let t0 = Instant::now();
        while gate.wakes.load(SeqCst) == 0 && t0.elapsed() < Duration::from_secs(2) {
            std::thread::sleep(Duration::from_millis(5));
        }
        let woken = gate.wakes.load(SeqCst) > 0;
        // what a (never arriving) wake-up would have found
        let second = Pin::new(&mut handle).poll(&mut cx);
        if let Poll::Ready(r) = second {
            *done2.lock().unwrap() = Some(r.unwrap());
        }
        (false, woken)
    });

    // the joiner is inside Remote::poll, between start_setting_waker and finish_setting_waker
    in_clone_rx.recv().unwrap();
    // executor thread: the task runs to completion
    ex.tick();
    go_tx.send(()).unwrap();

    let (ready_at_once, woken) = joiner.join().unwrap();
    assert_eq!(*done.lock().unwrap(), Some(42), "the output was there all along");
    assert!(
        ready_at_once || woken,
        "lost wake-up: the task completed while the remote join handle was registering its waker; poll returned \
         Pending and the waker was never woken"
    );
}
