// F13 (C06): a second close() (SharedFd::take) through another handle releases that handle without
// the wake-up check that Drop performs; if it was the last other handle, the first closer is never
// woken and its close().await hangs.
use compio_driver::SharedFd;
use std::future::Future;
use std::pin::pin;
use std::sync::atomic::{AtomicUsize, Ordering};
use std::sync::Arc;
use std::task::{Context, Poll, Wake, Waker};
struct Count(AtomicUsize);
impl Wake for Count { fn wake(self: Arc<Self>) { self.0.fetch_add(1, Ordering::SeqCst); } }
fn main() {
    let c = Arc::new(Count(AtomicUsize::new(0)));
    let w = Waker::from(c.clone());
    let mut cx = Context::from_waker(&w);
    let a = SharedFd::new(std::fs::File::open("/dev/null").unwrap());
    let b = a.clone();
    let mut first = pin!(a.take());
    assert!(first.as_mut().poll(&mut cx).is_pending());
    {
        let mut second = pin!(b.take());
        assert!(matches!(second.as_mut().poll(&mut cx), Poll::Ready(None)));
    }
    // every other handle is gone now; the first closer must have been woken
    println!("wake-ups delivered to the first closer: {}", c.0.load(Ordering::SeqCst));
    assert!(c.0.load(Ordering::SeqCst) >= 1, "first close() is never woken: it hangs");
}
