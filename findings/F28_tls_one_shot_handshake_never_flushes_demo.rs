//! F28 (C15): `compio_tls` (native-tls back end): when the TLS handshake completes within the first call
//! (`StartedHandshake::Done`, i.e. the transport never answered Pending), `handshake()` returns the stream
//! without `finish_handshake()`: the shim keeps believing the handshake is in progress, and its
//! `poll_flush` — "deferred during the handshake" — never flushes the transport again. Over a transport
//! that holds data back until flushed, application data written and flushed is never sent.
//!
//! Run: copy to compio-tls/tests/f28.rs, `cargo test -p compio-tls --offline --test f28`.
use std::{
    io::{self, Read, Write},
    net::{TcpListener, TcpStream},
    pin::Pin,
    task::{Context, Poll},
    time::Duration,
};

use compio_tls::TlsConnector;
use futures_util::{AsyncRead, AsyncWrite, AsyncWriteExt};

/// A transport that never answers Pending (blocking socket) and holds written data back until flushed.
struct Held {
    sock: TcpStream,
    pending: Vec<u8>,
    flushes: usize,
}

impl AsyncRead for Held {
    fn poll_read(mut self: Pin<&mut Self>, _: &mut Context<'_>, buf: &mut [u8]) -> Poll<io::Result<usize>> {
        Poll::Ready(self.sock.read(buf))
    }
}

impl AsyncWrite for Held {
    fn poll_write(mut self: Pin<&mut Self>, _: &mut Context<'_>, buf: &[u8]) -> Poll<io::Result<usize>> {
        self.pending.extend_from_slice(buf);
        Poll::Ready(Ok(buf.len()))
    }

    fn poll_flush(mut self: Pin<&mut Self>, _: &mut Context<'_>) -> Poll<io::Result<()>> {
        self.flushes += 1;
        let data = std::mem::take(&mut self.pending);
        Poll::Ready(self.sock.write_all(&data))
    }

    fn poll_close(self: Pin<&mut Self>, cx: &mut Context<'_>) -> Poll<io::Result<()>> {
        self.poll_flush(cx)
    }
}

/// the transport never answers Pending, so polling in a loop with a no-op waker is enough
fn block_on<F: std::future::Future>(f: F) -> F::Output {
    let mut f = std::pin::pin!(f);
    let mut cx = Context::from_waker(std::task::Waker::noop());
    loop {
        if let Poll::Ready(v) = f.as_mut().poll(&mut cx) {
            return v;
        }
    }
}

#[allow(deprecated)]
#[test]
fn f28_flush_after_one_shot_handshake() {
    use rsa::pkcs8::EncodePrivateKey;
    let mut rng = rand::rng();
    let private_key = rsa::RsaPrivateKey::new(&mut rng, 2048).unwrap();
    let private_key_der = private_key.to_pkcs8_der().unwrap();
    let signing_key = rcgen::KeyPair::try_from(private_key_der.as_bytes()).unwrap();
    let cert = rcgen::CertificateParams::new(["localhost".into()]).unwrap().self_signed(&signing_key).unwrap();
    let acceptor = native_tls::TlsAcceptor::builder(
        native_tls::Identity::from_pkcs8(cert.pem().as_bytes(), signing_key.serialize_pem().as_bytes()).unwrap(),
    )
    .build()
    .unwrap();

    let listener = TcpListener::bind("127.0.0.1:0").unwrap();
    let addr = listener.local_addr().unwrap();
    // plain blocking native-tls server: handshake, then wait (with a timeout) for 5 bytes of application data
    let server = std::thread::spawn(move || {
        let (sock, _) = listener.accept().unwrap();
        let mut tls = acceptor.accept(sock).unwrap();
        tls.get_ref().set_read_timeout(Some(Duration::from_secs(3))).unwrap();
        let mut got = [0u8; 5];
        tls.read_exact(&mut got).map(|_| got)
    });

    let connector = TlsConnector::from(
        native_tls::TlsConnector::builder()
            .add_root_certificate(native_tls::Certificate::from_pem(cert.pem().as_bytes()).unwrap())
            .build()
            .unwrap(),
    );
    let sock = TcpStream::connect(addr).unwrap();
    let transport = Held { sock, pending: vec![], flushes: 0 };
    let got = block_on(async move {
        let mut stream = connector.connect("localhost", transport).await.unwrap();
        stream.write_all(b"hello").await.unwrap();
        stream.flush().await.unwrap(); // must push the record through the transport
        stream
    });
    let received = server.join().unwrap();
    drop(got);
    assert_eq!(received.ok(), Some(*b"hello"), "application data written and flushed never reached the peer");
}
