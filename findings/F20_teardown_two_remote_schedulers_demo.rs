//! F20 (C04): dropping the executor can free its shared block while a remote wake is still running inside it,
//! when a second thread touches the same task at the same time.
//!
//! `Executor::clear` protects remote wakers with a single SCHEDULING *bit*: `Remote::schedule` sets it on
//! entry and clears it on every exit, `wait_for_scheduling` spins while it is set. With two threads inside
//! `Remote::schedule` for the same task the first one to leave (e.g. through the early "already scheduled"
//! return) clears the bit although the other is still using `shared` (its queue and the driver waker stored
//! in it): `drop(executor)` no longer waits and frees the block under the running wake — use after free.
//!
//! Run: copy to compio-executor/tests/f20.rs, `cargo test -p compio-executor --offline --test f20`.
//! Deterministic; the test keeps its own Arc of the notifier so the failing run reports instead of crashing.
//! Found by mirsym/c04_task.py (task.remote.drop.preempt2.teardown).
use std::{
    future::poll_fn,
    sync::{
        Arc, Mutex,
        atomic::{AtomicBool, Ordering::SeqCst},
        mpsc,
    },
    task::{Poll, Wake, Waker},
    thread::ThreadId,
    time::Duration,
};

use compio_executor::{Executor, ExecutorConfig};

struct Notifier {
    home: ThreadId,
    armed: AtomicBool,
    inside: AtomicBool,
    entered: Mutex<Option<mpsc::Sender<()>>>,
}

impl Wake for Notifier {
    fn wake(self: Arc<Self>) {
        self.wake_by_ref()
    }

    fn wake_by_ref(self: &Arc<Self>) {
        if std::thread::current().id() != self.home && self.armed.swap(false, SeqCst) {
            // a slow driver notification (think: a write to an eventfd under load)
            self.inside.store(true, SeqCst);
            self.entered.lock().unwrap().take().unwrap().send(()).unwrap();
            std::thread::sleep(Duration::from_millis(500));
            self.inside.store(false, SeqCst);
        }
    }
}

#[test]
fn executor_drop_waits_for_every_remote_wake_in_progress() {
    let (entered_tx, entered_rx) = mpsc::channel();
    let notifier = Arc::new(Notifier {
        home: std::thread::current().id(),
        armed: AtomicBool::new(true),
        inside: AtomicBool::new(false),
        entered: Mutex::new(Some(entered_tx)),
    });
    let ex = Executor::with_config(ExecutorConfig {
        waker: Some(Waker::from(notifier.clone())),
        ..Default::default()
    });

    let slot: Arc<Mutex<Option<Waker>>> = Default::default();
    let slot2 = slot.clone();
    let handle = ex.spawn(poll_fn(move |cx| {
        slot2.lock().unwrap().get_or_insert_with(|| cx.waker().clone());
        Poll::<()>::Pending
    }));
    ex.tick();
    let task_waker = slot.lock().unwrap().take().unwrap();

    // thread K wakes the task and is now inside Remote::schedule, in the driver notification
    let k = std::thread::spawn(move || task_waker.wake_by_ref());
    entered_rx.recv().unwrap();
    // thread H drops the join handle of the same task: its Remote::schedule finds the task already
    // scheduled and leaves at once
    std::thread::spawn(move || drop(handle)).join().unwrap();

    // the executor is dropped: it must not free its shared block while K is still inside it
    drop(ex);
    let still_inside = notifier.inside.load(SeqCst);
    k.join().unwrap();
    assert!(
        !still_inside,
        "the executor was dropped (shared block and the waker stored in it freed) while a remote wake of one of its tasks \
         was still running inside that block: use after free"
    );
}
