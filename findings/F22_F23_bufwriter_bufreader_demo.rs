//! F22 (C11): `BufWriter::write` appends the caller's bytes to its buffer and *then* flushes; when that trailing
//! flush fails, `write` answers `Err` although the bytes were accepted.  Every caller that retries a failed write
//! (`write_all` does so on `Interrupted`) sends them twice.
//!
//! F23 (C11): a `BufWriter` / `BufReader` built `with_capacity(0)` never transfers anything: `write` answers `Ok(0)`
//! for a non-empty buffer (so `write_all` fails with WriteZero) and `read` / `fill_buf` report end-of-file although
//! the source has data (the inner reader is handed a zero-length buffer).
//!
//! F23c: `copy_with_size(r, w, 0)` answers Ok(0) at once although the reader has data (same cause: a zero-capacity Vec).
//!
//! Run: copy to compio-io/tests/f22.rs, `cargo test -p compio-io --offline --test f22`.
//! Found by mirsym/c11_buffer.py (checks `buf.bw_write`, `buf.br_fill_buf`).
use std::io;

use compio_buf::{BufResult, IoBuf, IoBufMut};
use compio_io::{AsyncRead, AsyncReadExt, AsyncWrite, AsyncWriteExt, BufReader, BufWriter};
use futures_executor::block_on;

/// records what it is given; the `fail_at`-th write call fails with Interrupted
struct Recorder {
    got: Vec<u8>,
    calls: usize,
    fail_at: usize,
}

impl AsyncWrite for Recorder {
    async fn write<T: IoBuf>(&mut self, buf: T) -> BufResult<usize, T> {
        self.calls += 1;
        if self.calls == self.fail_at {
            return BufResult(Err(io::Error::from(io::ErrorKind::Interrupted)), buf);
        }
        self.got.extend_from_slice(buf.as_init());
        BufResult(Ok(buf.as_init().len()), buf)
    }

    async fn flush(&mut self) -> io::Result<()> {
        Ok(())
    }

    async fn shutdown(&mut self) -> io::Result<()> {
        Ok(())
    }
}

#[test]
fn f22_interrupted_trailing_flush_duplicates() {
    block_on(async {
        let mut w = BufWriter::with_capacity(4, Recorder { got: vec![], calls: 0, fail_at: 1 });
        // 3 bytes > 2/3 of the capacity: write() buffers them and flushes at once; that flush is interrupted
        w.write_all(b"abc".to_vec()).await.unwrap();
        w.flush().await.unwrap();
        let got = w.into_inner().got;
        assert_eq!(got, b"abc", "the inner writer received {:?}", String::from_utf8_lossy(&got));
    })
}

#[test]
fn f23_zero_capacity_writer() {
    block_on(async {
        let mut w = BufWriter::with_capacity(0, Recorder { got: vec![], calls: 0, fail_at: 0 });
        let BufResult(res, _) = w.write(b"abc".to_vec()).await;
        assert_ne!(res.unwrap(), 0, "write accepted nothing from a non-empty buffer");
    })
}

struct Source(&'static [u8]);

impl AsyncRead for Source {
    async fn read<B: IoBufMut>(&mut self, buf: B) -> BufResult<usize, B> {
        self.0.read(buf).await
    }
}

#[test]
fn f23_zero_capacity_reader() {
    block_on(async {
        let mut r = BufReader::with_capacity(0, Source(b"abc"));
        let BufResult(res, buf) = r.read(Vec::with_capacity(8)).await;
        assert_eq!((res.unwrap(), &buf[..]), (3, &b"abc"[..]), "end-of-file reported although the source has data");
        let _ = r.read_exact(Vec::with_capacity(0)).await;
    })
}

use compio_buf::IntoInner;

/// F23c: `copy_with_size(.., 0)` reports a complete copy of nothing
#[test]
fn f23_zero_size_copy() {
    block_on(async {
        let mut src = Source(b"abc");
        let mut sink = Recorder { got: vec![], calls: 0, fail_at: 0 };
        let n = compio_io::util::copy_with_size(&mut src, &mut sink, 0).await.unwrap();
        assert_eq!((n, &sink.got[..]), (3, &b"abc"[..]), "copy reported success without transferring the reader's data");
    })
}
