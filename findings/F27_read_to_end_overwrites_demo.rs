//! F27 (C11): `AsyncReadExt::read_to_end` / `AsyncReadAtExt::read_to_end_at` (and `read_to_string[_at]` through them)
//! sliced the caller's vector at the number of bytes read *by this call* instead of at its current length: a vector that
//! already held data was overwritten from its start; when the old content was longer than what was read, the result
//! was a mix of new and stale bytes with the old length.
//!
//! Run: copy to compio-io/tests/f27.rs, `cargo test -p compio-io --offline --test f27`.
//! Found by mirsym/c11_buffer.py (checks `buf.read_to_end`, `buf.read_to_end_at`: "the vector holds its previous content
//! followed by everything the reader delivered").
use compio_io::{AsyncReadAtExt, AsyncReadExt};
use futures_executor::block_on;

#[test]
fn f27_read_to_end_keeps_existing_content() {
    block_on(async {
        let mut src = &b"abcdef"[..];
        let (n, buf) = src.read_to_end(vec![9u8, 9]).await.unwrap();
        assert_eq!((n, &buf[..]), (6, &b"\x09\x09abcdef"[..]));
    })
}

#[test]
fn f27_read_to_end_at_keeps_existing_content() {
    block_on(async {
        let src = &b"abcdef"[..];
        let (n, buf) = src.read_to_end_at(vec![9u8; 8], 2).await.unwrap();
        assert_eq!((n, &buf[..]), (4, &b"\x09\x09\x09\x09\x09\x09\x09\x09cdef"[..]));
    })
}
