//! F10 / F15 (C17): AsyncifyPool.
//!
//! Run: copy to compio-driver/tests/f10_f15.rs, `cargo test -p compio-driver --offline --test f10_f15 -- --nocapture`.
//!
//! F10: `dispatch` compares `counter` with `thread_limit`, but `counter` is incremented later, by the
//!      spawned worker. Two threads dispatching on one pool (two runtimes sharing a pool through
//!      ProactorBuilder::reuse_thread_pool) can both pass the check: 2 jobs run at once with limit 1.
//! F15: after spawning a worker `dispatch` hands it the job with a blocking rendezvous `send`; a worker
//!      whose idle timeout fires first retires, and the dispatching thread blocks forever.
use std::{
    sync::{
        Arc, Barrier,
        atomic::{AtomicBool, AtomicUsize, Ordering::SeqCst},
    },
    time::{Duration, Instant},
};

use compio_driver::AsyncifyPool;

#[test]
fn f10_two_dispatchers_exceed_the_limit() {
    for attempt in 0..2000 {
        let pool = AsyncifyPool::new(1, Duration::from_millis(50));
        let running = Arc::new(AtomicUsize::new(0));
        let max = Arc::new(AtomicUsize::new(0));
        let barrier = Arc::new(Barrier::new(2));
        let hs: Vec<_> = (0..2)
            .map(|_| {
                let (pool, running, max, barrier) = (pool.clone(), running.clone(), max.clone(), barrier.clone());
                std::thread::spawn(move || {
                    barrier.wait();
                    let (r, m) = (running.clone(), max.clone());
                    let _ = pool.dispatch(move || {
                        let now = r.fetch_add(1, SeqCst) + 1;
                        m.fetch_max(now, SeqCst);
                        std::thread::sleep(Duration::from_millis(5));
                        r.fetch_sub(1, SeqCst);
                    });
                })
            })
            .collect();
        for h in hs {
            h.join().unwrap();
        }
        std::thread::sleep(Duration::from_millis(8));
        assert!(
            max.load(SeqCst) <= 1,
            "attempt {attempt}: {} jobs ran at once on a pool with thread_limit 1",
            max.load(SeqCst)
        );
    }
}

#[test]
fn f15_worker_retiring_before_the_hand_off_strands_the_dispatcher() {
    // an idle timeout shorter than the dispatcher's spawn -> send gap; Duration::ZERO makes the window as wide
    // as a real clock allows
    let deadline = Instant::now() + Duration::from_secs(20);
    let mut attempt = 0u64;
    while Instant::now() < deadline {
        attempt += 1;
        let pool = AsyncifyPool::new(1, Duration::ZERO);
        let done = Arc::new(AtomicBool::new(false));
        let d = done.clone();
        std::thread::spawn(move || {
            let _ = pool.dispatch(|| {});
            d.store(true, SeqCst);
        });
        let t0 = Instant::now();
        while !done.load(SeqCst) && t0.elapsed() < Duration::from_secs(2) {
            std::thread::yield_now();
        }
        assert!(
            done.load(SeqCst),
            "attempt {attempt}: dispatch() has not returned for 2 s: its worker retired before the hand-off and \
             nobody will ever receive the job"
        );
    }
}
