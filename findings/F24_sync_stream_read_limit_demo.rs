//! F24 (C12): `SyncStream::fill_read_buf` checks the size limit only before the read (`current_len >= max_buffer_size`)
//! and then lends the inner stream the whole spare capacity, which it has just grown by `base_capacity`: the read buffer
//! ends up holding up to `max_buffer_size - 1 + base_capacity` bytes, i.e. the limit is exceeded instead of honoured.
//!
//! Also shown (recorded, not repaired): with `base_capacity == 0` the first fill lends a zero-length buffer, takes the
//! resulting `Ok(0)` for end-of-file and the stream is stuck at EOF; with `max_buffer_size == 0` every write is refused
//! with WouldBlock although there is nothing a flush could send.
//!
//! Run: copy to compio-io/tests/f24.rs, `cargo test -p compio-io --offline --features compat --test f24`.
//! Found by mirsym/c12_syncbuf.py (check `sync.sr_fill_read_buf`, `sync.sw_write`).
use std::io::{BufRead, Write};

use compio_buf::{BufResult, IoBufMut, IoBufMutExt, SetLenExt};
use compio_io::{AsyncRead, compat::SyncStream};
use futures_executor::block_on;

/// an endless source: fills whatever room it is given
struct Endless;

impl AsyncRead for Endless {
    async fn read<B: IoBufMut>(&mut self, mut buf: B) -> BufResult<usize, B> {
        let n = buf.buf_capacity();
        for b in buf.as_uninit() {
            b.write(7);
        }
        unsafe { buf.advance_to(n) };
        BufResult(Ok(n), buf)
    }
}

#[test]
fn f24_read_limit_exceeded() {
    block_on(async {
        let mut s = SyncStream::with_limits(8, 10, Endless);
        let mut worst = 0;
        for _ in 0..4 {
            let _ = s.fill_read_buf().await;
            worst = worst.max(s.fill_buf().unwrap().len());
        }
        assert!(worst <= 10, "the read buffer held {worst} bytes with max_buffer_size = 10");
    })
}

#[test]
fn f24_zero_base_capacity_false_eof() {
    block_on(async {
        let mut s = SyncStream::with_capacity(0, Endless);
        let n = s.fill_read_buf().await.unwrap();
        assert!(n > 0 && !s.is_eof(), "an endless stream was reported at end of file (read {n})");
    })
}

#[test]
fn f24_zero_limit_write_spins() {
    let mut s = SyncStream::with_limits(8, 0, Endless);
    let r = s.write(b"x");
    assert!(!(r.is_err() && !s.has_pending_write()), "write refused with {r:?} while nothing is buffered");
}
