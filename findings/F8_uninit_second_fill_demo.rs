use compio_buf::*;
fn fill<B: IoBufMut>(b: &mut B, data: &[u8]) {
    let u = b.as_uninit();
    for (i, d) in data.iter().enumerate() { u[i].write(*d); }
    unsafe { b.advance_to(data.len()) };
}
fn main() {
    let mut root = Vec::with_capacity(8);
    root.push(b'a');
    let mut v = root.uninit();
    fill(&mut v, b"XY");
    let ip = v.as_init().as_ptr() as usize; let il = v.as_init().len();
    let up = v.as_uninit().as_ptr() as usize;
    println!("after 1st fill: as_init len {} ; as_uninit starts {} bytes after as_init", il, up - ip);
    fill(&mut v, b"123");
    let root = v.into_inner();
    println!("root = {:?} (expected aXY123)", String::from_utf8_lossy(&root));
    assert_eq!(root, b"aXY123");
}
