//! F17 (C08): vectored reads (`ReadVectoredAt` on io_uring, `ReadVectored` on io_uring and polling) hand the
//! OS the *initialized* part of every member (`sys_slices()`) instead of its writable capacity
//! (`sys_slices_mut()`): reading into `Vec::with_capacity(n)` transfers nothing, and the two drivers
//! disagree for `ReadVectoredAt` (the polling driver uses the full capacity).
//!
//! Run: copy to compio-driver/tests/f17.rs,
//!   cargo test -p compio-driver --offline --test f17                          (io_uring)
//!   cargo test -p compio-driver --offline --no-default-features --features polling --test f17
//! Found by kani/driver-fusion `c08_q_read_vectored_at` ("the two drivers pass different iovecs").
use std::io::Write as _;

use compio_buf::{BufResult, IntoInner};
use compio_driver::{
    AsRawFd, OpCode, Proactor, PushEntry, SharedFd, ToSharedFd,
    op::{ReadVectored, ReadVectoredAt},
};

fn push_and_wait<O: OpCode + 'static>(driver: &mut Proactor, op: O) -> BufResult<usize, O> {
    match driver.push(op) {
        PushEntry::Ready(res) => res,
        PushEntry::Pending(mut key) => loop {
            driver.poll(None).unwrap();
            match driver.pop(key) {
                PushEntry::Pending(k) => key = k,
                PushEntry::Ready(res) => break res,
            }
        },
    }
}

#[test]
fn vectored_positional_read_fills_spare_capacity() {
    let path = std::env::temp_dir().join(format!("f17-{}.txt", std::process::id()));
    std::fs::File::create(&path).unwrap().write_all(b"0123456789").unwrap();
    let mut driver = Proactor::builder().build().unwrap();
    let file = SharedFd::new(std::fs::File::open(&path).unwrap());
    driver.attach(file.as_raw_fd()).unwrap();

    let bufs = [Vec::<u8>::with_capacity(4), Vec::<u8>::with_capacity(4)];
    let op = ReadVectoredAt::new(file.to_shared_fd(), 0, bufs);
    let BufResult(res, _op) = push_and_wait(&mut driver, op);
    std::fs::remove_file(&path).unwrap();
    assert_eq!(
        res.unwrap(),
        8,
        "driver {:?}: preadv into two empty Vecs of capacity 4 from a 10-byte file must transfer 8 bytes (the OS call does)",
        driver.driver_type()
    );
}

#[test]
fn vectored_sequential_read_fills_spare_capacity() {
    let (mut tx, rx) = std::os::unix::net::UnixStream::pair().unwrap();
    tx.write_all(b"0123456789").unwrap();
    let mut driver = Proactor::builder().build().unwrap();
    let rx = SharedFd::new(rx);
    driver.attach(rx.as_raw_fd()).unwrap();
    let bufs = [Vec::<u8>::with_capacity(4), Vec::<u8>::with_capacity(4)];
    let op = ReadVectored::new(rx.to_shared_fd(), bufs);
    let BufResult(res, op) = push_and_wait(&mut driver, op);
    let _ = op.into_inner();
    assert_eq!(
        res.unwrap(),
        8,
        "driver {:?}: readv into two empty Vecs of capacity 4 with 10 bytes queued must transfer 8 bytes",
        driver.driver_type()
    );
}
