//! F26 (C13): the `Stream` side of `Framed` takes the reader and the buffer out of its `Idle` state before it asks
//! the framer for a frame, and `this.framer.extract(inner)?` returns on a framer error without putting them back:
//! the stream yields the error, and the *next* `poll_next` panics with "Inconsistent state" (io and buffered bytes
//! are gone).  A peer can trigger it with eight bytes: a `LengthDelimited` header whose length does not fit.
//!
//! Run: copy to compio-io/tests/f26.rs and add to compio-io/Cargo.toml
//!     [[test]]
//!     name = "f26"
//!     required-features = ["codec-serde-json"]
//! then `cargo test -p compio-io --offline --features codec-serde-json --test f26`.
//! Found while building the Framed layer (reading the MIR of framed::read poll_next: bb18 leaves Idle(None)).
use std::io::Cursor;

use compio_io::framed::{Framed, codec::serde_json::SerdeJsonCodec, frame::LengthDelimited};
use futures_executor::block_on;
use futures_util::StreamExt;

#[test]
fn f26_poll_after_framer_error_panics() {
    // 8-byte big-endian length field 0xffff_ffff_ffff_ffff: header + length overflows usize
    let hostile = vec![0xffu8; 8];
    let framer = LengthDelimited::new().set_length_field_len(8);
    let mut framed = Framed::symmetric::<String>(SerdeJsonCodec::new(), framer).with_reader(Cursor::new(hostile));
    let first = block_on(framed.next());
    assert!(matches!(first, Some(Err(_))), "hostile header must surface as an error, got {first:?}");
    // a consumer that logs the error and keeps reading must not be brought down by the peer
    let second = std::panic::catch_unwind(std::panic::AssertUnwindSafe(|| block_on(framed.next()).map(|r| r.is_ok())));
    assert!(second.is_ok(), "polling the stream again after the error panicked");
}
