// Demonstrations for F3/F4/F5 (C11): in-memory vectored reader/writers panic on ordinary inputs.
use compio_io::{AsyncReadAt, AsyncWrite, AsyncWriteAt, AsyncRead};
use futures_executor::block_on;
use std::panic::catch_unwind;

fn main() {
    let mut failed = 0;
    // F3: positional vectored read beyond the end (read_at returns Ok(0) there)
    let r = catch_unwind(|| {
        let data = [1u8, 2, 3, 4];
        let (n, _) = block_on(data.read_vectored_at([Vec::<u8>::with_capacity(2)], 5)).unwrap();
        assert_eq!(n, 0);
        let mut c = std::io::Cursor::new([1u8, 2, 3, 4]);
        c.set_position(9);
        let (n, _) = block_on(c.read_vectored([Vec::<u8>::with_capacity(2)])).unwrap();
        assert_eq!(n, 0);
    });
    println!("F3 read_vectored_at beyond end: {}", if r.is_ok() { "ok" } else { failed += 1; "PANIC" });
    // F4: Vec::write_vectored on a Vec that already holds more than is being written
    let r = catch_unwind(|| {
        let mut v = vec![9u8, 9, 9];
        let (n, _) = block_on(v.write_vectored([b"ab".to_vec()])).unwrap();
        assert_eq!((n, v.as_slice()), (2, &b"\x09\x09\x09ab"[..]));
    });
    println!("F4 Vec::write_vectored onto non-empty Vec: {}", if r.is_ok() { "ok" } else { failed += 1; "PANIC" });
    // F5: Vec::write_vectored_at strictly inside the existing content
    let r = catch_unwind(|| {
        let mut v = vec![1u8, 2, 3, 4, 5];
        let (n, _) = block_on(v.write_vectored_at([b"x".to_vec()], 1)).unwrap();
        assert_eq!((n, v.as_slice()), (1, &[1u8, b'x', 3, 4, 5][..]));
    });
    println!("F5 Vec::write_vectored_at inside: {}", if r.is_ok() { "ok" } else { failed += 1; "PANIC" });
    std::process::exit(failed);
}
