//! F21 (C01): dropping the io_uring driver with two completions of one multishot operation still queued releases
//! the kernel's reference to that operation twice: the operation is freed while the submitter still holds its key.
//!
//! `Driver::drop` drains the completion queue and, for *every* entry, re-materialises and drops the reference that
//! was leaked to the kernel at submission. `poll_entries` knows that intermediate completions (IORING_CQE_F_MORE:
//! multishot results, the result half of a zero-copy send) do not return that reference; `drop` did not.
//!
//! Run (needs a kernel with io_uring; the reference count is read through the verification hook):
//!   copy to compio-driver/tests/f21.rs
//!   RUSTFLAGS="--cfg compio_rs_compio_verif" cargo test -p compio-driver --offline --test f21
//! Found by mirsym/c01_iour.py (iour.drop: "the kernel's reference ... is re-materialised a second time").
use std::net::{TcpListener, TcpStream};

use compio_driver::{AsRawFd, Proactor, PushEntry, SharedFd, op::AcceptMulti};

#[test]
fn drop_with_two_queued_multishot_completions_keeps_the_submitters_reference() {
    let server = TcpListener::bind("127.0.0.1:0").unwrap();
    let addr = server.local_addr().unwrap();
    let mut driver = Proactor::new().unwrap();
    if driver.driver_type().is_polling() {
        eprintln!("polling driver selected: nothing to demonstrate");
        return;
    }
    let server = SharedFd::new(socket2::Socket::from(server));
    driver.attach(server.as_raw_fd()).unwrap();
    let key = match driver.push(AcceptMulti::new(server.clone())) {
        PushEntry::Pending(k) => k,
        PushEntry::Ready(_) => panic!("multishot accept completed at once"),
    };
    // hand the SQE to the kernel without reaping completions
    driver.flush();
    let _c1 = TcpStream::connect(addr).unwrap();
    let _c2 = TcpStream::connect(addr).unwrap();
    std::thread::sleep(std::time::Duration::from_millis(200));
    // two completions (both IORING_CQE_F_MORE) of the same operation are queued now
    assert_eq!(compio_driver::__verif::strong_count(&key), 2, "submitter + kernel");
    drop(driver);
    let left = compio_driver::__verif::strong_count(&key);
    assert_eq!(
        left, 1,
        "after the driver is gone exactly the submitter's reference must be left; {left} means the operation was released \
         twice and this read is already a use after free"
    );
}
