//! F14 (C03): cross-thread wake on a *full* sync queue notifies the runtime thread before its id is in
//! the queue and never again afterwards.
//!
//! Run: copy to compio-executor/tests/f14.rs, `cargo test -p compio-executor --offline --test f14`.
//! Fails on fe7f040 (and upstream pin); passes with the "fix:" commit recorded in known_findings.json.
//!
//! Deterministic replay of the schedule the solver returned (props/C03.py, exec.remote2.cap1.i2.distinct):
//!   W_A: push(A) ok (queue of 1 is full), notify, finish
//!   W_B: push(B) fails, notify (notified = true)                <- parked here by the test's driver waker
//!   RT : woken, consumes the notification, tick: pops A, polls A, nothing hot -> parks in the driver
//!   W_B: retry push(B) ok, `!notified` is false -> no notify, finish; Waker::wake_by_ref returns
//!   RT : parked; B's id sits in the queue and nobody will notify.
use std::{
    future::poll_fn,
    sync::{
        Arc, Mutex,
        atomic::{AtomicBool, AtomicUsize, Ordering::*},
        mpsc,
    },
    task::{Poll, Wake, Waker},
};

use compio_executor::{Executor, ExecutorConfig};

/// Stand-in for the driver waker: counts notifications; when armed, parks the calling waker thread inside it.
struct Driver {
    notifications: AtomicUsize,
    armed: AtomicBool,
    entered: Mutex<Option<mpsc::Sender<()>>>,
    release: Mutex<Option<mpsc::Receiver<()>>>,
}

impl Wake for Driver {
    fn wake(self: Arc<Self>) {
        self.wake_by_ref()
    }

    fn wake_by_ref(self: &Arc<Self>) {
        self.notifications.fetch_add(1, SeqCst);
        if self.armed.swap(false, AcqRel) {
            let tx = self.entered.lock().unwrap().take().unwrap();
            let rx = self.release.lock().unwrap().take().unwrap();
            tx.send(()).unwrap();
            rx.recv().unwrap();
        }
    }
}

#[test]
fn wake_on_full_queue_notifies_after_the_push_landed() {
    static POLLS_A: AtomicUsize = AtomicUsize::new(0);
    static POLLS_B: AtomicUsize = AtomicUsize::new(0);

    let (entered_tx, entered_rx) = mpsc::channel();
    let (release_tx, release_rx) = mpsc::channel();
    let driver = Arc::new(Driver {
        notifications: AtomicUsize::new(0),
        armed: AtomicBool::new(false),
        entered: Mutex::new(Some(entered_tx)),
        release: Mutex::new(Some(release_rx)),
    });
    let ex = Executor::with_config(ExecutorConfig {
        waker: Some(Waker::from(driver.clone())),
        sync_queue_size: 1,
        ..Default::default()
    });

    fn never(polls: &'static AtomicUsize, slot: Arc<Mutex<Option<Waker>>>) -> impl Future<Output = ()> {
        poll_fn(move |cx| {
            polls.fetch_add(1, SeqCst);
            let mut s = slot.lock().unwrap();
            if s.is_none() {
                *s = Some(cx.waker().clone());
            }
            Poll::Pending
        })
    }

    let slot_a: Arc<Mutex<Option<Waker>>> = Default::default();
    let slot_b: Arc<Mutex<Option<Waker>>> = Default::default();
    ex.spawn(never(&POLLS_A, slot_a.clone())).detach();
    ex.spawn(never(&POLLS_B, slot_b.clone())).detach();
    ex.tick();
    let wa = slot_a.lock().unwrap().clone().unwrap();
    let wb = slot_b.lock().unwrap().clone().unwrap();

    // W_A from another thread: queue (size 1) is now full
    std::thread::spawn(move || wa.wake_by_ref()).join().unwrap();
    // W_B from another thread: cannot push, notifies the driver and is held inside that call
    driver.armed.store(true, Release);
    let w_b = std::thread::spawn(move || wb.wake_by_ref());
    entered_rx.recv().unwrap();

    // runtime thread: woken by the notifications so far; consumes them (AwakeFlag::reset), ticks
    let consumed = driver.notifications.load(SeqCst);
    let hot_left = ex.tick();
    assert_eq!(POLLS_A.load(SeqCst), 2, "A is polled after its wake");
    assert!(!hot_left && !ex.has_task(), "nothing runnable: the runtime thread parks in the driver");

    // W_B resumes: its retry push succeeds, Waker::wake_by_ref returns
    release_tx.send(()).unwrap();
    w_b.join().unwrap();

    // the runtime thread is parked until the driver waker is notified again
    let after = driver.notifications.load(SeqCst);
    // (what the parked thread would find if somebody did wake it)
    ex.tick();
    assert_eq!(POLLS_B.load(SeqCst), 2, "B's id is in the cross-thread queue");
    assert!(
        after > consumed,
        "lost wake-up: W_B's wake returned with its id queued, but the driver waker was last notified before the \
         runtime thread drained and parked ({after} notifications, {consumed} already consumed)"
    );
}
