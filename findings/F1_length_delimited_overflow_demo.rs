// F1 (C13): a peer-chosen 8-byte length field close to u64::MAX makes LengthDelimited::extract
// overflow `length_field_len + len`: panic in debug builds; in release the sum wraps, the frame is
// reported "complete" and Frame::slice / Buffer::advance then panic.
use compio_buf::IoBufExt;
use compio_io::framed::frame::{Framer, LengthDelimited};
fn main() {
    let mut fr = LengthDelimited::new().set_length_field_len(8);
    let buf = vec![0xffu8; 10].slice(..);
    match Framer::<Vec<u8>>::extract(&mut fr, &buf) {
        Ok(Some(f)) => { println!("frame reported: {:?}", f); let _ = f.slice(buf); }
        Ok(None) => println!("needs more data"),
        Err(e) => println!("error: {e}"),
    }
}
