"""C02 at the Proactor / key layer (engine A, kani/driver-stub, hook __verif)."""
import kaniprop
from kanirun import Group

ASSUMPTIONS = [
    "compio-driver built with default-features = false (its stub driver: no syscalls) and --cfg compio_rs_compio_verif; "
    "the harness is the driver: it holds one reference per accepted submission and returns it with exactly one final "
    "completion (Entry::notify) at a solver-chosen moment with a solver-chosen result Ok(n) / Err(os code)",
    "stub: compio_driver::panic::resume_unwind_io = identity (panic transport of thread-pool jobs is outside)",
    "<= 2 concurrently pending operations, <= 2 waker registrations, <= 2 token firings; drop-counting tagged buffers",
    "outside: whether iour/mod.rs and poll/mod.rs honour that driver contract (FFI, HashMap/flume, kernel behaviour), "
    "multishot and zero-copy completion ordering, the Submit/SubmitMulti futures (need a Runtime), timeouts",
]

GROUP = Group("driver-stub", name="driver-stub", no_default_features=False, rustflags="--cfg compio_rs_compio_verif",
              zflags=("restrict-vtable", "stubbing"), jobs=6, mem_gb=12, timeout_s=900, stubbed=False)
PLAN = [(GROUP, {"quick": ['c02_q_'], "thorough": ["c02_t_"]})]


def run(tier):
    return kaniprop.run("C02", tier, PLAN, ASSUMPTIONS)


def replay(path):
    import replaycmd
    return replaycmd.replay_kani("C02", GROUP, path)
