"""C02 at the Proactor / key layer (engine A, kani/driver-stub, hook __verif)."""
import kaniprop
from kanirun import Group

ASSUMPTIONS = [
    "compio-driver built with default-features = false (its stub driver: no syscalls) and --cfg compio_rs_compio_verif; "
    "the harness is the driver: it holds one reference per accepted submission and returns it with exactly one final "
    "completion (Entry::notify) at a solver-chosen moment with a solver-chosen result Ok(n) / Err(os code)",
    "stub: compio_driver::panic::resume_unwind_io = identity (panic transport of thread-pool jobs is outside)",
    "<= 2 concurrently pending operations, <= 2 waker registrations, <= 2 token firings; drop-counting tagged buffers",
    "outside: whether iour/mod.rs and poll/mod.rs honour that driver contract (FFI, HashMap/flume, kernel behaviour), "
    "multishot and zero-copy completion ordering, the Submit/SubmitMulti futures (need a Runtime), timeouts",
]

GROUP = Group("driver-stub", name="driver-stub", no_default_features=False, rustflags="--cfg compio_rs_compio_verif",
              zflags=("restrict-vtable", "stubbing"), jobs=6, mem_gb=12, timeout_s=900, stubbed=False)
PLAN = [(GROUP, {"quick": ['c02_q_', 'c05_q_cancel_token'], "thorough": ["c02_t_"]})]


FDQ_ASSUMPTIONS = [
    "polling driver, per-descriptor interest queues: FdQueue::{event, pop_interest, push_back_interest, push_front_interest, remove} "
    "interpreted from MIR from every state of <= 2 queued readers and <= 2 queued writers, event readiness flags symbolic; "
    "VecDeque = bounded FIFO",
    "outside: the registry (HashMap<RawFd, FdQueue>), the poller (epoll/kqueue) itself, multi-descriptor operations (splice), "
    "the blocking-pool and AIO paths",
]


def run(tier):
    import sys, os
    sys.path.insert(0, os.path.join(os.path.dirname(os.path.abspath(__file__)), "..", "mirsym"))
    import multiprop
    import mirprop
    from fdqplan import FdqPlan
    return multiprop.run("C02", tier, [
        ("key layer (kani)", lambda: kaniprop.run("C02", tier, PLAN, ASSUMPTIONS)),
        ("polling driver interest queues (mirsym)", lambda: mirprop.run("C02", tier, FdqPlan(), FDQ_ASSUMPTIONS)),
    ])


def replay(path):
    import replaycmd
    return replaycmd.replay_kani("C02", GROUP, path)
