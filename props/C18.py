"""C18 — only what the dispatcher's own code contributes on one worker: the worker loop and the task wrapper
(engine B, mirsym/c18_worker.py)."""
import json
import os
import sys

HERE = os.path.dirname(os.path.abspath(__file__))
sys.path.insert(0, os.path.join(HERE, "..", "mirsym"))

import mirprop          # noqa: E402

ASSUMPTIONS = [
    "scope: the `async move` block each worker runs (compio-dispatcher/src/lib.rs new_impl, the innermost closure) and "
    "<Concrete<F, R> as Spawnable>::spawn with the async block it hands to the runtime, interpreted from MIR as coroutines, from start "
    "until the worker leaves its loop / the task completes",
    "the MPMC channel, the runtime and the oneshot channel are abstract: recv_async() answers Pending, a task, or closed-and-drained; "
    "spawn returns a JoinHandle token whose poll answers Pending / finished / panicked; the user future answers Pending or its value; "
    "oneshot send succeeds or finds the receiver gone",
    "obligations (one worker): every task taken from the channel is started exactly once, in the order taken; in sequential mode the "
    "channel is not asked for the next task and no task is started while the previous one has not finished, nothing is detached, "
    "and every started task has finished when the worker leaves its loop; in concurrent mode each task is detached right after it "
    "was started; the worker leaves its loop exactly when the channel reports closed and drained; the dispatched closure is called "
    "exactly once and its result sent exactly once on the task's own sender, a vanished receiver does not fail the task",
    "NOT covered — and the bulk of the property: that a message of the channel reaches exactly one of several workers (flume), "
    "anything across OS threads (dispatch from many threads, join dropping the sender, thread join, panic propagation), the "
    "receiver reporting cancellation when the dispatcher is joined first (futures-channel + runtime shutdown)",
]


def run(tier):
    from workerplan import WorkerPlan
    return mirprop.run("C18", tier, WorkerPlan(), ASSUMPTIONS)


def replay(path):
    d = json.load(open(path))
    print(json.dumps(d, indent=1)[:3000])
    return 2
