"""C09 — timers never fire early and always fire (engine B: MIR interpreter + z3)."""
import json
import os
import subprocess
import sys

HERE = os.path.dirname(os.path.abspath(__file__))
sys.path.insert(0, os.path.join(HERE, "..", "mirsym"))

import mirprop          # noqa: E402
from common import scratch, log, seed, VERIF, REPO  # noqa: E402

ASSUMPTIONS = [
    "one inductive step per TimerRuntime operation from an arbitrary wheel satisfying the representation invariant "
    "(keys distinct, generations below the counter); the invariant's preservation is itself an obligation",
    "BTreeMap, Instant, Waker are summarised by their std contracts (listed in coverage.summaries); the std BTreeMap "
    "implementation and the OS clock's monotonicity are trusted",
    "N simultaneous timers: 3 (quick) / 4 (thorough); all deadlines, generations and clock readings are 64-bit symbols",
    "future layer (mirsym/c09_futures.py): Sleep::new/poll, TimerFuture drop, Timeout::poll with an abstract inner future "
    "(poll returns Ready(v) or Pending, never touches the wheel) and the Interval::tick state machine polled to completion "
    "(<= 2 polls, the wheel firing the timer in between or not); Pin/Rc/RefCell/with_current/Try plumbing summarised "
    "(coverage.summaries); Interval: instants and periods below 2^62 ns, period > 0, u128 `%` abstracted to a fresh "
    "remainder r < period with dividend = multiple + r (the exact 128-bit remainder makes alignment nonlinear: z3 unknown)",
    "runtime glue: Runtime::poll / current_timeout / poll_with with Proactor::poll summarised (records the timeout it is given, "
    "returns Ok / TimedOut / Interrupted after an arbitrary while; other driver errors panic by design and are not offered)",
    "outside: the driver's timeout precision, block_on's loop, timeout()/sleep() argument overflow "
    "(Instant + Duration panics in std), interval_at's period assertion",
]


class Plan:
    summaries = None
    checker_cmd = None

    def __init__(self):
        self.T = None

    def z3_version(self):
        import z3
        return z3.get_version_string()

    def prepare(self, tier):
        import dump
        import c09_timers
        path, cmd = dump.dump_mir("compio-runtime", ["time"])
        self.checker_cmd = cmd + " ; python3-vt check C09 (mirsym/c09_timers.py over %s)" % os.path.basename(path)
        import c09_futures
        self.T = c09_timers.Timers(path, 3 if tier == "quick" else 4)
        self.Fu = c09_futures.Futures(path, 3 if tier == "quick" else 4)
        self.Fi = c09_futures.Futures(path, 2 if tier == "quick" else 3)     # Interval::tick: two polls per path
        Plan.summaries = c09_timers.SUMMARY_TEXT + c09_futures.SUMMARY_TEXT
        self.mod = c09_timers

    def checks(self, tier):
        cs = [("timers." + n, getattr(self.T, "check_" + n)) for n in self.T.CHECKS]
        for n in self.Fu.FCHECKS:
            obj = self.Fi if n in ("interval_tick", "runtime_poll") else self.Fu
            cs.append(("futures." + n, getattr(obj, "check_" + n)))
        return cs

    def encoded(self):
        return sorted(self.T.encoded | self.Fu.encoded | self.Fi.encoded)

    def bounds(self, tier):
        return {"simultaneous_timers": self.T.N, "simultaneous_timers_interval_check": self.Fi.N,
                "steps": "1 operation from an arbitrary valid state (Interval::tick: <= 2 polls)",
                "width": "64-bit deadlines / generations / clock"}

    # ---- native side
    def native_bin(self):
        crate = os.path.join(VERIF, "native", "timers")
        env = dict(os.environ, CARGO_TARGET_DIR=scratch("native-timers"), CARGO_NET_OFFLINE="true")
        lock = os.path.join(crate, "Cargo.lock")
        if not os.path.exists(lock):
            import shutil
            shutil.copyfile(os.path.join(REPO, "Cargo.lock"), lock)
        p = subprocess.run(["cargo", "build", "--offline", "-q"], cwd=crate, env=env, stdout=subprocess.PIPE,
                           stderr=subprocess.STDOUT, text=True, timeout=900)
        if p.returncode != 0:
            log(p.stdout[-2000:])
            raise RuntimeError("native timers runner does not build against /repo")
        return os.path.join(env["CARGO_TARGET_DIR"], "debug", "verif-native-timers")

    def native_run(self, scenario):
        b = self.native_bin()
        p = subprocess.run([b, scenario], stdout=subprocess.PIPE, stderr=subprocess.STDOUT, text=True, timeout=60)
        lines = []
        for l in p.stdout.splitlines():
            try:
                lines.append(json.loads(l))
            except ValueError:
                pass
        return p.returncode, lines

    def validate(self, tier):
        scen = self.mod.random_scenarios(seed(), 6 if tier == "quick" else 16)
        dis = 0
        notes = []
        for s in scen:
            rc, lines = self.native_run(s)
            nat = [{k: v for k, v in l.items() if k in ("op", "idx", "accepted", "completed", "some", "ready")}
                   for l in lines if "op" in l]
            sym = self.mod.concrete_run(self.T, s)
            if nat != sym:
                dis += 1
                notes.append("scenario %s: native %s vs interpreter %s" % (s, nat, sym))
        notes.append("%d random operation histories (seed %d) executed by the native TimerRuntime (real clock) and by the "
                     "interpreter (pinned clock); observations compared" % (len(scen), seed()))
        return len(scen), dis, notes

    def replay(self, f):
        """Turn an inductive-step counterexample into a history for the native runner (real clock)."""
        m = f.model
        name = f.check.split(".")[-1]
        if name not in ("wake", "insert", "min_timeout", "poll_timer", "is_completed", "cancel"):
            return None, "no native oracle for this check; reported on the solver's verdict"
        slots = []
        for i in range(self.T.N):
            if m.get("s_p%d" % i) is True:
                slots.append((m.get("s_g%d" % i, 0), m.get("s_d%d" % i, 0), i))
        now = m.get("w_now0")
        times = sorted({d for _, d, _ in slots} | ({now} if now is not None else set()) | ({m["dl"]} if "dl" in m else set()))
        if now is not None and any(d == now for _, d, _ in slots) or ("dl" in m and m["dl"] == now):
            return None, "boundary-only counterexample (deadline == now): a real clock cannot hit the equality; not replayable"
        ms = {t: 40 + 20 * i for i, t in enumerate(times)}
        ops = []
        order = sorted(slots)
        for g, d, i in order:
            ops.append("ins:%d" % ms[d])
        if now is not None:
            ops.append("sleep:%d" % ms[now])
        if name == "wake":
            ops.append("wake")
        elif name == "insert":
            ops.append("ins:%d" % ms[m["dl"]])
        elif name == "min_timeout":
            ops.append("min")
        else:
            ops.append("wake")
        # the counterexample fixes an order of instants, not their distances (which a real clock cannot reproduce
        # to the nanosecond): replay the same history at three real-time scales (20 ms, 500 us, 100 us between instants)
        tried = []
        for unit in (1000, 25, 5):
            scen = ";".join((["unit:%d" % unit] if unit != 1000 else []) + ops)
            rc, lines = self.native_run(scen)
            viol = [l for l in lines if "violation" in l]
            tried.append(scen)
            if rc == 1 and viol:
                return True, {"scenario": scen, "native_output": lines}
        return False, {"scenario": tried[0], "scales_tried": tried, "native_output": lines}


def run(tier):
    return mirprop.run("C09", tier, Plan(), ASSUMPTIONS)


def replay(path):
    d = json.load(open(path))
    print(json.dumps(d.get("replay"), indent=1))
    r = d.get("replay")
    if isinstance(r, dict) and "scenario" in r:
        pl = Plan()
        rc, lines = pl.native_run(r["scenario"])
        for l in lines:
            print(json.dumps(l))
        return 1 if rc == 1 else 0
    return 2
