"""C13 — framing and ancillary codecs (engine A, kani/io)."""
import kaniprop
from kanirun import Group

ASSUMPTIONS = [
    "framers run on ArrayVec<u8, 24> buffers (Vec roots make CBMC explore reallocation); 2 frames x <= 3 payload "
    "bytes; fragmentation is modelled by handing extract() every prefix of the encoded byte string",
    "delimiter framers: payloads contain no delimiter byte (documented precondition); delimiter non-empty",
    "hostile input: <= 10 arbitrary bytes per framer instance; one LengthDelimited harness per width",
    "ancillary: <= 3 messages (4- and 8-byte payloads with hand-written codecs, in_pktinfo, in6_pktinfo), symbolic "
    "level/type/value; buffers sized for exactly 1, 2 (+slack) and 3 messages; libc's Rust CMSG_* functions are the real ones",
    "outside: serde_json codec (third-party parser), BytesCodec (allocates), the Framed Stream/Sink state machines "
    "beyond the functional-only single-frame harness, Windows CMSG",
]

GROUP = Group("io", name="io", jobs=10, mem_gb=14, timeout_s=900)
PLAN = [(GROUP, {"quick": ["c13_q_"], "thorough": ["c13_t_"]})]


FRAMED_ASSUMPTIONS = [
    "layer 2 (mirsym/c13_framed.py): <Framed as Stream>::poll_next (framed/read.rs) with its Configuring / Idle / Reading states, the "
    "boxed refill block, Frame::{len, slice}, AsyncReadExt::append and the real buffer.rs underneath, interpreted from MIR over the "
    "ghost Vec<u8> of mirsym/c11_buffer.py with an adversarial inner reader (Pending, Err, Ok(n) within the room offered)",
    "framer and codec are abstract: extract answers Err, Ok(None) or Ok(Some(frame)) with solver-chosen prefix / payload / suffix "
    "lengths lying inside the buffered bytes (what layer 1 shows for the concrete framers); decode records the slice it is shown",
    "one poll_next call (plus one per Pending answer) from an arbitrary state: not yet configured or idle, any buffer, any eof flag; "
    "at most max_extract framer calls and max_inner reads per call (bounds)",
    "obligations: no panic; after every return the state machine still owns its reader and buffer; the codec sees exactly the "
    "payload bytes of the reported frame; exactly the frame is consumed; a refill appends without touching unread bytes; an error "
    "leaves the unread bytes in place; None only on an end-of-file read that follows an earlier one (the second EOF ends the stream)",
    "Sink side (framed.sink_send): poll_ready, start_send, poll_flush until it answers, from a not-yet-configured or idle sink with "
    "arbitrary leftover buffer content; encoder = appends a solver-chosen payload or fails (possibly leaving partial output); framer = "
    "rewrites the initialized part into a solver-chosen frame at least as long; obligations: the encoder starts from an empty buffer, "
    "the writer receives exactly the enclosed frame once and in order (a prefix on error), the sink ends idle with its writer and buffer",
    "outside: the Sink's flush / close semantics, the concrete codecs, dropping the stream / sink while a future is in flight",
]


def run(tier):
    import sys, os
    sys.path.insert(0, os.path.join(os.path.dirname(os.path.abspath(__file__)), "..", "mirsym"))
    import multiprop
    import mirprop
    from framedplan import FramedPlan
    return multiprop.run("C13", tier, [
        ("framers and ancillary codecs (kani)", lambda: kaniprop.run("C13", tier, PLAN, ASSUMPTIONS)),
        ("Framed read state machine (mirsym)", lambda: mirprop.run("C13", tier, FramedPlan(), FRAMED_ASSUMPTIONS)),
    ])


def replay(path):
    import replaycmd
    return replaycmd.replay_kani("C13", GROUP, path)
