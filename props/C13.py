"""C13 — framing and ancillary codecs (engine A, kani/io)."""
import kaniprop
from kanirun import Group

ASSUMPTIONS = [
    "framers run on ArrayVec<u8, 24> buffers (Vec roots make CBMC explore reallocation); 2 frames x <= 3 payload "
    "bytes; fragmentation is modelled by handing extract() every prefix of the encoded byte string",
    "delimiter framers: payloads contain no delimiter byte (documented precondition); delimiter non-empty",
    "hostile input: <= 10 arbitrary bytes per framer instance; one LengthDelimited harness per width",
    "ancillary: <= 3 messages (4- and 8-byte payloads with hand-written codecs, in_pktinfo, in6_pktinfo), symbolic "
    "level/type/value; buffers sized for exactly 1, 2 (+slack) and 3 messages; libc's Rust CMSG_* functions are the real ones",
    "outside: serde_json codec (third-party parser), BytesCodec (allocates), the Framed Stream/Sink state machines "
    "beyond the functional-only single-frame harness, Windows CMSG",
]

GROUP = Group("io", name="io", jobs=10, mem_gb=14, timeout_s=900)
PLAN = [(GROUP, {"quick": ["c13_q_"], "thorough": ["c13_t_"]})]


def run(tier):
    return kaniprop.run("C13", tier, PLAN, ASSUMPTIONS)


def replay(path):
    import replaycmd
    return replaycmd.replay_kani("C13", GROUP, path)
