"""C17 — the blocking pool is bounded and loses nothing (engine B: MIR interpreter, all interleavings within bounds)."""
import json
import os
import sys
import time

HERE = os.path.dirname(os.path.abspath(__file__))
sys.path.insert(0, os.path.join(HERE, "..", "mirsym"))

import mirprop          # noqa: E402
from common import log, seed  # noqa: E402

ASSUMPTIONS = [
    "flume's rendezvous channel, thread::spawn and the Box/Arc plumbing are summarised (coverage.summaries); "
    "sequentially consistent atomics",
    "1-2 dispatching threads, each submitting 1-3 jobs through dispatch with the driver's retry-loop shape (bounded "
    "to 2 retries), thread_limit 1-2, every spawned worker is a logical thread",
    "two regimes for the workers' idle timeout: long (a parked worker retires only once every dispatcher is done) and "
    "short (it may retire at any moment)",
    "panicking jobs: each dispatcher's first job may panic (a job handed to the pool directly is not wrapped in catch_unwind): "
    "the panic unwinds through the worker's MIR cleanup blocks (drop of its guard) and kills that worker thread; a submission "
    "may be rejected as 'all threads are busy' only while live workers + reserved slots >= thread_limit",
    "outside: how a panic travels back to the submitter (panic.rs, the driver's completion channel), limits > 2, > 2 dispatchers",
]


class Plan:
    summaries = []
    checker_cmd = ""

    def z3_version(self):
        import z3
        return z3.get_version_string()

    def prepare(self, tier):
        import dump
        import c17_pool
        p1, c1 = dump.dump_mir("compio-driver", [], tag="compio-driver-iour")
        self.checker_cmd = c1 + " ;; mirsym/c17_pool.py"
        self.pool = c17_pool.Pool(p1)
        self.mod = c17_pool
        Plan.summaries = c17_pool.SUMMARY_TEXT

    def _check(self, limit, plan, short, panics=False):
        from explore import Stats, Failure
        name = "pool.limit%d.jobs%s.%s%s" % (limit, "+".join(map(str, plan)), "short-timeout" if short else "long-timeout",
                                             ".first-job-panics" if panics else "")

        def body(sd):
            t0 = time.time()
            n, steps, q, bad = self.mod.explore_schedules(self.pool, limit, plan, seed=sd, short_timeouts=short, panics=panics)
            st = Stats()
            st.paths, st.queries, st.obligations, st.discharged = n, steps + q, n, n - (1 if bad else 0)
            st.solver_s = time.time() - t0
            fails = []
            if bad:
                fails.append(Failure(name, bad[0], {}, [e for e in bad[1] if e[0] != "sched"], [], kind="schedule"))
            return st, fails
        return (name, body, "custom")

    def checks(self, tier):
        cs = [self._check(1, [1], False), self._check(1, [2], False), self._check(1, [3], False),
              self._check(1, [1, 1], False), self._check(2, [2], False),
              self._check(1, [1], True), self._check(1, [2], True), self._check(1, [1, 1], True),
              self._check(1, [2], False, True), self._check(1, [1, 1], False, True)]
        if tier == "thorough":
            cs += [self._check(2, [1, 1], False), self._check(2, [2], True), self._check(2, [1, 1], True)]
        return cs

    def encoded(self):
        return sorted(self.pool.encoded)

    def bounds(self, tier):
        return {"dispatchers": "1-2", "jobs_per_dispatcher": "1-3", "thread_limit": "1-2", "retries": 2}

    def validate(self, tier):
        return 0, 0, ["no native trace validation for this protocol model: the transitions are the real MIR of dispatch / worker; "
                      "the channel and thread summaries are assumptions"]

    def replay(self, f):
        return None, {"schedule": f.trace, "note": "interleaving counterexample over the real MIR; not replayable step-exactly "
                      "on OS threads"}


def run(tier):
    return mirprop.run("C17", tier, Plan(), ASSUMPTIONS)


def replay(path):
    d = json.load(open(path))
    print(json.dumps(d, indent=1)[:4000])
    return 2
