"""C06 — descriptors closed exactly once, never in use, never leaked (engines A and A', kani/fd)."""
import kaniprop
from kanirun import Group

ASSUMPTIONS = [
    "SharedFd<T> with T = a drop-counting stand-in for an owned descriptor; the closer's waker counts its invocations",
    "unsync build: straight-line scenarios, shape solver-chosen (1..=2 other handles, re-clone, where the closer is "
    "polled, plain drop vs. second close())",
    "sync build (--features sync --cfg loom, loom = /verif/shim/loom): every atomic / Arc counter / waker-slot access of "
    "fd.rs is a preemption point; one solver-chosen preemption (context-bounded, sequentially consistent); the shim's "
    "Arc/AtomicWaker/atomics are the environment model",
    "outside: descriptor-producing operations under cancellation (accept/open/socket need real descriptors and a live "
    "driver), more than one preemption, weak-memory effects",
]

UNSYNC = Group("fd", name="fd-unsync", jobs=4, mem_gb=10, timeout_s=600)
SYNC = Group("fd", name="fd-sync", features=["sync"], rustflags="--cfg loom", jobs=4, mem_gb=14,
             timeout_s=1200)
PLAN = [
    (UNSYNC, {"quick": ["c06_q_unsync", "c06_kf_unsync"], "thorough": []}),
    (SYNC, {"quick": ["c06_q_sync", "c06_kf_sync"], "thorough": []}),
]


CLOSE_ASSUMPTIONS = [
    "wrapper layer (mirsym/c08_wrappers.py): the `async move` blocks of compio-fs File::close and compio-net Socket::close are "
    "interpreted with uninterpreted functions (SharedFd::take, into_inner, the op constructors, submit): close awaits take() of "
    "its own descriptor exactly once, uses no uniqueness shortcut, and then closes exactly the descriptor take() handed over with "
    "one CloseFile / CloseSocket operation (or does nothing when take() yields None)",
    "what take() itself guarantees (resolves only after every other handle is gone, at most one taker gets the descriptor) is the "
    "Kani layer above; the other close paths (pipes, processes, listener types forwarding to Socket::close) are outside",
]


def run(tier):
    import sys, os
    sys.path.insert(0, os.path.join(os.path.dirname(os.path.abspath(__file__)), "..", "mirsym"))
    import multiprop
    import mirprop
    from wrapplan import WrapPlan
    return multiprop.run("C06", tier, [
        ("SharedFd (kani)", lambda: kaniprop.run("C06", tier, PLAN, ASSUMPTIONS)),
        ("close wrappers, compio-net (mirsym)", lambda: mirprop.run("C06", tier, WrapPlan("compio-net", ["compio-driver/io-uring"], only=r"::close$"), CLOSE_ASSUMPTIONS)),
        ("close wrappers, compio-fs (mirsym)", lambda: mirprop.run("C06", tier, WrapPlan("compio-fs", ["compio-driver/io-uring"], only=r"::close$"), CLOSE_ASSUMPTIONS)),
    ])


def replay(path):
    import replaycmd
    g = SYNC if "sync::" in open(path).read().split("\n")[0] else UNSYNC
    return replaycmd.replay_kani("C06", g, path)
