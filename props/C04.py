"""C04 — task / join-handle lifecycle (engine B: MIR interpreter + ghost resource model, all interleavings within bounds)."""
import json
import os
import sys
import time

HERE = os.path.dirname(os.path.abspath(__file__))
sys.path.insert(0, os.path.join(HERE, "..", "mirsym"))

import mirprop          # noqa: E402
from common import log, seed  # noqa: E402

ASSUMPTIONS = [
    "MIR of compio-executor dumped with -C debug-assertions=on (the code's own debug_assert!s are checked; rustc's pointer "
    "alignment/null instrumentation passes are switched off); sequentially consistent atomics",
    "one task; the generic half TaskAlloc<F> behind the task vtable is a ghost resource model (storage: future -> result -> "
    "empty; every run_future / take_result / drop_future / dealloc call is checked against it and against the thread it runs on); "
    "the future's poll answers Ready or Pending arbitrarily and may clone its waker once and hand the clone to another thread",
    "threads: E (executor: wait until hot; Task::run; when Ready: Task::drop + release of the queue's reference, <= 4 ticks), "
    "H (join handle owner) on E's thread (its operations are atomic w.r.t. E's) or on another thread, running one program of "
    "poll / re-poll with a different waker / poll-until-ready / drop / detach / cancel-and-await; K (holder of the cloned "
    "task waker on another thread: wake_by_ref and/or drop)",
    "schedules are context-bounded: at most 2 (thorough: 3) preemptive switches, any number of non-preemptive ones "
    "(thorough adds exhaustive enumeration for two single-operation same-thread programs)",
    "Task::schedule, Local::schedule and Remote::schedule are interpreted too (cross-thread queue = a push that makes the task "
    "hot; the driver waker stored in the executor's Shared block = user code that is a scheduling point); teardown "
    "configurations: Executor::clear (Task::drop, wait_for_scheduling, release) + free of the Shared block at a solver-chosen "
    "tick; any access to Shared afterwards is a use-after-free",
    "outside: the hot/cold intrusive lists and max_interval fairness (queue.rs: the starvation clause), panics inside the "
    "future (catch_unwind path), several tasks, weak memory; that a remote joiner of a task whose executor was torn down is "
    "not woken is observed but not counted as a violation (the property does not promise it)",
]


class Plan:
    summaries = []
    checker_cmd = ""

    def z3_version(self):
        import z3
        return z3.get_version_string()

    def prepare(self, tier):
        import dump
        import c04_task
        p, c = dump.dump_mir("compio-executor", [], tag="compio-executor-dbg", debug_assertions=True)
        self.checker_cmd = c + " ;; mirsym/c04_task.py"
        import c04_handle
        self.T = c04_task.TaskModel(p)
        self.H = c04_handle.HandleModel(p)
        self.mod = c04_task
        Plan.summaries = c04_task.SUMMARY_TEXT + c04_handle.SUMMARY_TEXT

    def _check(self, mode, program, pb, teardown=False):
        from explore import Stats, Failure
        name = "task.%s.%s%s%s" % (mode, "+".join(program), "" if pb is None else ".preempt%d" % pb,
                                   ".teardown" if teardown else "")

        def body(sd):
            t0 = time.time()
            n, steps, q, bad = self.mod.explore_schedules(self.T, mode, tuple(program), seed=sd, preempt_bound=pb,
                                                          teardown=teardown)
            st = Stats()
            st.paths, st.queries, st.obligations, st.discharged = n, steps + q, n, n - (1 if bad else 0)
            st.solver_s = time.time() - t0
            fails = []
            if bad:
                for verdict, trace in [(bad[0], bad[1])] + list(bad[2]):
                    fails.append(Failure(name, verdict, {}, [e for e in trace if e[0] != "sched"], [], kind="schedule"))
            st.discharged = n - len(fails)
            return st, fails
        return (name, body, "custom")

    def checks(self, tier):
        pb = 2 if tier == "quick" else 3
        cs = [self._check("local", ["poll_until_ready"], pb), self._check("local", ["drop"], pb),
              self._check("local", ["cancel_poll"], pb), self._check("local", ["detach"], pb),
              self._check("remote", ["poll_until_ready"], pb), self._check("remote", ["drop"], pb),
              self._check("remote", ["cancel_poll"], pb), self._check("remote", ["detach"], pb),
              self._check("remote", ["poll", "poll_b"], 2), self._check("local", ["poll", "poll_b"], 2),
              self._check("remote", ["poll", "drop"], 2), self._check("local", ["poll", "drop"], 2),
              # executor torn down (Executor::clear + drop) at a solver-chosen tick while the handle / a cloned waker
              # is still used elsewhere
              self._check("local", ["detach"], 2, True), self._check("remote", ["drop"], 2, True),
              self._check("remote", ["poll_until_ready"], 2, True)]
        # the JoinHandle wrapper above the task layer (result mapping, what drop / detach ask of the task)
        cs += [("handle." + n, getattr(self.H, "check_" + n)) for n in self.H.CHECKS]
        if tier == "thorough":
            cs += [self._check("remote", ["poll", "poll_b", "poll_until_ready"], 2),
                   self._check("local", ["poll", "poll_b", "poll_until_ready"], 2),
                   self._check("remote", ["poll", "detach"], 2), self._check("local", ["poll", "detach"], 2),
                   self._check("local", ["detach"], None),
                   self._check("remote", ["cancel_poll"], 2, True), self._check("local", ["drop"], 2, True)]
        return cs

    def encoded(self):
        return sorted(self.T.encoded | self.H.encoded)

    def bounds(self, tier):
        return {"tasks": 1, "executor_ticks": 4, "waker_clones": 1, "handle_operations": "1-3",
                "preemption_bound": 2 if tier == "quick" else 3,
                "memory_model": "sequentially consistent"}

    def validate(self, tier):
        # the state word's bit layout is read from the MIR constants; cross-check it against what the transitions do on a
        # concrete straight-line history (spawn, run to completion, join on the home thread): every ghost counter must be exact
        from interp import Path
        p = Path([])
        # decisions: first schedule choice etc. are defaults (0): E runs first, future does not clone, completes
        verdict, steps = self.T.run_schedule(p, "local", ("poll_until_ready",))
        dis = 0 if verdict == "ok" else 1
        return 1, dis, ["straight-line history (spawn; tick: poll -> Ready; join on the home thread) interpreted: verdict %s in %d "
                        "steps; schedule counterexamples are demonstrated natively through the public API where the window can be "
                        "held open from user code (findings/F18_remote_join_lost_wakeup_demo.rs)" % (verdict, steps)]

    def replay(self, f):
        return None, {"schedule": f.trace, "note": "interleaving counterexample over the real MIR with the ghost resource model; "
                      "not replayable step-exactly on OS threads"}


def run(tier):
    return mirprop.run("C04", tier, Plan(), ASSUMPTIONS)


def replay(path):
    d = json.load(open(path))
    print(json.dumps(d, indent=1)[:4000])
    return 2
