"""C07 — managed buffer pool, fallback pool (engine B: MIR interpreter, inductive steps)."""
import json
import os
import sys

HERE = os.path.dirname(os.path.abspath(__file__))
sys.path.insert(0, os.path.join(HERE, "..", "mirsym"))

import mirprop          # noqa: E402
from common import seed  # noqa: E402

ASSUMPTIONS = [
    "fallback pool only (polling build): BufferPool / Shared / BufferRef in buffer_pool.rs and the VecDeque free list in "
    "sys/buffer_pool/fallback.rs; the io_uring buffer ring (mmap + kernel buffer selection) is outside",
    "one inductive step per operation from an arbitrary well-formed pool of N slots (N = 3 quick / 4 thorough): every "
    "presence pattern, every queue order, symbolic len/cap of the live handles; the invariant's preservation is an "
    "obligation, so any history of pop / handle drop follows by induction",
    "Rc/Weak, UnsafeCell, Vec<Slot>, VecDeque, Option/Result plumbing, io::Error, the allocator are summarised "
    "(coverage.summaries)",
    "programs = what the runtime does on this pool: pop() by managed reads, handle drop at any later time (also after the "
    "pool root is gone); BufferPool::take(id)/reset(id) are public but the managed reads only use them on the io_uring "
    "ring, so direct calls on the fallback pool are outside the property's programs (observation in DESIGN.md, not a finding)",
]


class Plan:
    summaries = []
    checker_cmd = ""

    def z3_version(self):
        import z3
        return z3.get_version_string()

    def prepare(self, tier):
        import dump
        import c07_bufpool
        p, c = dump.dump_mir("compio-driver", ["polling"], no_default_features=True, tag="compio-driver-poll")
        self.checker_cmd = c + " ;; mirsym/c07_bufpool.py"
        self.P = c07_bufpool.Pool(p, 3 if tier == "quick" else 4)
        Plan.summaries = c07_bufpool.SUMMARY_TEXT

    def checks(self, tier):
        return [("pool." + n, getattr(self.P, "check_" + n)) for n in self.P.CHECKS]

    def encoded(self):
        return sorted(self.P.encoded)

    def bounds(self, tier):
        return {"slots": self.P.N, "steps": "1 operation from an arbitrary well-formed pool", "buffer_len": 16}

    def validate(self, tier):
        # concrete history through the interpreter vs the documented behaviour of the repo's own test
        # (buffer_pool_multiple_buffers): pop N times, all distinct, then exhaustion, drop one, pop again
        from interp import Path, Ref, Cell, EnumV
        import z3
        P = self.P
        p = Path([])
        notes = []
        dis = 0
        # full pool: force every slot present with identity order by fixing decisions
        dec = [True] * P.N
        p = Path(dec + [("c", 0, 6 if P.N == 3 else 24)])
        W, pool = P.mk_state(p)
        I = P.interp(W)
        L = P.handle_layout()
        got = []
        for _ in range(P.N):
            r = I.run_to_end(I.call_fn(P.F("src/buffer_pool.rs", "pop", "BufferPool"), [Ref(Cell(pool))], p))
            if r.variant != 0:
                dis += 1
                break
            got.append(r.fields[0].v)
        ids = [z3.simplify(h.f[L["buffer_id"]].v).as_long() for h in got]
        if sorted(ids) != list(range(P.N)):
            dis += 1
            notes.append("N pops did not hand out N distinct buffers: %s" % ids)
        r = I.run_to_end(I.call_fn(P.F("src/buffer_pool.rs", "pop", "BufferPool"), [Ref(Cell(pool))], p))
        if r.variant != 1:
            dis += 1
            notes.append("pop on an exhausted pool did not fail")
        if got:
            I.run_to_end(I.call_fn(P.F("src/buffer_pool.rs", "drop", "BufferRef"), [Ref(Cell(got[0]))], p))
            r = I.run_to_end(I.call_fn(P.F("src/buffer_pool.rs", "pop", "BufferPool"), [Ref(Cell(pool))], p))
            if r.variant != 0 or z3.simplify(r.fields[0].v.f[L["buffer_id"]].v).as_long() != ids[0]:
                dis += 1
                notes.append("buffer returned by drop was not handed out again")
        notes.append("concrete history pop xN / exhausted / drop / pop (the scenario of the repo's buffer_pool tests) through the "
                     "interpreter; outcome compared with the documented behaviour")
        return 1, dis, notes

    def replay(self, f):
        return None, {"choices": f.trace, "note": "inductive-step counterexample (state = presence pattern + queue order + operation); "
                      "not replayed natively"}


def run(tier):
    return mirprop.run("C07", tier, Plan(), ASSUMPTIONS)


def replay(path):
    d = json.load(open(path))
    print(json.dumps(d, indent=1)[:3000])
    return 2
