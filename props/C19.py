"""C19 — two of its clauses: process-group routing (one live, non-full member or the message comes back) and the name registry
(one actor per name, invisible until activated, free again after the registration is dropped) (engine B, mirsym/c19_group.py)."""
import json
import os
import sys

HERE = os.path.dirname(os.path.abspath(__file__))
sys.path.insert(0, os.path.join(HERE, "..", "mirsym"))

import mirprop          # noqa: E402

ASSUMPTIONS = [
    "scope: ONLY the last clause of the property — 'a process group routes each message to exactly one live, non-full member or "
    "hands it back' — i.e. ProcessGroup::{send, join}, Membership::drop and Strategy::select of compio-actor/src/process_group, "
    "interpreted from MIR; the member list is a bounded sequence (every size up to the bound), the round-robin cursor a symbolic "
    "usize, each member's mailbox answers accepts / full / closed by adversarial choice",
    "the group's mutex is held for the whole call (as in the code), so one call is atomic with respect to other group operations; "
    "Arc / Weak / Mutex / MutexGuard / Vec<Member> / NonZero are summarised by definition (coverage.summaries)",
    "second clause, the name registry (cluster/registry.rs: Registry::{reserve, get}, Registration::{activate, drop}): the map holds, "
    "for the name under test, nothing / a reservation / an active mailbox (plus an unrelated active entry), the OnceLock is "
    "initialised or not; HashMap / OnceLock / Arc / Mutex are summaries, names are tokens; obligations: a reserved or active name "
    "is refused, a free one is reserved without becoming visible, get resolves only active names (to their own mailbox), "
    "activate makes the name resolve to the new mailbox, dropping the registration frees the name, other names are never touched",
    "NOT covered (no solver-based encoding within reach; see DESIGN.md §1 C19): serial FIFO handling of a mailbox (bounded MPMC "
    "channel of a third-party crate + biased select on a running runtime), lifecycle-hook order (and therefore *when* spawn.rs "
    "calls activate / drops the registration), call replies after the actor is gone, the supervisor",
]


def run(tier):
    from groupplan import GroupPlan
    return mirprop.run("C19", tier, GroupPlan(), ASSUMPTIONS)


def replay(path):
    d = json.load(open(path))
    print(json.dumps(d, indent=1)[:3000])
    return 2
