"""C03 — a wake-up from any thread is never lost (engine B: MIR interpreter, all interleavings within bounds)."""
import json
import os
import sys
import time

HERE = os.path.dirname(os.path.abspath(__file__))
sys.path.insert(0, os.path.join(HERE, "..", "mirsym"))

import mirprop          # noqa: E402
from common import log, seed  # noqa: E402

ASSUMPTIONS = [
    "sequentially consistent memory: the atomics' orderings (Release/AcqRel/Acquire) are read from the MIR but weak-memory "
    "reorderings are NOT explored",
    "layer 1 (driver): 1 runtime thread x 2-3 loop iterations {service work; Driver::poll(None)} (or the external-loop "
    "form {flush(); wait on fd; poll(0)}) against 1-2 waking threads; every kernel-facing call inside Driver::poll is "
    "summarised (coverage.summaries); both drivers (io_uring, polling)",
    "layer 2 (executor): 1-2 remote wakers (of one task or of two tasks) x the executor loop (2 iterations), cross-thread "
    "queue capacity 1-2, symbolic initial task state word; Task::run represented by State::unschedule + an abstract poll; "
    "with two wakers the schedules are context-bounded: at most 2 (thorough: 3) preemptive switches, any number of "
    "non-preemptive ones (the full enumeration for two wakers exceeds 4x10^5 schedules and an hour)",
    "schedules are enumerated exhaustively by DFS within these bounds; data (state words, counters) is symbolic and "
    "decided by z3",
    "layer 2 also covers the external-loop form of a same-thread wake: while the runtime thread waits on the driver fd inside a "
    "foreign event loop, other code on that thread wakes a task through Local::schedule (interpreted), which must notify the driver",
    "outside: block_on's own loop skeleton, compio-compat's event loops, crossbeam's ArrayQueue internals, "
    "queue sizes > 2, > 2 wakers, weak memory",
]


class Plan:
    summaries = []
    checker_cmd = ""

    def z3_version(self):
        import z3
        return z3.get_version_string()

    def prepare(self, tier):
        import dump
        import c03_wake
        import c03_exec
        cmds = []
        p1, c1 = dump.dump_mir("compio-driver", [], tag="compio-driver-iour")
        p2, c2 = dump.dump_mir("compio-driver", ["polling"], no_default_features=True, tag="compio-driver-poll")
        p3, c3 = dump.dump_mir("compio-executor", [], tag="compio-executor")
        self.checker_cmd = " ;; ".join([c1, c2, c3]) + " ;; mirsym/c03_wake.py + mirsym/c03_exec.py"
        self.iour = c03_wake.Wake(p1, "iour")
        self.poll = c03_wake.Wake(p2, "poll")
        self.ex = c03_exec.Exec(p3)
        self.mw, self.me = c03_wake, c03_exec
        Plan.summaries = c03_wake.SUMMARY_TEXT + c03_exec.SUMMARY_TEXT
        self.tier = tier

    def _wake_check(self, wk, kind, wakers, iters, init, mode, full, pb=None):
        from explore import Stats, Failure
        name = "wake.%s.%s.init%d.w%d.i%d%s%s" % (kind, mode, init, wakers, iters, "" if full else ".reduced",
                                                  "" if pb is None else ".preempt%d" % pb)

        def body(sd):
            t0 = time.time()
            n, steps, q, lost = self.mw.explore_schedules(wk, wakers, iters, init, mode, seed=sd, full_havoc=full,
                                                          preempt_bound=pb)
            st = Stats()
            st.paths, st.queries, st.obligations, st.discharged = n, steps, n, n - (1 if lost else 0)
            st.solver_s = time.time() - t0
            fails = []
            if lost:
                fails.append(Failure(name, "lost wake-up: runtime thread parked in the kernel wait while published work "
                                           "of a returned waker is unserviced", {}, lost, [], kind="schedule"))
            return st, fails
        return (name, body, "custom")

    def _exec_check(self, n, cap, iters, same, pb=None, nl=0):
        from explore import Stats, Failure
        name = "exec.remote%d%s.cap%d.i%d.%s%s" % (n, "+local" if nl else "", cap, iters, "same" if same else "distinct",
                                                   "" if pb is None else ".preempt%d" % pb)

        def body(sd):
            t0 = time.time()
            np_, steps, q, bad = self.me.explore_schedules(self.ex, n, cap, iters, same, seed=sd, preempt_bound=pb, n_local=nl)
            st = Stats()
            st.paths, st.queries, st.obligations, st.discharged = np_, steps + q, np_, np_ - (1 if bad else 0)
            st.solver_s = time.time() - t0
            fails = []
            if bad:
                fails.append(Failure(name, bad[0], {}, bad[1], [], kind="schedule"))
            return st, fails
        return (name, body, "custom")

    def checks(self, tier):
        cs = []
        for wk, kind in ((self.iour, "iour"), (self.poll, "poll")):
            for init in (0, 2):
                cs.append(self._wake_check(wk, kind, 1, 2, init, "poll", kind == "iour" or tier == "thorough"))
                cs.append(self._wake_check(wk, kind, 1, 3, init, "poll", False))
                cs.append(self._wake_check(wk, kind, 1, 2, init, "flush", tier == "thorough" or kind == "poll"))
            if tier == "thorough":
                # two wakers: exhaustive for io_uring (2x10^4 schedules); the polling driver's poll has more scheduling
                # points (> 4x10^5 schedules): context-bounded there
                cs.append(self._wake_check(wk, kind, 2, 2, 2, "poll", False, None if kind == "iour" else 3))
        # executor layer: one waker exhaustively; two wakers (same task / two tasks, full queue) under a context bound
        cs.append(self._exec_check(1, 1, 2, True))
        cs.append(self._exec_check(2, 1, 2, True, 2))
        cs.append(self._exec_check(2, 1, 2, False, 2))
        # external-loop mode: a same-thread wake from the foreign loop while compio waits on its fd (Local::schedule)
        cs.append(self._exec_check(0, 1, 2, True, None, 1))
        cs.append(self._exec_check(1, 1, 2, True, 2, 1))
        if tier == "thorough":
            cs.append(self._exec_check(2, 2, 2, True, 3))
            cs.append(self._exec_check(2, 1, 2, True, 3))
            cs.append(self._exec_check(2, 1, 2, False, 3))
        return cs

    def encoded(self):
        return sorted(self.iour.encoded | self.poll.encoded | self.ex.encoded)

    def bounds(self, tier):
        return {"threads": "1 runtime thread + 1 waker (thorough: 2)", "runtime_loop_iterations": "2-3",
                "cross_thread_queue_capacity": "1 (thorough: 1-2)", "memory_model": "sequentially consistent",
                "preemption_bound_two_wakers": 2 if tier == "quick" else 3}

    def validate(self, tier):
        # the transitions are the real MIR; what is validated natively is the one piece of arithmetic the protocol
        # rests on: AwakeFlag's three operations on every flag byte (exhaustive, 4 states x 3 ops), against the
        # interpreter's result for the same concrete state
        from interp import Interp, Struct, Cell, Ref, Path
        import z3
        n = dis = 0
        notes = []
        ref = {"set": lambda f: (2, None), "reset": lambda f: (0, (f & 1) != 0), "wake": lambda f: (f | 1, f != 0)}
        for wk in (self.iour, self.poll):
            for f0 in (0, 1, 2, 3):
                for op in ("set", "reset", "wake"):
                    class W0:
                        eventfd = 0
                    p = Path([])
                    I = Interp(wk.fns, wk.consts, wk.summaries(W0, p), resolver=wk.resolver)
                    flag = Struct({0: Cell(z3.BitVecVal(f0, 8))})
                    fn = wk.resolver("AwakeFlag::" + op)
                    r = I.run_to_end(I.call_fn(fn, [Ref(Cell(flag))], p))
                    got_f = z3.simplify(flag.f[0].v).as_long()
                    got_r = None if op == "set" else z3.is_true(z3.simplify(r))
                    n += 1
                    if (got_f, got_r) != ref[op](f0):
                        dis += 1
                        notes.append("AwakeFlag::%s on %d: interpreter %s, reference %s" % (op, f0, (got_f, got_r), ref[op](f0)))
        notes.append("AwakeFlag::{set,reset,wake} interpreted on all 4 flag bytes for both driver builds and compared with the "
                     "documented transition table; schedule counterexamples cannot be replayed step-exactly on real threads "
                     "(no scheduling hooks in /repo) and are reported with their schedule")
        return n, dis, notes

    def replay(self, f):
        return None, {"schedule": f.trace, "note": "interleaving counterexample over the real MIR; a step-exact native replay "
                      "would need scheduling hooks at every atomic access, which /repo does not have"}


def run(tier):
    return mirprop.run("C03", tier, Plan(), ASSUMPTIONS)


def replay(path):
    d = json.load(open(path))
    print(json.dumps(d, indent=1)[:4000])
    return 2
