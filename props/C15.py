"""C15 — three of its mechanisms only: the native-tls blocking shim, the handshake wrapper around it (compio-tls), and the
flush-before-yield logic of the WebSocket stream (compio-ws) (engine B, mirsym/c15_shim.py)."""
import json
import os
import sys

HERE = os.path.dirname(os.path.abspath(__file__))
sys.path.insert(0, os.path.join(HERE, "..", "mirsym"))

import mirprop          # noqa: E402

TLS_ASSUMPTIONS = [
    "scope: compio-tls/src/compat/common.rs (OpensslInner::{poll_read, poll_write, poll_flush}, AllowStd::{with_context, read, "
    "write, flush, finish_handshake}) and the async fn compat::native::handshake behind TlsConnector::connect / TlsAcceptor::accept, "
    "interpreted from MIR (default feature native-tls)",
    "the transport is adversarial (every poll answers Pending, Ready(Ok) or Ready(Err)); the TLS library itself is NOT executed: its two "
    "handshake futures answer error / done at once / would block and pending / finished / error, TlsStream::flush() is a future that "
    "answers pending / ok / error and records whether the shim had left handshake mode",
    "obligations: during the handshake unflushed output is flushed before the transport is asked for input; flush is deferred during the "
    "handshake and reaches the transport afterwards; an accepted write is remembered; Pending <-> WouldBlock and errors pass through "
    "unchanged with the smuggled Context; every stream handed out by connect / accept has left handshake mode and was flushed to "
    "completion after that, however the handshake completed",
    "NOT covered: everything inside native-tls / OpenSSL / rustls / futures-rustls (record layer, handshake state machines, "
    "close_notify), i.e. 'application data are read unchanged, in order and exactly once' and 'followed by a clean close'; the rustls "
    "back end (third-party futures-rustls) and py-dynamic-openssl",
]

WS_ASSUMPTIONS = [
    "scope: compio-ws/src/lib.rs <WebSocketStream as Stream>::poll_next and <.. as Sink>::poll_flush, interpreted from MIR; "
    "async-tungstenite's stream / sink and the transport's poll_flush are adversarial three- or four-way choices",
    "obligations: an item is yielded only after the protocol flush and then the transport flush completed; a pending or failed flush "
    "keeps the received item for the next call (not dropped, not overwritten: the protocol stream is not polled while an item waits); "
    "poll_flush answers Ok only after both flushes",
    "NOT covered: tungstenite / async-tungstenite (framing, masking, ping/pong, close handshake), the connect / accept helpers",
]


def run(tier):
    import multiprop
    from shimplan import ShimPlan, WsPlan
    return multiprop.run("C15", tier, [
        ("compio-tls native-tls shim + handshake wrapper (mirsym)", lambda: mirprop.run("C15", tier, ShimPlan(), TLS_ASSUMPTIONS)),
        ("compio-ws flush-before-yield (mirsym)", lambda: mirprop.run("C15", tier, WsPlan(), WS_ASSUMPTIONS)),
    ])


def replay(path):
    d = json.load(open(path))
    print(json.dumps(d, indent=1)[:3000])
    return 2
