"""C01 at the Proactor / key layer (engine A, kani/driver-stub, hook __verif)."""
import kaniprop
from kanirun import Group

ASSUMPTIONS = [
    "compio-driver built with default-features = false (its stub driver: no syscalls) and --cfg compio_rs_compio_verif; "
    "the harness is the driver: it holds one reference per accepted submission and returns it with exactly one final "
    "completion (Entry::notify) at a solver-chosen moment with a solver-chosen result Ok(n) / Err(os code)",
    "stub: compio_driver::panic::resume_unwind_io = identity (panic transport of thread-pool jobs is outside)",
    "<= 2 concurrently pending operations, <= 2 waker registrations, <= 2 token firings; drop-counting tagged buffers",
    "second group (kani/driver-poll): compio-driver built with its polling feature, keys built through "
    "__verif::detached_key (no epoll instance); observes that the final completion reaches the operation's own "
    "OpCode::set_result (the stub configuration's Carry::set_result is a no-op)",
    "outside: whether iour/mod.rs and poll/mod.rs honour that driver contract (FFI, HashMap/flume, kernel behaviour), "
    "multishot and zero-copy completion ordering, the Submit/SubmitMulti futures (need a Runtime), timeouts",
]

GROUP = Group("driver-stub", name="driver-stub", no_default_features=False, rustflags="--cfg compio_rs_compio_verif",
              zflags=("restrict-vtable", "stubbing"), jobs=6, mem_gb=12, timeout_s=900, stubbed=False)
GROUP_POLL = Group("driver-poll", name="driver-poll", no_default_features=False, rustflags="--cfg compio_rs_compio_verif",
                   zflags=("restrict-vtable",), jobs=2, mem_gb=12, timeout_s=900, stubbed=False)
PLAN = [(GROUP, {"quick": ['c01_q_', 'c02_q_single_op'], "thorough": ["c01_t_"]}),
        (GROUP_POLL, {"quick": ['c01_q_'], "thorough": ["c01_t_"]})]


IOUR_ASSUMPTIONS = [
    "driver layer (io_uring): Driver::poll_entries (+ create_entry) and <Driver as Drop>::drop are interpreted from MIR against an "
    "adversarial, contract-abiding completion queue: per in-flight operation any number of IORING_CQE_F_MORE completions, then at "
    "most one final completion; CANCEL / NOTIFY bookkeeping entries in between; 2 operations in flight, <= 3 (thorough: 4) "
    "queued entries, every such sequence",
    "ghost ownership: one reference leaked to the kernel per in-flight operation; ErasedKey::from_raw re-materialises it (never more "
    "often than it was leaked), dropping the key / Entry::notify releases it",
    "outside: submission (push / push_raw: queue-full retry path), cancel, the blocking-pool path, the polling driver's registry, "
    "what the kernel does with the buffers",
]


def run(tier):
    import sys, os
    sys.path.insert(0, os.path.join(os.path.dirname(os.path.abspath(__file__)), "..", "mirsym"))
    import multiprop
    import mirprop
    from iourplan import IourPlan
    return multiprop.run("C01", tier, [
        ("key layer (kani)", lambda: kaniprop.run("C01", tier, PLAN, ASSUMPTIONS)),
        ("io_uring driver layer (mirsym)", lambda: mirprop.run("C01", tier, IourPlan(), IOUR_ASSUMPTIONS)),
    ])


def replay(path):
    import re
    import replaycmd
    m = re.search(r"\(group ([\w-]+)", open(path).read())
    g = GROUP_POLL if m and m.group(1) == GROUP_POLL.name else GROUP
    return replaycmd.replay_kani("C01", g, path)
