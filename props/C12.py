"""C12 — blocking-style compatibility adapter: its read and write buffers are lossless FIFO pipes (engine B, mirsym/c12_syncbuf.py)."""
import json
import os
import sys

HERE = os.path.dirname(os.path.abspath(__file__))
sys.path.insert(0, os.path.join(HERE, "..", "mirsym"))

import mirprop          # noqa: E402

ASSUMPTIONS = [
    "scope: the blocking-style adapter (compat/sync_stream.rs): SyncReadBuf and SyncWriteBuf, to which SyncStream, SyncStreamReadHalf "
    "and SyncStreamWriteHalf forward every Read / BufRead / Write / fill_read_buf / flush_write_buf call, together with the real "
    "buffer.rs underneath (compact_to, advance, with, with_sync, flush_to, reset); interpreted from MIR (feature `compat`)",
    "one operation per check from an arbitrary well-formed state (0 <= progress <= len <= cap, arbitrary content, arbitrary eof flag, "
    "arbitrary base_capacity / max_buffer_size; write side additionally: buffered-unsent <= max_buffer_size and fully flushed => "
    "reset, both shown to be preserved), so every sequence of read / fill_buf / consume / write / flush calls follows by induction",
    "the inner stream is adversarial within the AsyncRead / AsyncWrite contract: Pending (bounded), Err, or Ok(n) with a solver-chosen "
    "n within the room / bytes offered, at most max_inner inner calls per operation",
    "obligations: byte streams (bytes handed to the caller ++ still buffered = previously buffered ++ bytes delivered by the stream, "
    "and the mirror image for writes) compared byte for byte with one Skolem index; after a failed flush the unsent tail is exactly "
    "what a retry offers; WouldBlock exactly when the documented servicing call can make progress; the size limit bounds the "
    "buffered bytes; end of file only when the stream reported it on a non-empty request",
    "the ghost Vec<u8> / Slice and the Vec / IoBufMut methods used on it are summarised by their documented behaviour "
    "(coverage.summaries); allocation failure is outside",
    "outside: cancellation (dropping fill_read_buf / flush_write_buf while Pending leaves the buffer "
    "lent, which the adapter reports as WouldBlock); the feature-gated read_buf path",
]

ASYNC_ASSUMPTIONS = [
    "layer 2, the poll-style adapter (compat/async_stream.rs + waker_array.rs): AsyncReadStream::{poll_read, poll_read_uninit, "
    "poll_fill_buf} and AsyncWriteStream::{poll_write, poll_flush, poll_close} with poll_read_impl / poll_flush_impl / "
    "poll_close_impl, replace_waker, the pin-project `project` functions and WakerArrayRef::{new, with} interpreted from MIR; "
    "AsyncStream only forwards to the two halves",
    "the blocking-style half underneath is abstract and behaves as layer 1 shows (WouldBlock iff nothing buffered / not accepting; a "
    "completed fill makes the next read succeed, a completed flush empties the write buffer); the boxed in-flight futures are tokens "
    "whose poll answers Pending, Ready(Ok) or Ready(Err)",
    "one call of one entry point from every state (waker slots, in-flight future, buffered data, closed flag); obligations: a Pending "
    "return has polled, in this call, the future left in flight with a waker array covering the caller and every other registered "
    "task of that half; at most one boxed future per direction and none is dropped while in flight; shutdown starts only with nothing "
    "buffered and no flush in flight; poll_flush / poll_close answer Ok only after the flush / shutdown future completed",
    "outside: what waking the array does after the call returned (WakerArrayRef::clone -> Arc<WakerArray> wake_by_ref iterates the "
    "cloned slots: 10 lines, read), fairness between tasks, a task that is woken and never polls again, io errors' kinds",
]


class Plan:
    pass


def run(tier):
    import multiprop
    from syncplan import SyncPlan
    from asyncplan import AsyncPlan
    return multiprop.run("C12", tier, [
        ("blocking-style adapter (mirsym)", lambda: mirprop.run("C12", tier, SyncPlan(), ASSUMPTIONS)),
        ("poll-style adapter (mirsym)", lambda: mirprop.run("C12", tier, AsyncPlan(), ASYNC_ASSUMPTIONS)),
    ])


def replay(path):
    d = json.load(open(path))
    print(json.dumps(d, indent=1)[:3000])
    return 2
