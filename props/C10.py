"""C10 — all buffer views obey one contract (engine A, kani/buf)."""
import kaniprop
from kanirun import Group

ASSUMPTIONS = [
    "root capacity fixed at 8 bytes (vectored: 2 members x 4); lengths, offsets, range bounds, "
    "fill sizes and contents symbolic; <= 2 fills per view; nesting depth <= 2",
    "preconditions are the documented ones only: slice(begin..end) with begin <= buf_len and "
    "begin <= end; fills never exceed the writable length reported by as_uninit()",
    "vectored fills: everything before `begin` initialised, members after it empty (the shape the "
    "in-tree read loops produce); VectoredBufIter is checked for one fill per member",
    "outside: memmap2, BorrowedBuf, bumpalo, allocator_api, BytesMut, capacities other than 8 "
    "(no capacity-dependent branch in the code under test), BufferRef (pool buffers)",
    "Uninit after its first fill is a recorded known finding (see known_findings.json)",
]

GROUP = Group("buf", jobs=12, mem_gb=12, timeout_s=600)
PLAN = [(GROUP, {"quick": ["::q_", "c10_kf_", "c10_q_"], "thorough": ["::t_"]})]


def run(tier):
    return kaniprop.run("C10", tier, PLAN, ASSUMPTIONS)


def replay(path):
    import replaycmd
    return replaycmd.replay_kani("C10", GROUP, path)
