"""C05 at the Proactor / key layer (engine A, kani/driver-stub, hook __verif)."""
import kaniprop
from kanirun import Group

ASSUMPTIONS = [
    "compio-driver built with default-features = false (its stub driver: no syscalls) and --cfg compio_rs_compio_verif; "
    "the harness is the driver: it holds one reference per accepted submission and returns it with exactly one final "
    "completion (Entry::notify) at a solver-chosen moment with a solver-chosen result Ok(n) / Err(os code)",
    "stub: compio_driver::panic::resume_unwind_io = identity (panic transport of thread-pool jobs is outside)",
    "<= 2 concurrently pending operations, <= 2 waker registrations, <= 2 token firings; drop-counting tagged buffers",
    "outside: whether iour/mod.rs and poll/mod.rs honour that driver contract (FFI, HashMap/flume, kernel behaviour), "
    "multishot and zero-copy completion ordering, the Submit/SubmitMulti futures (need a Runtime), timeouts",
]

GROUP = Group("driver-stub", name="driver-stub", no_default_features=False, rustflags="--cfg compio_rs_compio_verif",
              zflags=("restrict-vtable", "stubbing"), jobs=6, mem_gb=12, timeout_s=900, stubbed=False)
PLAN = [(GROUP, {"quick": ['c05_q_', 'c01_q_cancel_vs_completion'], "thorough": ["c05_t_"]})]


SUBMIT_ASSUMPTIONS = [
    "runtime level: the Submit future of compio-runtime (poll for both result shapes, the pin-project drop body) is interpreted from "
    "MIR with the Proactor summarised by its contract: submit_raw -> Pending(key) | Ready(result), poll_task -> Pending(key) | "
    "Ready(result), cancel(key); context with / without cancel token and extra data; programs of <= 3 steps of poll / drop",
    "SubmitMulti (multishot stream) likewise, with poll_multishot -> Some(item) | None; programs of <= 4 poll_next / drop steps",
    "outside: the typed stream adapters on top of SubmitMulti (buffer hand-over), CancelToken's own bookkeeping, the timeout / "
    "select combinators that drop the future",
]


def run(tier):
    import sys, os
    sys.path.insert(0, os.path.join(os.path.dirname(os.path.abspath(__file__)), "..", "mirsym"))
    import multiprop
    import mirprop
    from submitplan import SubmitPlan
    return multiprop.run("C05", tier, [
        ("Proactor / key layer (kani)", lambda: kaniprop.run("C05", tier, PLAN, ASSUMPTIONS)),
        ("Submit future (mirsym)", lambda: mirprop.run("C05", tier, SubmitPlan(), SUBMIT_ASSUMPTIONS)),
    ])


def replay(path):
    import replaycmd
    return replaycmd.replay_kani("C05", GROUP, path)
