"""C08 — both drivers issue the same OS request for the same file op value (engine A, kani/driver-fusion)."""
import kaniprop
from kanirun import Group

ASSUMPTIONS = [
    "compio-driver built with features io-uring + polling (fusion): IourOpCode::create_entry and PollOpCode::operate of the "
    "same op value are both executed symbolically; the SQE is decoded through a #[repr(C)] view of struct io_uring_sqe",
    "stubs: rustix::backend::{io,net}::syscalls::* (the private functions below rustix' public API, one level above the raw "
    "syscall asm) = recording stubs returning a solver-chosen result / errno",
    "heap-rooted Slice<Vec<u8>> buffers, capacity 8, symbolic length and view bounds; symbolic fd >= 0, offset, flags",
    "outside: what the kernel does with the request (file contents, ordering, short transfers' cause, datagram boundaries, "
    "accept uniqueness), the submission/completion machinery of both drivers (C01/C02), compio-fs / compio-net above the "
    "ops, vectored / managed / zero-copy / multishot op variants not listed in coverage.harnesses",
]

GROUP = Group("driver-fusion", name="driver-fusion", no_default_features=False, zflags=("restrict-vtable", "stubbing"),
              jobs=6, mem_gb=12, timeout_s=900, stubbed=True)
PLAN = [(GROUP, {"quick": ["c08_q_"], "thorough": ["c08_t_"]})]


WRAP_ASSUMPTIONS = [
    "layer 2 (compio-fs File wrappers): the wrappers' coroutine MIR is interpreted with uninterpreted functions for every callee outside the "
    "crate (op constructors, submit, result-mapping traits); a submission answers Pending (<= 2 times) or Ready(driver result)",
    "the specification table (mirsym/c08_wrappers.py SPECS) states per wrapper which operation is built from which arguments "
    "and which result mapping is applied; it is written from the documented behaviour, not derived from the code",
    "outside: what the mapping functions themselves do (op layer), managed / multishot / zero-copy variants, connect/accept/bind, "
    "address conversion, the runtime's submit machinery",
]


def run(tier):
    import sys, os
    sys.path.insert(0, os.path.join(os.path.dirname(os.path.abspath(__file__)), "..", "mirsym"))
    import multiprop
    import mirprop
    from wrapplan import WrapPlan
    return multiprop.run("C08", tier, [
        ("op-layer (kani)", lambda: kaniprop.run("C08", tier, PLAN, ASSUMPTIONS)),
        ("wrapper-layer (mirsym)", lambda: mirprop.run("C08", tier, WrapPlan("compio-fs", ["compio-driver/io-uring"], exclude=r"::close$"), WRAP_ASSUMPTIONS)),
    ])


def replay(path):
    import replaycmd
    return replaycmd.replay_kani("C08", GROUP, path)
