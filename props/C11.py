"""C11 — I/O helpers invariant under chunking and transient errors (engine A, kani/io)."""
import kaniprop
from kanirun import Group

ASSUMPTIONS = [
    "model streams never return Pending; per call they transfer a solver-chosen 1..=min(cap, remaining) bytes "
    "(0 only at EOF / when full) or inject <= 1-2 Interrupted and <= 1 hard error at solver-chosen calls",
    "payload <= 6 bytes (copy: <= 3), destination capacity 4 (vectored 2x2), positions any u64 where stated",
    "errors are injected as io::Error::from(kind) only; error values produced by the helpers are inspected by kind "
    "and then forgotten (their drop glue is not part of the claim)",
    "Vec<u8> writer harnesses give the destination spare capacity 16 so no reallocation is needed; the reserve() "
    "arithmetic still runs with its real arguments",
    "outside this layer: BufReader/BufWriter/Buffer, copy beyond one byte, read_to_end (Vec growth: CBMC out of memory; all "
    "decided by layer 2), read_to_string's UTF-8 step, sync-feature BiLock, Pending from the inner stream",
]

GROUP = Group("io", name="io", jobs=10, mem_gb=14, timeout_s=900)
PLAN = [(GROUP, {"quick": ["c11_q_"], "thorough": ["c11_t_"]})]


BUF_ASSUMPTIONS = [
    "layer 2 (Buffer / BufWriter / BufReader, mirsym/c11_buffer.py): buffer.rs, write/buf.rs and read/buf.rs are interpreted from "
    "MIR (async fns as their coroutine state machines) over a ghost Vec<u8> (symbolic len / cap / content); compio-buf's Slice "
    "and IoBuf(Mut) methods are summarised by their documented behaviour (coverage.summaries; their own correctness is C10)",
    "one operation per check from an arbitrary well-formed buffer state (0 <= progress <= len <= cap <= isize::MAX; for BufWriter "
    "additionally: fully flushed => reset, which every BufWriter operation is shown to preserve), so histories follow by induction",
    "the inner writer / reader is adversarial within the AsyncWrite / AsyncRead contract: Pending, Err, or Ok(n) with a solver-chosen "
    "n within the bytes / room offered; at most max_inner inner calls and `pendings` Pending answers per operation (bounds)",
    "stream obligation: delivered-so-far ++ still-buffered equals previously-buffered ++ bytes reported accepted, byte for byte "
    "(quantifier-free with one Skolem index); an Err result must leave none of the caller's bytes accepted",
    "also in this layer: util::copy_with_size and AsyncReadExt::read_to_end / AsyncReadAtExt::read_to_end_at as whole helpers "
    "(<= copy_inner inner calls, no Pending answers, fewer than 2^63 bytes in total), with AsyncWriteExt::write_all and the "
    "loop_read_to_end! expansion interpreted from their own MIR; the inner stream's errors are Interrupted or not (chosen when "
    "the code asks for the kind)",
    "outside: BufReader::read_vectored, the UTF-8 step of read_to_string, cancellation (dropping an operation's future while it "
    "is Pending leaves the buffer taken), allocation failure in reserve",
]


def run(tier):
    import sys, os
    sys.path.insert(0, os.path.join(os.path.dirname(os.path.abspath(__file__)), "..", "mirsym"))
    import multiprop
    import mirprop
    from bufplan import BufPlan
    return multiprop.run("C11", tier, [
        ("helper-layer (kani)", lambda: kaniprop.run("C11", tier, PLAN, ASSUMPTIONS)),
        ("buffer-layer (mirsym)", lambda: mirprop.run("C11", tier, BufPlan(), BUF_ASSUMPTIONS)),
    ])


def replay(path):
    import replaycmd
    return replaycmd.replay_kani("C11", GROUP, path)
