"""C11 — I/O helpers invariant under chunking and transient errors (engine A, kani/io)."""
import kaniprop
from kanirun import Group

ASSUMPTIONS = [
    "model streams never return Pending; per call they transfer a solver-chosen 1..=min(cap, remaining) bytes "
    "(0 only at EOF / when full) or inject <= 1-2 Interrupted and <= 1 hard error at solver-chosen calls",
    "payload <= 6 bytes (copy: <= 3), destination capacity 4 (vectored 2x2), positions any u64 where stated",
    "errors are injected as io::Error::from(kind) only; error values produced by the helpers are inspected by kind "
    "and then forgotten (their drop glue is not part of the claim)",
    "Vec<u8> writer harnesses give the destination spare capacity 16 so no reallocation is needed; the reserve() "
    "arithmetic still runs with its real arguments",
    "outside: BufReader/BufWriter/Buffer beyond one functional-only round trip, read_to_end/read_to_string "
    "(Vec growth: CBMC out of memory), sync-feature BiLock, Pending from the inner stream",
]

GROUP = Group("io", name="io", jobs=10, mem_gb=14, timeout_s=900)
PLAN = [(GROUP, {"quick": ["c11_q_"], "thorough": ["c11_t_"]})]


def run(tier):
    return kaniprop.run("C11", tier, PLAN, ASSUMPTIONS)


def replay(path):
    import replaycmd
    return replaycmd.replay_kani("C11", GROUP, path)
