"""C16 — only the connection-level half of its last clause: closing a connection completes every pending datagram / open / accept
future with an error instead of leaving it hanging (engine B, mirsym/c16_conn.py)."""
import json
import os
import sys

HERE = os.path.dirname(os.path.abspath(__file__))
sys.path.insert(0, os.path.join(HERE, "..", "mirsym"))

import mirprop          # noqa: E402

ASSUMPTIONS = [
    "scope: ONLY 'closing a connection … completes every pending … datagram, open and accept future with an error instead of leaving it "
    "hanging', at the level of compio-quic/src/connection.rs: ConnectionState::{terminate, close, wake}, wake_all_streams, "
    "wake_stream (the worker's reaction to a per-stream event), ConnectionInner::{state, try_state}, Connection::{poll_recv_datagram, poll_open_stream, poll_accept_stream}, and of "
    "send_stream.rs / recv_stream.rs: SendStream::{stopped, execute_poll_write}, RecvStream::{received_reset, execute_poll_read}, from MIR; "
    "quinn-proto is not executed (its queries answer nothing / something by choice)",
    "the list of ConnectionState's fields is parsed from the struct definition in the source on every run; every field whose type mentions "
    "Waker must be emptied and its wakers woken by terminate (a container added later and not drained is reported; an unknown "
    "container shape makes the check exit 3)",
    "argument: all of this runs under the connection's mutex, so a poll either precedes the termination (its waker is then in a container "
    "terminate drains, it is woken and its next poll returns the stored error) or follows it (try_state returns the error before "
    "anything is registered); the check decides both halves, one call each",
    "NOT covered: everything else in C16 — ordered exactly-once delivery, finish / end-of-stream, flow control, datagrams not interfering "
    "(all quinn-proto + real UDP sockets + the connection worker); endpoint close; the worker noticing the close; the rest of "
    "ConnectionInner::run (select!, timer, transmit, the non-stream event arms)",
    "conn.close_event executes the slice from IntoIter<ConnectionEvent>::next() answering Some(Close(code, reason)) to the next next(); "
    "conn.stream_event / conn.conn_event execute a slice of ConnectionInner::run's coroutine body (from the return of state.conn.poll() with Some(event) to the "
    "next call of state.conn.poll()); required reactions, read from quinn-proto's event documentation: Readable -> the stream's reader, "
    "Writable -> its writer, Finished -> its stopped() future, Stopped -> its stopped() future and its blocked writer",
]


def run(tier):
    from connplan import ConnPlan
    return mirprop.run("C16", tier, ConnPlan(), ASSUMPTIONS)


def replay(path):
    d = json.load(open(path))
    print(json.dumps(d, indent=1)[:3000])
    return 2
