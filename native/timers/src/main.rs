//! Native oracle runner for C09: includes the *real* compio-runtime/src/time/runtime.rs and drives
//! it through a scenario (from a solver counterexample, or a translator-validation sample) against
//! the real clock.  Prints one JSON object per line; exit 1 if the never-early/always-fires
//! oracle is violated natively.
//!
//! scenario (argv[1]) = semicolon-separated ops, times in ms relative to a base instant:
//!   unit:<us>  ins:<ms>  sleep:<ms>  wake  cancel:<idx>  min  done:<idx>  poll:<idx>
#![allow(dead_code, unused_imports)]
#[path = "/repo/compio-runtime/src/time/runtime.rs"]
mod runtime;

use runtime::{TimerKey, TimerRuntime};
use std::sync::Arc;
use std::sync::atomic::{AtomicUsize, Ordering};
use std::task::{Context, Wake, Waker};
use std::time::{Duration, Instant};

struct Count(AtomicUsize);
impl Wake for Count {
    fn wake(self: Arc<Self>) {
        self.0.fetch_add(1, Ordering::SeqCst);
    }
}

fn main() {
    let scen = std::env::args().nth(1).expect("scenario");
    let base = Instant::now() + Duration::from_millis(30);
    let mut rt = TimerRuntime::new();
    // per inserted timer: (deadline, key if accepted, wake counter)
    let mut timers: Vec<(Instant, Option<TimerKey>, Arc<Count>)> = Vec::new();
    let mut violated = false;
    // time unit of the scenario's numbers in microseconds (default 1 ms); `unit:<us>` rescales the same
    // history so that order-type counterexamples can be replayed at several real-time scales
    let mut unit_us: u64 = 1000;
    let at = |ms: i64, unit_us: u64| -> Instant {
        if ms >= 0 { base + Duration::from_micros(ms as u64 * unit_us) } else { base - Duration::from_micros((-ms) as u64 * unit_us) }
    };
    for op in scen.split(';').filter(|s| !s.is_empty()) {
        let (name, arg) = match op.split_once(':') {
            Some((n, a)) => (n, a.parse::<i64>().expect("int")),
            None => (op, 0),
        };
        match name {
            "unit" => {
                unit_us = arg as u64;
            }
            "ins" => {
                let d = at(arg, unit_us);
                let t0 = Instant::now();
                let k = rt.insert(d);
                let t1 = Instant::now();
                // oracle: None iff deadline <= now
                if d <= t0 && k.is_some() { violated = true; println!("{{\"violation\":\"insert accepted a past deadline\"}}"); }
                if d > t1 && k.is_none() { violated = true; println!("{{\"violation\":\"insert rejected a future deadline\"}}"); }
                println!("{{\"op\":\"ins\",\"ms\":{},\"accepted\":{}}}", arg, k.is_some());
                timers.push((d, k, Arc::new(Count(AtomicUsize::new(0)))));
            }
            "sleep" => {
                let until = at(arg, unit_us);
                let now = Instant::now();
                if until > now { std::thread::sleep(until - now); }
            }
            "poll" => {
                let (_, k, c) = &timers[arg as usize];
                if let Some(k) = k {
                    let w = Waker::from(c.clone());
                    let mut cx = Context::from_waker(&w);
                    let r = rt.poll_timer(&mut cx, k);
                    println!("{{\"op\":\"poll\",\"idx\":{},\"ready\":{}}}", arg, r.is_ready());
                }
            }
            "wake" => {
                let t0 = Instant::now();
                rt.wake();
                let t1 = Instant::now();
                for (i, (d, k, c)) in timers.iter().enumerate() {
                    let Some(k) = k else { continue };
                    let done = rt.is_completed(k);
                    // never early
                    if *d > t1 && done {
                        violated = true;
                        println!("{{\"violation\":\"timer {} fired {}us before its deadline\"}}", i, (*d - t1).as_micros());
                    }
                    // always fires
                    if *d <= t0 && !done {
                        violated = true;
                        println!("{{\"violation\":\"timer {} still pending {}us after its deadline\"}}", i, (t0 - *d).as_micros());
                    }
                    println!("{{\"op\":\"wake\",\"idx\":{},\"completed\":{},\"deadline_passed\":{},\"wakes\":{}}}", i, done, *d <= t0, c.0.load(Ordering::SeqCst));
                }
            }
            "cancel" => {
                if let Some(k) = &timers[arg as usize].1 { rt.cancel(k); }
                timers[arg as usize].1 = None;
            }
            "done" => {
                if let Some(k) = &timers[arg as usize].1 {
                    println!("{{\"op\":\"done\",\"idx\":{},\"completed\":{}}}", arg, rt.is_completed(k));
                }
            }
            "min" => {
                let t0 = Instant::now();
                let m = rt.min_timeout();
                let t1 = Instant::now();
                let pend: Vec<Instant> = timers.iter().filter(|t| t.1.map(|k| !rt.is_completed(&k)).unwrap_or(false)).map(|t| t.0).collect();
                match (m, pend.iter().min()) {
                    (None, None) => {}
                    (Some(d), Some(min)) => {
                        let hi = min.saturating_duration_since(t0);
                        let lo = min.saturating_duration_since(t1);
                        if d > hi { violated = true; println!("{{\"violation\":\"idle sleep {}us exceeds distance {}us to the nearest deadline\"}}", d.as_micros(), hi.as_micros()); }
                        if d < lo { violated = true; println!("{{\"violation\":\"min_timeout below the nearest deadline distance\"}}"); }
                    }
                    (a, b) => { violated = true; println!("{{\"violation\":\"min_timeout {:?} but pending {:?}\"}}", a.is_some(), b.is_some()); }
                }
                println!("{{\"op\":\"min\",\"some\":{},\"ms\":{}}}", m.is_some(), m.map(|d| d.as_millis()).unwrap_or(0));
            }
            other => panic!("unknown op {other}"),
        }
    }
    // always fires: after everything, every accepted, uncancelled timer whose deadline passed
    // before the last wake must be complete -- checked by the caller from the "wake" lines.
    for (i, (d, k, _)) in timers.iter().enumerate() {
        if let Some(k) = k {
            let _ = (i, d, k);
        }
    }
    std::process::exit(if violated { 1 } else { 0 });
}
